#!/usr/bin/env python3
"""retriage.py ID log [log...] [--prune]: from VERIF_TRIAGE logs, list known-finding entries of ID that no cluster matched (stale)
and clusters without an entry (NEW). --prune rewrites known_findings.d/ID.jsonl without the stale entries."""
import sys,re,json,os,fnmatch
pid=sys.argv[1]; logs=[a for a in sys.argv[2:] if not a.startswith('--')]; prune='--prune' in sys.argv
sigs=set(); new={}
for lg in logs:
    txt=open(lg).read()
    for b in re.split(r'\n(?=\[(?:NEW|known)\])',txt):
        m=re.match(r'\[(NEW|known)\] n=(\d+) sig=(.*)',b)
        if not m: continue
        sigs.add(m.group(3))
        if m.group(1)=='NEW': new[m.group(3)]=b
def glob(p,s):
    return re.fullmatch('.*'.join(re.escape(x) for x in p.split('*')),s) is not None
path=f'/verif/known_findings.d/{pid}.jsonl'
entries=[json.loads(l) for l in open(path) if l.strip()] if os.path.exists(path) else []
keep=[];stale=[]
for e in entries:
    (keep if any(glob(e['sig'],s) for s in sigs) else stale).append(e)
print(f'{pid}: clusters seen {len(sigs)}; entries {len(entries)}; stale {len(stale)}; NEW {len(new)}')
for e in stale: print('  STALE',e['sig'][:150])
for s,b in new.items(): print('  NEW',b[:600].replace('\n','\n      '))
if prune:
    with open(path,'w') as f:
        for e in keep: f.write(json.dumps(e)+'\n')
    if not keep: os.remove(path)

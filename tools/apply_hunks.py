#!/usr/bin/env python3
"""apply_hunks.py <patch> <spec> : spec like "base/src/worksheet.rs:4,5;base/src/user_model/common.rs:0" applies only those hunks
(to the git repo in cwd) with git apply --recount -3 fallback. 'file:*' = all hunks of file."""
import re,sys,subprocess
d=open(sys.argv[1]).read()
files=[f for f in re.split(r'(?m)^(?=diff --git )',d) if f.startswith('diff --git')]
want={}
for part in sys.argv[2].split(';'):
    f,idx=part.split(':')
    want[f]=idx
out=''
for f in files:
    name=re.match(r'diff --git a/(\S+)',f).group(1)
    if name not in want: continue
    parts=re.split(r'(?m)^(?=@@ )',f)
    head,hs=parts[0],parts[1:]
    if want[name]=='*': sel=hs
    else: sel=[hs[int(i)] for i in want[name].split(',')]
    out+=head+''.join(sel)
open('/tmp/_sel.diff','w').write(out)
for args in (['git','apply','--recount','/tmp/_sel.diff'],['git','apply','--recount','-3','/tmp/_sel.diff'],['patch','-p1','-F3','-i','/tmp/_sel.diff']):
    r=subprocess.run(args,capture_output=True,text=True)
    if r.returncode==0:
        print('applied with',args[1:3]); sys.exit(0)
    print('failed',args[:3],r.stderr[:300])
sys.exit(1)

#!/bin/bash
# tools/try_mutant.sh <patch.diff> <ID> [<ID>...]
# Runs the checks against a scratch copy of /repo with the patch applied (so that /repo itself, which other builds
# read through the harness's path dependency, is never touched). Prints one line per check.
# The canonical way (git -C /repo apply; ./run.sh; git -C /repo checkout -- .) gives the same verdicts.
P=$(readlink -f "$1"); shift
S=/tmp/mut_try$LANE; H=/tmp/try_h$LANE
HEAD=$(git -C /repo rev-parse HEAD)
if [ ! -d $S ]; then git -C /repo worktree add -q --detach $S $HEAD || exit 2; fi
git -C $S checkout -q --detach $HEAD && git -C $S checkout -q -- . && git -C $S clean -fdq || exit 2
git -C $S apply "$P" || { echo "patch does not apply"; exit 2; }
mkdir -p $H && rsync -a --delete --exclude target /verif/harness/ $H/harness/ && cp /verif/harness/Cargo.lock $H/harness/
sed -i "s|/repo/base|$S/base|; s|/repo/xlsx|$S/xlsx|" $H/harness/Cargo.toml
sed -i "s|/verif/target|$H/target|" $H/harness/.cargo/config.toml
( cd $H/harness && CARGO_NET_OFFLINE=true cargo build --offline --profile verif 2>$H/build.log >/dev/null ) || { tail -20 $H/build.log; echo "BUILD FAILED"; exit 2; }
mkdir -p $H/root; ln -sfn /verif/known_findings.jsonl $H/root/known_findings.jsonl; ln -sfn /verif/known_findings.d $H/root/known_findings.d
for id in "$@"; do
  out=$(VERIF_ROOT=$H/root LD_PRELOAD=/verif/shim/detrand.so VERIF_HASH_SEED=0 $H/target/verif/icverif check $id ${TIER:-quick} 2>&1)
  code=$?
  echo "$id exit=$code $(echo "$out" | grep -m1 '^  sig:' | cut -c1-160) | $(echo "$out" | tail -1 | cut -c1-110)"
done
git -C $S checkout -q -- .

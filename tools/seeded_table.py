#!/usr/bin/env python3
"""Updates seeded/*/meta.json ("checks_run") from seeded/RESULTS.tsv and rewrites the §9 table of DESIGN.md."""
import json,os,re,collections
rows=collections.defaultdict(list)
for l in open('/verif/seeded/RESULTS.tsv'):
    p=l.rstrip('\n').split('\t')
    if len(p)>=3: rows[p[0]].append((p[1],int(p[2]),p[3] if len(p)>3 else ''))
lines=[]
caught=0;total=0
for d in sorted(os.listdir('/verif/seeded')):
    mp=f'/verif/seeded/{d}/meta.json'
    if not os.path.exists(mp): continue
    m=json.load(open(mp))
    res=rows.get(d,[])
    m['property']=m.get('property') or d.split('-')[0]
    m['checks_run']=[{"check":c,"quick_exit":e,"first_violation_sig":s} for c,e,s in res]
    m['caught_by']=[c for c,e,s in res if e==1]
    json.dump(m,open(mp,'w'),indent=1)
    total+=1
    if m['caught_by']: caught+=1
    needs=(m.get('needs') or '').replace('\n',' ').replace('|','/')
    needs=needs[:150]+('…' if len(needs)>150 else '')
    conf=m.get('confirmed',{})
    ok='yes' if conf.get('ok') else ('—' if not conf else 'NO')
    own=[f"{c}" for c,e,s in res if e==1]
    missed=[c for c,e,s in res if e!=1]
    lines.append(f"| {d} | {needs} | {ok} | {', '.join(own) if own else '**none**'} | {', '.join(missed)} |")
table="| change | needs, to manifest | confirmed (suite passes, demo fails with / passes without) | caught by (quick tier, exit 1) | run and silent |\n|---|---|---|---|---|\n"+'\n'.join(lines)
hdr="## 9. Seeded changes: which checks catch which"
body=f"""{hdr}

Independent sub-agents, given only one property's text and a scratch worktree of /repo (nothing from /verif), each wrote three
changes that compile, pass the repository's own suite and break that property only under a specific condition. Each kept change
is in `seeded/<id>/` (`patch.diff`, `demo.rs`, `meta.json`); `tools/confirm_mutant.sh` re-confirmed compile / suite / demo in a
scratch worktree, `tools/run_seeded.sh` ran the quick tier of the property's check (and of the neighbouring checks named in
`seeded/<id>/also`) against a scratch copy of /repo with the change applied (`tools/try_mutant.sh`; the canonical
`git -C /repo apply … ; ./run.sh … ; git -C /repo checkout -- .` gives the same verdicts). {caught} of {total} changes are
caught by at least one check. Changes that were first missed and the strengthening they led to are listed below the table.

{table}

Strengthening done because a seeded change was first missed (each re-run afterwards): C28 alphabet (hidden first row/column,
paste-styles into the current selection) for C28-m2/m3; `Obs` conditional-format overlay + storage index, a second and third
overlapping rule in the `basic` seed and `DeleteCf(0,1)` for C01-m3 and C02-m3; C09 constructs (ranges reaching the last
row/column with mixed `$`) for C09-m1 / C22-m1; C16 observers (range sticking out of the cut area vertically, other-sheet
observer at the cut cell's own coordinates, URL-like text whose link was removed) for C16-m1/m2/m3; C17 operand positions
(`^`, `&`, `/`, `<`, sign, `%`) for C17-m1 and a case-variant sheet name in the alphabet for C17-m3 (caught by C27); C19 second
pass into pre-formatted cells for C19-m3; C24 non-square CSE arrays of every anchor kind and lower-case `_xhhhh_` look-alikes
for C24-m2/m3; C26 permissive histories (states left by failed calls), models created with locale ≠ language and an
unbalanced formula input for C26-m1/m2/m3; C05 cycle waiver narrowed (an error shown by a cycle member is no excuse) for
C05-m2; C06 cross-sheet whole-column / whole-row aggregates over tall and wide sheets for C05-m3 and C06-m1; C15 bystanders at
the edited strip's own coordinates on the other sheet for C15-m2; C18 pass over cells that held something before
(quote-prefixed text, formats, month-name date formats per locale) for C18-m2/m3; C34 blank runs before sheet-qualified
references for C11-m2; C25 escape look-alike text values for C25-m1; C30 ordered pairs of number formats, case-variant custom
codes and rows/columns styled in descending order for C30-m1/m2/m3; C32 rename-and-rescope in one edit for C32-m2; C02 family
"redo while another display language is active" for C32-m3; cross-sheet cut of a spill anchor onto its own spill coordinates
in the alphabet for C31-m3 (caught by C27). Second round (m4–m6 of C01, C03, C04, C13, C15, C16, C24, C31; each agent was
told what the first round had produced and asked for something else): 14 of 24 were caught as the checks stood; the rest
led to: C03 plan "every pair of operations, then undo" and a built-in number-format-only named style applied to absent cells of
a styled row / column for C03-m5/m6; C04 start states with content, sizes and hidden lines next to the last columns / rows
and group moves whose last line alone leaves the grid for C04-m4; C15 (and C12–C14, same builder) a hidden line of the other
axis inside the landing zones for C15-m5; C16 sheet names that must be quoted (with an apostrophe to double) and error
literals in the cut formulas for C16-m5/m4; C24 every sequence of ≤3 links over {{two external targets, internal}} and of ≤3
conditional formats over {{empty format, fill, bold}} for C24-m4/m6; C31 clear-all areas that hold the anchor in a later
column for C31-m6; an empty-format conditional format and a rename+rescope+redefine of a name in the common alphabet (the
latter exposed a genuine C01 defect, repaired in /repo 4cbca90). C16-m6 is caught by C27 (orphan spill cell), not by C16:
the statement leaves the vacated source cells open. Third round (C02, C06, C09, C12, C27, C32; the agents were stopped early for time and 11 changes kept): 7 were caught
by their own check as it stood; C12-m4 (displaced formulas printed in the default locale) by C10 and C01, C27-m4 (pieces of a
split multi-column descriptor re-inserted in reverse order) by C29, C27-m5 (spill ownership compared as (column,row)) by
C31, C32-m5 (a sheet-local name resolving to its global namesake) by C02; they led to whole-column clears inside the
imported seed's multi-column descriptors (C27 now reports `cols-order` itself), two spills anchored at mirrored positions
and update/delete of a local name that shadows a global one (C01 now catches C32-m5) in the common alphabet.
Two first-round changes (C06-m1, C06-m3) turned out to fail the
repository's own xlsx tests and were moved to `seeded/rejected/`. Not caught by their own property's check but by a
neighbour: see the table.
"""
p='/verif/DESIGN.md'
s=open(p).read()
i=s.find(hdr)
if i>=0: s=s[:i].rstrip()+'\n\n'
s+= '\n'+body
open(p,'w').write(s)
print(f"{caught}/{total} caught")

#!/bin/bash
# tools/run_seeded.sh [dir...] : runs, for every seeded change, the quick check of the property it breaks (plus the checks
# named in seeded/<id>/also) against a scratch copy of /repo with the change applied, and records the verdicts in
# seeded/RESULTS.tsv, or $RESULTS (mutant, check, exit code, first violation signature).
cd /verif; R=${RESULTS:-seeded/RESULTS.tsv}; touch $R
dirs="$@"; [ -z "$dirs" ] && dirs=$(ls -d seeded/C*-m*)
for d in $dirs; do
  id=$(basename $d); prop=${id%%-*}
  checks="$prop"; [ -f $d/also ] && checks="$checks $(cat $d/also)"
  out=$(tools/try_mutant.sh $d/patch.diff $checks 2>&1)
  echo "$out" | grep -E "^C[0-9]+ exit=" | while read -r line; do
    c=$(echo "$line" | cut -d' ' -f1); e=$(echo "$line" | sed 's/.*exit=\([0-9]*\).*/\1/'); sig=$(echo "$line" | sed -n 's/.*sig: \(.*\) | .*/\1/p')
    grep -v -P "^$id\t$c\t" $R > /tmp/_r$LANE.tsv 2>/dev/null; mv /tmp/_r$LANE.tsv $R 2>/dev/null
    printf "%s\t%s\t%s\t%s\n" "$id" "$c" "$e" "$sig" >> $R
  done
  echo "$id: $(echo "$out" | grep -E "^C[0-9]+ exit=" | sed 's/ *|.*//' | tr '\n' ';' | cut -c1-200)"
done
sort -o $R $R

#!/bin/bash
# tools/confirm_mutant.sh <dir with patch.diff demo.rs> : in the scratch worktree $CONFIRM_DIR (default /tmp/mut_confirm) (never /repo) checks that
# (1) the patch applies and compiles, (2) the repository's own test suite still passes with it, (3) demo.rs fails with it and
# (4) passes without it. Appends a "confirmed" object to <dir>/meta.json. Exit 0 iff all four hold.
D=$(readlink -f "$1"); S=${CONFIRM_DIR:-/tmp/mut_confirm}
HEAD=$(git -C /repo rev-parse HEAD)
[ -d $S ] || git -C /repo worktree add -q --detach $S $HEAD || exit 2
git -C $S checkout -q --detach $HEAD && git -C $S checkout -q -- . && git -C $S clean -fdq -e target
export CARGO_TARGET_DIR=$S/target CARGO_NET_OFFLINE=true
pkg=ironcalc_base; tdir=base/tests
grep -q "xlsx/" $D/patch.diff && { pkg=ironcalc; tdir=xlsx/tests; }
grep -q "use ironcalc::" $D/demo.rs && { pkg=ironcalc; tdir=xlsx/tests; }
mkdir -p $S/$tdir; cp $D/demo.rs $S/$tdir/verif_demo.rs
( cd $S && cargo test --offline -p $pkg --test verif_demo > $D/demo_without.log 2>&1 ); without=$?
git -C $S apply $D/patch.diff || { echo "patch does not apply"; exit 2; }
( cd $S && cargo test --offline -p $pkg --test verif_demo > $D/demo_with.log 2>&1 ); with=$?
rm -f $S/$tdir/verif_demo.rs
( cd $S && cargo nextest run --workspace --no-fail-fast --offline --test-threads 12 > $D/suite_with.log 2>&1 ); suite=$?
summary=$(grep -m1 "Summary" $D/suite_with.log | sed 's/^ *//')
git -C $S checkout -q -- . ; git -C $S clean -fdq -e target
python3 - "$D" "$without" "$with" "$suite" "$summary" "$HEAD" <<'PY'
import json,sys,os
d,without,with_,suite,summary,head=sys.argv[1:]
p=os.path.join(d,'meta.json')
m=json.load(open(p)) if os.path.exists(p) else {}
m['confirmed']={"repo_head":head,"demo_without_patch_exit":int(without),"demo_with_patch_exit":int(with_),"repo_suite_with_patch_exit":int(suite),"repo_suite_summary":summary,
 "ok": int(without)==0 and int(with_)!=0 and int(suite)==0}
json.dump(m,open(p,'w'),indent=1)
print(os.path.basename(os.path.dirname(d)),os.path.basename(d),m['confirmed'])
PY
rm -f $D/demo_without.log $D/demo_with.log; tail -c 2000 $D/suite_with.log > $D/suite_tail.log; rm -f $D/suite_with.log

#!/usr/bin/env python3
"""Turns reviewed triage clusters (VERIF_TRIAGE=1 output) into known_findings.jsonl lines.
usage: mk_findings.py <ID> <triage.log> [note]   -> prints JSON lines for clusters marked [NEW]"""
import sys,re,json
pid,log=sys.argv[1],sys.argv[2]
note=sys.argv[3] if len(sys.argv)>3 else ''
txt=open(log).read()
blocks=re.split(r'\n(?=\[(?:NEW|known)\])',txt)
for b in blocks:
    if not b.startswith('[NEW]'): continue
    lines=b.split('\n')
    m=re.match(r'\[NEW\] n=(\d+) sig=(.*)$',lines[0])
    if not m: continue
    sig=m.group(2)
    case=lines[1].strip()[5:] if lines[1].strip().startswith('case=') else ''
    det=[l.strip() for l in lines[2:] if l.strip() and not l.startswith(('VIOLATION','KNOWN','  sig','  case','---'))]
    det=[re.sub(r'font=Some\(Font \{[^}]*\}\)','font=..',re.sub(r'border=Some\(Border \{[^}]*\}\)','border=..',l)) for l in det]
    what=(note+' ' if note else '')+' | '.join(det[:3])
    what=what[:400]
    try: w=json.loads(case)
    except Exception: w=case
    print(json.dumps({"property":pid,"status":"open","sig":sig,"what":what,"witness":w,"clusters_seen":int(m.group(1))}))

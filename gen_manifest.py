#!/usr/bin/env python3
"""Generates /verif/MANIFEST.json from the table below (kept valid at all times)."""
import json, subprocess
import os,glob
CHECKS = {}
for f in sorted(glob.glob('/verif/meta/C*.json')):
    m=json.load(open(f))
    CHECKS[os.path.basename(f)[:-5]]=(m["engine"],m["text"],m["note"],m["technique"],m["design_ref"])
NOT_APPLICABLE = {}
def main():
    props=[json.loads(l) for l in open('/verif/properties.jsonl')]
    ids=[p['id'] for p in props]
    hooks=subprocess.run(['git','-C','/repo','log','--format=%H','--grep=^verif hooks'],capture_output=True,text=True).stdout.split()
    checks=[]
    for i in ids:
        if i in CHECKS:
            eng,text,note,tech,ref=CHECKS[i]
            checks.append({"property_id":i,"quick_cmd":f"./run.sh {i} quick","thorough_cmd":f"./run.sh {i} thorough",
              "evidence_file":f"/verif/evidence/{i}.json","replay_cmd_template":"./run.sh replay {path}","engine":eng,
              "level_claimed":{"category":"model_checking","text":text,"design_ref":"DESIGN.md §"+ref},
              "level_note":note,"technique":tech})
    na=[{"property_id":i,"reason":NOT_APPLICABLE.get(i,"check not built yet in this tree (planned in DESIGN.md §3); not claimed until its check runs green or with listed known findings")} for i in ids if i not in CHECKS]
    m={"version":1,"setup_cmd":"./setup.sh",
       "hooks":{"guard":"cargo feature verif_hooks of ironcalc_base (off by default)","enable":"harness/Cargo.toml depends on /repo/base with features [mock_time, verif_hooks]","baseline_off_cmd":"cd /repo && cargo test --workspace --no-fail-fast --offline","source_commits":hooks,"add_only":True},
       "engines":[{"name":"icverif","path":"/verif/harness","serves_properties":[c["property_id"] for c in checks],"kind_free_text":"hand-rolled bounded-exhaustive explorers (history trees, explicit-state BFS, term/string enumeration, finite sweeps, XML mutation) running the real IronCalc code, deterministic hash order via getrandom shim"}],
       "checks":checks,"not_applicable":na,
       "notes":"All checks: ./run.sh <ID> <tier> rebuilds the harness against /repo's working tree (path dependency) and runs one check. Exit 0 held / 1 VIOLATION / >=2 machinery."}
    json.dump(m,open('/verif/MANIFEST.json','w'),indent=1)
    print("checks:",len(checks),"not_applicable:",len(na))
main()

#!/bin/bash
# Built once after a fresh restore, offline: the getrandom shim and the harness binary.
set -e
cd /verif
export CARGO_NET_OFFLINE=true
gcc -O2 -shared -fPIC -o shim/detrand.so shim/detrand.c
cd harness
cargo build --offline --profile verif 2>&1 | tail -5

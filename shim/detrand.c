// getrandom interposer: makes std's per-thread SipHash keys (and rand's thread_rng seed)
// a pure function of VERIF_HASH_SEED, so hash-map iteration order is an owned, replayable
// environment parameter instead of noise. LD_PRELOADed by run.sh.
#define _GNU_SOURCE
#include <stddef.h>
#include <stdlib.h>
#include <sys/types.h>
static __thread unsigned long long ctr = 0;
ssize_t getrandom(void *buf, size_t len, unsigned int flags) {
  (void)flags;
  const char *s = getenv("VERIF_HASH_SEED");
  unsigned long long x = (s ? strtoull(s, 0, 10) : 0) * 0x9E3779B97F4A7C15ULL + 0x1234567ULL + (ctr++) * 0xD1B54A32D192ED03ULL;
  unsigned char *p = (unsigned char *)buf;
  for (size_t i = 0; i < len; i++) {
    x ^= x >> 12; x ^= x << 25; x ^= x >> 27;
    p[i] = (unsigned char)((x * 0x2545F4914F6CDD1DULL) >> 56);
  }
  return (ssize_t)len;
}

#!/bin/bash
# ./run.sh <ID> <quick|thorough>   |   ./run.sh replay <path>
# Rebuilds the harness against /repo's current working tree, then runs one check.
# exit 0 held / 1 VIOLATION / >=2 machinery failure (build error, cap hit, nondeterminism)
cd /verif; mkdir -p /verif/target
export CARGO_NET_OFFLINE=true
[ -f shim/detrand.so ] || gcc -O2 -shared -fPIC -o shim/detrand.so shim/detrand.c || exit 2
( cd harness && cargo build --offline --profile verif 2>/verif/target/build.log >/dev/null ) || { mkdir -p /verif/target; tail -30 /verif/target/build.log; echo "MACHINERY: build failed"; exit 2; }
# Hash-map iteration order is an owned environment parameter, not a random choice: it is fixed (seed 0) so that
# every run explores exactly the same executions; VERIF_SEED is recorded in the evidence but selects nothing.
export VERIF_HASH_SEED=${VERIF_HASH_SEED:-0}
export LD_PRELOAD=/verif/shim/detrand.so
ulimit -s 8192
if [ "$1" = "replay" ]; then exec /verif/target/verif/icverif replay "$2"; fi
TIER=${2:-${VERIF_TIER:-quick}}
exec /verif/target/verif/icverif check "$1" "$TIER"

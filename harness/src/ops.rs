//! The operation alphabet over `UserModel`: one enum, serialisable (replays), applied to the real code.

use ironcalc_base::cf_types::CfRuleInput;
use ironcalc_base::expressions::types::Area;
use ironcalc_base::types::{Color, Link, Style, StyleIncludes};
use ironcalc_base::worksheet::NavigationDirection;
use ironcalc_base::{BorderArea, ClipboardData, UserModel};
use serde::{Deserialize, Serialize};

#[derive(Clone, Debug, Serialize, Deserialize, PartialEq)]
pub enum Op {
    Input(u32, i32, i32, String),
    ArrayFormula(u32, i32, i32, i32, i32, String),
    ClearContents(u32, i32, i32, i32, i32),
    ClearAll(u32, i32, i32, i32, i32),
    ClearFormatting(u32, i32, i32, i32, i32),
    /// update_range_style(area, path, value)
    Style(u32, i32, i32, i32, i32, String, String),
    /// border type name ("All","Inner","Outer","Top",...), style name, colour
    Border(u32, i32, i32, i32, i32, String, String, String),
    CreateNamedStyle(String, bool),
    UpdateNamedStyle(String, String, bool),
    DeleteNamedStyle(String),
    /// select the area then on_apply_named_style
    ApplyNamedStyle(u32, i32, i32, i32, i32, String),
    /// select the area then on_paste_styles with a 1x1 bold+fill style
    PasteStyles(u32, i32, i32, i32, i32),
    /// on_paste_styles with a 1x1 style into whatever is selected now (no selection prelude)
    PasteStylesHere,
    InsertRows(u32, i32, i32),
    InsertCols(u32, i32, i32),
    DeleteRows(u32, i32, i32),
    DeleteCols(u32, i32, i32),
    MoveRows(u32, i32, i32, i32),
    MoveCols(u32, i32, i32, i32),
    RowsHeight(u32, i32, i32, f64),
    ColsWidth(u32, i32, i32, f64),
    RowsHidden(u32, i32, i32, bool),
    ColsHidden(u32, i32, i32, bool),
    NewSheet,
    DeleteSheet(u32),
    DuplicateSheet(u32),
    RenameSheet(u32, String),
    MoveSheet(u32, u32),
    HideSheet(u32),
    UnhideSheet(u32),
    SheetColor(u32, String),
    FrozenRows(u32, i32),
    FrozenCols(u32, i32),
    GridLines(u32, bool),
    NewName(String, Option<u32>, String),
    UpdateName(String, Option<u32>, String, Option<u32>, String),
    DeleteName(String, Option<u32>),
    SetLink(u32, i32, i32, String, Option<String>),
    SetInternalLink(u32, i32, i32, String, Option<String>),
    DeleteLink(u32, i32, i32),
    /// sheet, range, formula, bold
    AddCf(u32, String, String),
    /// sheet, range, formula, fill colour (a rule whose format differs from AddCf's bold)
    AddCfFill(u32, String, String, String),
    /// sheet, range, formula: a rule whose format is entirely empty (Dxf::default())
    AddCfPlain(u32, String, String),
    UpdateCf(u32, u32, String, String),
    DeleteCf(u32, u32),
    RaiseCf(u32, u32),
    LowerCf(u32, u32),
    /// copy (sheet,r1,c1,r2,c2) then paste with the selection at (sheet,r,c); bool = cut
    Paste(u32, i32, i32, i32, i32, u32, i32, i32, bool),
    PasteCsv(u32, i32, i32, String),
    AutoFillRows(u32, i32, i32, i32, i32, i32),
    AutoFillCols(u32, i32, i32, i32, i32, i32),
    SetLocale(String),
    SetTimezone(String),
    SetName(String),
    SetTheme(String),
    SetLanguage(String),
    // selection / navigation (no history)
    SelSheet(u32),
    SelCell(i32, i32),
    SelRange(i32, i32, i32, i32),
    Arrow(u8),
    PageDown,
    PageUp,
    AreaSelecting(i32, i32),
    ExpandRange(String),
    NavEdge(u8),
    Undo,
    Redo,
    Evaluate,
    Pause,
    Resume,
}

pub fn area(sheet: u32, row: i32, column: i32, height: i32, width: i32) -> Area {
    Area {
        sheet,
        row,
        column,
        width,
        height,
    }
}

pub fn color_of(s: &str) -> Color {
    if s.is_empty() {
        Color::None
    } else {
        Color::Rgb(s.to_string())
    }
}

pub fn fancy_style(alt: bool) -> Style {
    let mut st = Style::default();
    st.font.b = true;
    if alt {
        st.font.i = true;
        st.num_fmt = "0.00".to_string();
    } else {
        st.fill.color = Color::Rgb("#FF0000".to_string());
    }
    st
}

fn includes(all: bool) -> StyleIncludes {
    StyleIncludes {
        number_format: all,
        font: true,
        fill: true,
        border: all,
        alignment: all,
        protection: all,
    }
}

fn cf_rule(formula: &str) -> Result<CfRuleInput, String> {
    let mut dxf = ironcalc_base::types::Dxf::default();
    dxf.font = Some(ironcalc_base::types::DxfFont {
        b: Some(true),
        ..Default::default()
    });
    Ok(CfRuleInput::Formula {
        formula: formula.to_string(),
        format: dxf,
        stop_if_true: false,
    })
}

pub fn clipboard_data(um: &UserModel) -> Result<(u32, (i32, i32, i32, i32), ClipboardData), String> {
    let cb = um.copy_to_clipboard()?;
    let v = serde_json::to_value(&cb).map_err(|e| e.to_string())?;
    let data: ClipboardData = serde_json::from_value(v["data"].clone()).map_err(|e| e.to_string())?;
    let sheet = v["sheet"].as_u64().unwrap_or(0) as u32;
    let r = &v["range"];
    let range = (
        r[0].as_i64().unwrap_or(0) as i32,
        r[1].as_i64().unwrap_or(0) as i32,
        r[2].as_i64().unwrap_or(0) as i32,
        r[3].as_i64().unwrap_or(0) as i32,
    );
    Ok((sheet, range, data))
}

fn select(um: &mut UserModel, sheet: u32, r1: i32, c1: i32, r2: i32, c2: i32) -> Result<(), String> {
    um.set_selected_sheet(sheet)?;
    um.set_selected_cell(r1, c1)?;
    um.set_selected_range(r1, c1, r2, c2)
}

impl Op {
    pub fn kind(&self) -> &'static str {
        use Op::*;
        match self {
            Input(..) => "Input",
            ArrayFormula(..) => "ArrayFormula",
            ClearContents(..) => "ClearContents",
            ClearAll(..) => "ClearAll",
            ClearFormatting(..) => "ClearFormatting",
            Style(..) => "Style",
            Border(..) => "Border",
            CreateNamedStyle(..) => "CreateNamedStyle",
            UpdateNamedStyle(..) => "UpdateNamedStyle",
            DeleteNamedStyle(..) => "DeleteNamedStyle",
            ApplyNamedStyle(..) => "ApplyNamedStyle",
            PasteStyles(..) => "PasteStyles",
            PasteStylesHere => "PasteStylesHere",
            InsertRows(..) => "InsertRows",
            InsertCols(..) => "InsertCols",
            DeleteRows(..) => "DeleteRows",
            DeleteCols(..) => "DeleteCols",
            MoveRows(..) => "MoveRows",
            MoveCols(..) => "MoveCols",
            RowsHeight(..) => "RowsHeight",
            ColsWidth(..) => "ColsWidth",
            RowsHidden(..) => "RowsHidden",
            ColsHidden(..) => "ColsHidden",
            NewSheet => "NewSheet",
            DeleteSheet(..) => "DeleteSheet",
            DuplicateSheet(..) => "DuplicateSheet",
            RenameSheet(..) => "RenameSheet",
            MoveSheet(..) => "MoveSheet",
            HideSheet(..) => "HideSheet",
            UnhideSheet(..) => "UnhideSheet",
            SheetColor(..) => "SheetColor",
            FrozenRows(..) => "FrozenRows",
            FrozenCols(..) => "FrozenCols",
            GridLines(..) => "GridLines",
            NewName(..) => "NewName",
            UpdateName(..) => "UpdateName",
            DeleteName(..) => "DeleteName",
            SetLink(..) => "SetLink",
            SetInternalLink(..) => "SetInternalLink",
            DeleteLink(..) => "DeleteLink",
            AddCf(..) => "AddCf",
            AddCfFill(..) => "AddCfFill",
            AddCfPlain(..) => "AddCfPlain",
            UpdateCf(..) => "UpdateCf",
            DeleteCf(..) => "DeleteCf",
            RaiseCf(..) => "RaiseCf",
            LowerCf(..) => "LowerCf",
            Paste(.., false) => "CopyPaste",
            Paste(.., true) => "CutPaste",
            PasteCsv(..) => "PasteCsv",
            AutoFillRows(..) => "AutoFillRows",
            AutoFillCols(..) => "AutoFillCols",
            SetLocale(..) => "SetLocale",
            SetTimezone(..) => "SetTimezone",
            SetName(..) => "SetName",
            SetTheme(..) => "SetTheme",
            SetLanguage(..) => "SetLanguage",
            SelSheet(..) => "SelSheet",
            SelCell(..) => "SelCell",
            SelRange(..) => "SelRange",
            Arrow(..) => "Arrow",
            PageDown => "PageDown",
            PageUp => "PageUp",
            AreaSelecting(..) => "AreaSelecting",
            ExpandRange(..) => "ExpandRange",
            NavEdge(..) => "NavEdge",
            Undo => "Undo",
            Redo => "Redo",
            Evaluate => "Evaluate",
            Pause => "Pause",
            Resume => "Resume",
        }
    }

    /// true for operations that are meant to record a history entry when they succeed
    pub fn is_history_op(&self) -> bool {
        use Op::*;
        !matches!(
            self,
            SetLanguage(..)
                | SelSheet(..)
                | SelCell(..)
                | SelRange(..)
                | Arrow(..)
                | PageDown
                | PageUp
                | AreaSelecting(..)
                | ExpandRange(..)
                | NavEdge(..)
                | Undo
                | Redo
                | Evaluate
                | Pause
                | Resume
        )
    }

    pub fn apply(&self, um: &mut UserModel) -> Result<(), String> {
        use Op::*;
        match self {
            Input(s, r, c, v) => um.set_user_input(*s, *r, *c, v),
            ArrayFormula(s, r, c, w, h, f) => um.set_user_array_formula(*s, *r, *c, *w, *h, f),
            ClearContents(s, r, c, h, w) => um.range_clear_contents(&area(*s, *r, *c, *h, *w)),
            ClearAll(s, r, c, h, w) => um.range_clear_all(&area(*s, *r, *c, *h, *w)),
            ClearFormatting(s, r, c, h, w) => um.range_clear_formatting(&area(*s, *r, *c, *h, *w)),
            Style(s, r, c, h, w, p, v) => um.update_range_style(&area(*s, *r, *c, *h, *w), p, v),
            Border(s, r, c, h, w, ty, st, col) => {
                let item = ironcalc_base::types::BorderItem {
                    style: serde_json::from_value(serde_json::json!(st))
                        .map_err(|e| format!("harness: border style: {}", e))?,
                    color: color_of(col),
                };
                let ba: BorderArea = serde_json::from_value(serde_json::json!({
                    "item": serde_json::to_value(&item).map_err(|e| e.to_string())?,
                    "type": ty
                }))
                .map_err(|e| format!("harness: cannot build BorderArea: {}", e))?;
                um.set_area_with_border(&area(*s, *r, *c, *h, *w), &ba)
            }
            CreateNamedStyle(n, alt) => um.create_named_style(n, &fancy_style(*alt), includes(*alt)),
            UpdateNamedStyle(n, n2, alt) => {
                um.update_named_style(n, n2, &fancy_style(*alt), includes(*alt))
            }
            DeleteNamedStyle(n) => um.delete_named_style(n),
            ApplyNamedStyle(s, r, c, h, w, n) => {
                select(um, *s, *r, *c, r + h - 1, c + w - 1)?;
                um.on_apply_named_style(n)
            }
            PasteStyles(s, r, c, h, w) => {
                select(um, *s, *r, *c, r + h - 1, c + w - 1)?;
                um.on_paste_styles(&[vec![fancy_style(false)]])
            }
            PasteStylesHere => {
                // harness guard: pasting a style into a whole selected row/column writes up to a million cells
                let v = um.get_selected_view();
                let cells = ((v.range[2] - v.range[0]).abs() as i64 + 1) * ((v.range[3] - v.range[1]).abs() as i64 + 1);
                if cells > 400 {
                    return Err("harness: selection too large for PasteStylesHere".to_string());
                }
                um.on_paste_styles(&[vec![fancy_style(true)]])
            }
            InsertRows(s, r, n) => um.insert_rows(*s, *r, *n),
            InsertCols(s, c, n) => um.insert_columns(*s, *c, *n),
            DeleteRows(s, r, n) => um.delete_rows(*s, *r, *n),
            DeleteCols(s, c, n) => um.delete_columns(*s, *c, *n),
            MoveRows(s, r, n, d) => um.move_rows_action(*s, *r, *n, *d),
            MoveCols(s, c, n, d) => um.move_columns_action(*s, *c, *n, *d),
            RowsHeight(s, a, b, h) => um.set_rows_height(*s, *a, *b, *h),
            ColsWidth(s, a, b, w) => um.set_columns_width(*s, *a, *b, *w),
            RowsHidden(s, a, b, h) => um.set_rows_hidden(*s, *a, *b, *h),
            ColsHidden(s, a, b, h) => um.set_columns_hidden(*s, *a, *b, *h),
            NewSheet => um.new_sheet(),
            DeleteSheet(s) => um.delete_sheet(*s),
            DuplicateSheet(s) => um.duplicate_sheet(*s),
            RenameSheet(s, n) => um.rename_sheet(*s, n),
            MoveSheet(a, b) => um.move_sheet(*a, *b),
            HideSheet(s) => um.hide_sheet(*s),
            UnhideSheet(s) => um.unhide_sheet(*s),
            SheetColor(s, c) => um.set_sheet_color(*s, &color_of(c)),
            FrozenRows(s, n) => um.set_frozen_rows_count(*s, *n),
            FrozenCols(s, n) => um.set_frozen_columns_count(*s, *n),
            GridLines(s, b) => um.set_show_grid_lines(*s, *b),
            NewName(n, sc, f) => um.new_defined_name(n, *sc, f),
            UpdateName(n, sc, n2, sc2, f2) => um.update_defined_name(n, *sc, n2, *sc2, f2),
            DeleteName(n, sc) => um.delete_defined_name(n, *sc),
            SetLink(s, r, c, url, label) => um.set_cell_link(
                *s,
                *r,
                *c,
                link_external(url),
                label.as_deref(),
            ),
            SetInternalLink(s, r, c, target, label) => um.set_cell_link(
                *s,
                *r,
                *c,
                link_internal(target),
                label.as_deref(),
            ),
            DeleteLink(s, r, c) => um.delete_cell_link(*s, *r, *c),
            AddCf(s, range, f) => um.add_conditional_formatting(*s, range, cf_rule(f)?),
            AddCfFill(s, range, f, color) => {
                let mut dxf = ironcalc_base::types::Dxf::default();
                dxf.fill = Some(ironcalc_base::types::Fill { color: color_of(color) });
                um.add_conditional_formatting(
                    *s,
                    range,
                    CfRuleInput::Formula { formula: f.clone(), format: dxf, stop_if_true: false },
                )
            }
            AddCfPlain(s, range, f) => um.add_conditional_formatting(
                *s,
                range,
                CfRuleInput::Formula { formula: f.clone(), format: ironcalc_base::types::Dxf::default(), stop_if_true: false },
            ),
            UpdateCf(s, i, range, f) => um.update_conditional_formatting(*s, *i, range, cf_rule(f)?),
            DeleteCf(s, i) => um.delete_conditional_formatting(*s, *i),
            RaiseCf(s, i) => um.raise_conditional_formatting_priority(*s, *i),
            LowerCf(s, i) => um.lower_conditional_formatting_priority(*s, *i),
            Paste(ss, r1, c1, r2, c2, ts, tr, tc, cut) => {
                select(um, *ss, *r1, *c1, *r2, *c2)?;
                let (sheet, range, data) = clipboard_data(um)?;
                um.set_selected_sheet(*ts)?;
                um.set_selected_cell(*tr, *tc)?;
                um.set_selected_range(*tr, *tc, *tr, *tc)?;
                um.paste_from_clipboard(sheet, range, &data, *cut)
            }
            PasteCsv(s, r, c, csv) => {
                um.set_selected_sheet(*s)?;
                um.set_selected_cell(*r, *c)?;
                um.set_selected_range(*r, *c, *r, *c)?;
                um.paste_csv_string(&area(*s, *r, *c, 1, 1), csv)
            }
            AutoFillRows(s, r, c, h, w, to) => um.auto_fill_rows(&area(*s, *r, *c, *h, *w), *to),
            AutoFillCols(s, r, c, h, w, to) => um.auto_fill_columns(&area(*s, *r, *c, *h, *w), *to),
            SetLocale(l) => um.set_locale(l),
            SetTimezone(t) => um.set_timezone(t),
            SetName(n) => {
                um.set_name(n);
                Ok(())
            }
            SetTheme(name) => {
                let mut t = um.get_theme();
                t.name = name.clone();
                t.hlink = if name == "alt" { "#123456".into() } else { t.hlink };
                um.set_theme(t);
                Ok(())
            }
            SetLanguage(l) => um.set_language(l),
            SelSheet(s) => um.set_selected_sheet(*s),
            SelCell(r, c) => um.set_selected_cell(*r, *c),
            SelRange(a, b, c, d) => um.set_selected_range(*a, *b, *c, *d),
            Arrow(0) => um.on_arrow_right(),
            Arrow(1) => um.on_arrow_left(),
            Arrow(2) => um.on_arrow_up(),
            Arrow(_) => um.on_arrow_down(),
            PageDown => um.on_page_down(),
            PageUp => um.on_page_up(),
            AreaSelecting(r, c) => um.on_area_selecting(*r, *c),
            ExpandRange(k) => um.on_expand_selected_range(k),
            NavEdge(d) => um.on_navigate_to_edge_in_direction(match d {
                0 => NavigationDirection::Left,
                1 => NavigationDirection::Right,
                2 => NavigationDirection::Up,
                _ => NavigationDirection::Down,
            }),
            Undo => um.undo(),
            Redo => um.redo(),
            Evaluate => {
                um.evaluate();
                Ok(())
            }
            Pause => {
                um.pause_evaluation();
                Ok(())
            }
            Resume => {
                um.resume_evaluation();
                Ok(())
            }
        }
    }
}

pub fn link_external(url: &str) -> Link {
    Link::External {
        target: url.to_string(),
        tooltip: None,
    }
}
pub fn link_internal(target: &str) -> Link {
    Link::Internal {
        location: target.to_string(),
        tooltip: None,
    }
}

//! Seed workbooks (start from non-initial states too) and the default operation alphabets.

use crate::ops::Op;
use ironcalc_base::types::Col;
use ironcalc_base::{Model, UserModel};
use std::sync::OnceLock;

fn s(x: &str) -> String {
    x.to_string()
}

pub fn basic_ops() -> Vec<Op> {
    use Op::*;
    vec![
        NewSheet,
        Input(0, 1, 1, s("7")),
        Input(0, 2, 1, s("3.5")),
        Input(0, 3, 1, s("'12")),
        Input(0, 1, 2, s("TRUE")),
        Input(0, 2, 2, s("2020-01-02")),
        Input(0, 1, 3, s("=A1+A2")),
        Input(0, 2, 3, s("=SUM(A1:A3)")),
        Input(0, 3, 3, s("=Sheet2!A1*2")),
        Input(0, 1, 4, s("abc")),
        Input(0, 6, 5, s("=SEQUENCE(2)")),
        ArrayFormula(0, 6, 6, 1, 2, s("={1;2}*A1")),
        Input(1, 1, 1, s("10")),
        Input(1, 2, 1, s("=Sheet1!A1+A1")),
        NewName(s("nm"), None, s("Sheet1!$A$1")),
        NewName(s("loc"), Some(1), s("Sheet2!$A$1")),
        Input(0, 4, 3, s("=nm*2")),
        SetLink(0, 1, 4, s("https://example.com/x"), None),
        AddCf(0, s("A1:A3"), s("A1>3")),
        AddCfFill(0, s("A1:B2"), s("A1>1"), s("#FFFF00")),
        AddCfFill(0, s("A2:A3"), s("A2>2"), s("#00FFFF")),
        Style(0, 1, 7, 1_048_576, 1, s("fill.color"), s("#00FF00")),
        Style(0, 5, 1, 1, 16_384, s("font.b"), s("true")),
        ColsHidden(0, 8, 8, true),
        RowsHeight(0, 6, 6, 40.0),
        ColsWidth(0, 2, 2, 150.0),
        Style(0, 2, 1, 1, 1, s("num_fmt"), s("0.00")),
    ]
}

fn build(ops: &[Op]) -> Vec<u8> {
    let mut um = UserModel::new_empty("seed", "en", "UTC", "en").expect("new_empty");
    for op in ops {
        if let Err(e) = op.apply(&mut um) {
            panic!("seed op {:?} failed: {}", op, e);
        }
    }
    // leave the selection at a neutral place
    let _ = um.set_selected_sheet(0);
    let _ = um.set_selected_cell(1, 1);
    let _ = um.set_selected_range(1, 1, 1, 1);
    um.to_bytes()
}

pub fn seed_bytes(name: &str) -> &'static [u8] {
    static EMPTY: OnceLock<Vec<u8>> = OnceLock::new();
    static BASIC: OnceLock<Vec<u8>> = OnceLock::new();
    static IMPORTED: OnceLock<Vec<u8>> = OnceLock::new();
    match name {
        "empty" => EMPTY.get_or_init(|| build(&[Op::NewSheet])),
        "basic" => BASIC.get_or_init(|| build(&basic_ops())),
        "imported" => IMPORTED.get_or_init(|| {
            let b = build(&basic_ops());
            let mut m = Model::from_bytes(&b, "en").expect("from_bytes");
            // multi-column descriptors and row descriptors as imported files have
            let style = m.workbook.worksheets[0].cols.iter().find_map(|c| c.style);
            let ws = &mut m.workbook.worksheets[1];
            ws.cols.push(Col {
                min: 2,
                max: 4,
                width: 12.0,
                custom_width: true,
                hidden: false,
                style,
            });
            ws.cols.push(Col {
                min: 6,
                max: 16_384,
                width: 9.0,
                custom_width: false,
                hidden: false,
                style: None,
            });
            m.evaluate();
            m.to_bytes()
        }),
        other => panic!("unknown seed {}", other),
    }
}

pub const SEEDS: [&str; 3] = ["empty", "basic", "imported"];

pub fn load(name: &str) -> UserModel<'static> {
    UserModel::from_bytes(seed_bytes(name), "en").expect("seed from_bytes")
}

/// Forces the seed builders in the calling thread (call once from main before units start).
pub fn warm() {
    for n in SEEDS {
        let _ = seed_bytes(n);
    }
}

/// The interaction sub-alphabet: inputs, structural edits, styles, paste (about 45 operations).
pub fn alphabet_core() -> Vec<Op> {
    use Op::*;
    vec![
        Input(0, 1, 1, s("5")),
        Input(0, 2, 2, s("abc")),
        Input(0, 3, 1, s("'34")),
        Input(0, 2, 1, s("10%")),
        Input(0, 4, 1, s("$5")),
        Input(0, 4, 4, s("2021-03-04")),
        Input(0, 1, 2, s("")),
        Input(0, 2, 3, s("=A1+1")),
        Input(0, 3, 3, s("=SUM(A1:A3)")),
        Input(0, 3, 2, s("=Sheet2!A1")),
        Input(0, 1, 5, s("=SEQUENCE(3)")),
        Input(0, 2, 5, s("x")),
        Input(1, 1, 1, s("=Sheet1!A2*2")),
        ArrayFormula(0, 3, 4, 2, 1, s("=A1:B1*2")),
        ClearContents(0, 1, 1, 2, 2),
        ClearAll(0, 1, 1, 3, 3),
        ClearAll(0, 2, 1, 1, 30),
        ClearFormatting(0, 1, 1, 5, 7),
        Style(0, 1, 1, 2, 2, s("font.b"), s("true")),
        Style(0, 2, 1, 1, 1, s("num_fmt"), s("0.0")),
        Style(0, 1, 2, 1_048_576, 1, s("fill.color"), s("#0000FF")),
        Style(0, 3, 1, 1, 16_384, s("font.i"), s("true")),
        InsertRows(0, 2, 1),
        InsertRows(0, 1, 2),
        InsertCols(0, 2, 1),
        InsertCols(0, 1, 2),
        DeleteRows(0, 2, 1),
        DeleteRows(0, 1, 2),
        DeleteCols(0, 1, 1),
        DeleteCols(0, 2, 2),
        MoveRows(0, 1, 1, 2),
        MoveRows(0, 3, 1, -2),
        MoveCols(0, 1, 1, 1),
        MoveCols(0, 3, 2, -1),
        Paste(0, 1, 1, 2, 1, 0, 2, 2, false),
        Paste(0, 1, 1, 2, 1, 0, 4, 4, true),
        Paste(0, 1, 3, 2, 3, 1, 3, 1, true),
        Paste(0, 2, 3, 2, 3, 0, 3, 3, false),
        AutoFillRows(0, 1, 1, 2, 1, 4),
        AutoFillCols(0, 1, 3, 1, 1, 5),
        RowsHidden(0, 2, 2, true),
        ColsHidden(0, 2, 3, true),
        ColsWidth(0, 1, 1, 200.0),
        DeleteSheet(1),
        NewName(s("x1"), None, s("Sheet1!$A$2")),
    ]
}

/// The full default alphabet (about 150 operations).
pub fn alphabet_full() -> Vec<Op> {
    use Op::*;
    let mut v = alphabet_core();
    v.extend(vec![
        Input(0, 1, 1, s("TRUE")),
        Input(0, 1, 2, s("#N/A")),
        Input(0, 2, 2, s("http://a.b")),
        Input(0, 2, 4, s("=A2#")),
        Input(0, 4, 2, s("=nm")),
        Input(0, 4, 6, s("=E6#*2")),
        Input(1, 2, 2, s("7")),
        Input(0, 5, 5, s("1e3")),
        Input(0, 3, 1, s("1,000.5")),
        Input(0, 1, 3, s("=1/0")),
        Input(0, 5, 4, s("=SUM(A1:A3")),
        // two spills anchored at mirrored positions (1,2) / (2,1) whose areas cross in B2
        Input(0, 1, 2, s("=SEQUENCE(3)")),
        Input(0, 2, 1, s("=SEQUENCE(1,3)")),
        ArrayFormula(0, 4, 1, 1, 2, s("=SUM(A1:A2)")),
        ClearContents(0, 1, 5, 1, 1),
        ClearContents(0, 1, 3, 40, 1),
        ClearAll(1, 1, 1, 2, 1),
        ClearFormatting(0, 1, 7, 1_048_576, 1),
        ClearFormatting(0, 5, 1, 1, 16_384),
        ClearFormatting(0, 2, 1, 1, 1),
        // a whole column strictly inside a multi-column descriptor / at the start of one (sheet 2 of the imported seed)
        ClearFormatting(1, 1, 3, 1_048_576, 1),
        ClearFormatting(1, 1, 6, 1_048_576, 1),
        Style(0, 1, 1, 1, 1, s("font.size_delta"), s("2")),
        Style(0, 1, 1, 2, 3, s("alignment.horizontal"), s("center")),
        Style(0, 2, 2, 1, 1, s("font.color"), s("#FF00FF")),
        Style(0, 1, 1, 1, 1, s("font.u"), s("true")),
        Style(1, 1, 1, 2, 2, s("font.strike"), s("true")),
        Style(0, 1, 1, 3, 1, s("alignment.wrap_text"), s("true")),
        Border(0, 1, 1, 2, 2, s("All"), s("thin"), s("#000000")),
        Border(0, 2, 2, 2, 2, s("Outer"), s("medium"), s("#FF0000")),
        Border(0, 1, 1, 3, 3, s("Inner"), s("double"), s("")),
        Border(0, 1, 1, 2, 2, s("None"), s("thin"), s("")),
        Border(0, 2, 1, 1, 16_384, s("Top"), s("thin"), s("#000000")),
        CreateNamedStyle(s("mine"), false),
        CreateNamedStyle(s("other"), true),
        UpdateNamedStyle(s("mine"), s("mine"), true),
        UpdateNamedStyle(s("mine"), s("renamed"), false),
        DeleteNamedStyle(s("mine")),
        ApplyNamedStyle(0, 1, 1, 2, 2, s("mine")),
        ApplyNamedStyle(0, 1, 1, 1, 1, s("bad")),
        // a built-in style that carries only a number format, on an absent cell of the bold row / of the filled column
        ApplyNamedStyle(0, 5, 3, 1, 1, s("Percent")),
        ApplyNamedStyle(0, 3, 7, 1, 1, s("Percent")),
        PasteStyles(0, 1, 1, 2, 2),
        PasteStyles(0, 2, 3, 1, 1),
        InsertRows(0, 3, 1),
        InsertRows(1, 1, 1),
        InsertCols(0, 3, 1),
        InsertCols(0, 5, 1),
        InsertCols(0, 7, 1),
        DeleteRows(0, 3, 1),
        DeleteRows(0, 5, 1),
        DeleteRows(1, 1, 1),
        DeleteCols(0, 3, 1),
        DeleteCols(0, 7, 2),
        DeleteCols(0, 5, 1),
        MoveRows(0, 2, 2, 1),
        MoveRows(0, 2, 1, -1),
        MoveRows(0, 5, 1, -3),
        MoveCols(0, 2, 1, 2),
        MoveCols(0, 2, 1, -1),
        MoveCols(0, 7, 1, -2),
        MoveCols(0, 5, 1, 1),
        RowsHeight(0, 1, 2, 50.0),
        RowsHeight(0, 6, 6, 25.0),
        ColsWidth(0, 2, 3, 80.0),
        ColsWidth(0, 8, 8, 60.0),
        RowsHidden(0, 2, 2, false),
        RowsHidden(0, 5, 6, true),
        ColsHidden(0, 8, 8, false),
        ColsHidden(0, 7, 7, true),
        ColsHidden(1, 3, 3, true),
        NewSheet,
        DeleteSheet(0),
        DuplicateSheet(0),
        DuplicateSheet(1),
        RenameSheet(0, s("Renamed")),
        RenameSheet(1, s("A B")),
        RenameSheet(0, s("Sheet2")),
        RenameSheet(1, s("SHEET1 (1)")),
        MoveSheet(0, 1),
        MoveSheet(1, 0),
        HideSheet(1),
        HideSheet(0),
        UnhideSheet(1),
        SheetColor(0, s("#FF0000")),
        SheetColor(1, s("")),
        FrozenRows(0, 2),
        FrozenCols(0, 1),
        FrozenRows(1, 0),
        GridLines(0, false),
        GridLines(1, true),
        NewName(s("nm2"), Some(0), s("Sheet1!$B$1:$B$2")),
        NewName(s("nm"), Some(1), s("Sheet2!$A$2")),
        UpdateName(s("nm"), None, s("nmx"), None, s("Sheet1!$A$1")),
        UpdateName(s("nm"), None, s("nm"), Some(0), s("Sheet1!$A$2")),
        UpdateName(s("x1"), None, s("x1"), None, s("Sheet2!$A$1")),
        // rename, re-scope and re-define at once (readers of the name are on the other sheet)
        UpdateName(s("nm"), None, s("nmy"), Some(1), s("Sheet1!$A$2")),
        // a sheet-local name that shares its identifier with the global `nm` (created by NewName(nm, Some(1)) above)
        UpdateName(s("nm"), Some(1), s("nm"), Some(1), s("Sheet2!$A$1")),
        DeleteName(s("nm"), Some(1)),
        DeleteName(s("nm"), None),
        DeleteName(s("loc"), Some(1)),
        DeleteName(s("x1"), None),
        SetLink(0, 2, 2, s("https://b.example"), Some(s("label"))),
        SetLink(0, 1, 4, s("https://c.example"), None),
        SetInternalLink(0, 3, 3, s("Sheet2!A1"), None),
        DeleteLink(0, 1, 4),
        DeleteLink(0, 2, 2),
        AddCf(0, s("B1:B3"), s("B1=TRUE")),
        AddCf(1, s("A1:A2"), s("A1>Sheet1!$A$1")),
        UpdateCf(0, 0, s("A1:A4"), s("A1>5")),
        DeleteCf(0, 0),
        DeleteCf(0, 1),
        AddCfFill(0, s("A2:A4"), s("A2>2"), s("#00FFFF")),
        AddCfPlain(0, s("B1:B2"), s("B1>0")),
        RaiseCf(0, 0),
        LowerCf(0, 0),
        RaiseCf(0, 1),
        Paste(0, 1, 1, 1, 1, 0, 1, 2, false),
        Paste(0, 1, 3, 2, 3, 0, 2, 3, false),
        Paste(0, 1, 4, 1, 4, 0, 3, 4, true),
        Paste(0, 1, 5, 2, 5, 0, 4, 5, false),
        Paste(0, 1, 1, 3, 3, 1, 1, 2, false),
        Paste(0, 1, 1, 1, 3, 0, 1, 2, true),
        // cross-sheet cut of a dynamic-array anchor to the coordinates of one of its own spill cells
        Paste(0, 6, 5, 6, 5, 1, 7, 5, true),
        PasteCsv(0, 2, 2, s("1\t2\n3\t=A1")),
        PasteCsv(0, 1, 1, s("x")),
        AutoFillRows(0, 1, 3, 1, 1, 3),
        AutoFillRows(0, 3, 1, 1, 2, 1),
        AutoFillCols(0, 1, 1, 2, 1, 3),
        AutoFillCols(0, 2, 3, 1, 1, 1),
        SetLocale(s("de")),
        SetLocale(s("en-GB")),
        SetTimezone(s("Europe/Berlin")),
        SetName(s("book")),
        SetTheme(s("alt")),
    ]);
    v
}

/// Operations that record no history but change what later operations see.
pub fn alphabet_env() -> Vec<Op> {
    use Op::*;
    vec![
        SetLanguage(s("de")),
        SetLanguage(s("en")),
        Evaluate,
        Pause,
        Resume,
        SelSheet(1),
        SelCell(2, 2),
    ]
}

//! Shared helpers of the number/date group (C18 C19 C20 C21): reference calendar, locale facts,
//! single-cell observation, string enumeration.

use ironcalc_base::cell::CellValue;
use ironcalc_base::types::Cell;
use ironcalc_base::Model;

pub const LOCALES: [&str; 6] = ["en", "en-GB", "es", "fr", "de", "it"];
pub const LANGS: [&str; 5] = ["en", "es", "fr", "de", "it"];

// ------------------------------------------------------------------------------------------------
// Reference proleptic-Gregorian calendar (no chrono)
// ------------------------------------------------------------------------------------------------

/// Days since 1970-01-01 of the civil date (y, m, d).
pub fn days_from_civil(y: i64, m: i64, d: i64) -> i64 {
    let y = if m <= 2 { y - 1 } else { y };
    let era = if y >= 0 { y } else { y - 399 } / 400;
    let yoe = y - era * 400;
    let mp = (m + 9) % 12;
    let doy = (153 * mp + 2) / 5 + d - 1;
    let doe = yoe * 365 + yoe / 4 - yoe / 100 + doy;
    era * 146097 + doe - 719468
}

/// Civil date (y, m, d) of a day count since 1970-01-01.
pub fn civil_from_days(z: i64) -> (i64, i64, i64) {
    let z = z + 719468;
    let era = if z >= 0 { z } else { z - 146096 } / 146097;
    let doe = z - era * 146097;
    let yoe = (doe - doe / 1460 + doe / 36524 - doe / 146096) / 365;
    let y = yoe + era * 400;
    let doy = doe - (365 * yoe + yoe / 4 - yoe / 100);
    let mp = (5 * doy + 2) / 153;
    let d = doy - (153 * mp + 2) / 5 + 1;
    let m = if mp < 10 { mp + 3 } else { mp - 9 };
    (if m <= 2 { y + 1 } else { y }, m, d)
}

pub fn is_leap(y: i64) -> bool {
    (y % 4 == 0 && y % 100 != 0) || y % 400 == 0
}

pub fn days_in_month(y: i64, m: i64) -> i64 {
    match m {
        1 | 3 | 5 | 7 | 8 | 10 | 12 => 31,
        4 | 6 | 9 | 11 => 30,
        _ => {
            if is_leap(y) {
                29
            } else {
                28
            }
        }
    }
}

pub fn valid_date(y: i64, m: i64, d: i64) -> bool {
    (1..=12).contains(&m) && d >= 1 && d <= days_in_month(y, m)
}

/// Monday = 0 .. Sunday = 6 of a day count since 1970-01-01 (a Thursday).
pub fn weekday_mon0(days: i64) -> i64 {
    (days + 3).rem_euclid(7)
}

// ------------------------------------------------------------------------------------------------
// Locale facts
// ------------------------------------------------------------------------------------------------

#[derive(Clone, Debug)]
pub struct LocInfo {
    pub id: &'static str,
    pub decimal: char,
    pub group: char,
    pub currency: String,
    /// true: day/month/year, false: month/day/year
    pub day_first: bool,
}

pub fn loc_info(id: &'static str) -> LocInfo {
    let l = ironcalc_base::locale::get_locale(id).expect("locale");
    LocInfo {
        id,
        decimal: l.numbers.symbols.decimal.chars().next().unwrap_or('.'),
        group: l.numbers.symbols.group.chars().next().unwrap_or(','),
        currency: l.currency.symbol.clone(),
        day_first: l.dates.date_formats.short.starts_with('d'),
    }
}

// ------------------------------------------------------------------------------------------------
// Single-cell observation
// ------------------------------------------------------------------------------------------------

#[derive(Clone, Debug, PartialEq)]
pub enum Kind {
    Absent,
    Empty,
    Number(f64),
    Boolean(bool),
    Error(String),
    Text(String),
    Formula,
    Other(String),
}

impl Kind {
    pub fn name(&self) -> &'static str {
        match self {
            Kind::Absent => "absent",
            Kind::Empty => "empty",
            Kind::Number(_) => "number",
            Kind::Boolean(_) => "boolean",
            Kind::Error(_) => "error",
            Kind::Text(_) => "text",
            Kind::Formula => "formula",
            Kind::Other(_) => "other",
        }
    }
}

pub fn cell_kind(model: &Model, sheet: u32, row: i32, col: i32) -> Kind {
    let ws = match model.workbook.worksheet(sheet) {
        Ok(w) => w,
        Err(_) => return Kind::Absent,
    };
    match ws.cell(row, col) {
        None => Kind::Absent,
        Some(Cell::EmptyCell { .. }) => Kind::Empty,
        Some(Cell::NumberCell { v, .. }) => Kind::Number(*v),
        Some(Cell::BooleanCell { v, .. }) => Kind::Boolean(*v),
        Some(Cell::ErrorCell { ei, .. }) => Kind::Error(format!("{:?}", ei)),
        Some(Cell::SharedString { .. }) => match model.get_cell_value_by_index(sheet, row, col) {
            Ok(CellValue::String(s)) => Kind::Text(s),
            other => Kind::Other(format!("{:?}", other)),
        },
        Some(Cell::CellFormula { .. }) | Some(Cell::ArrayFormula { .. }) => Kind::Formula,
        Some(c) => Kind::Other(format!("{:?}", c)),
    }
}

/// Format kind of a number-format code, classified by what it contains.
#[derive(Clone, Copy, Debug, PartialEq, Eq, PartialOrd, Ord)]
pub enum FmtKind {
    General,
    Percent,
    Currency,
    Scientific,
    Grouped,
    Date,
    OtherFmt,
}

impl FmtKind {
    pub fn name(&self) -> &'static str {
        match self {
            FmtKind::General => "general",
            FmtKind::Percent => "percent",
            FmtKind::Currency => "currency",
            FmtKind::Scientific => "scientific",
            FmtKind::Grouped => "grouped",
            FmtKind::Date => "date",
            FmtKind::OtherFmt => "other",
        }
    }
}

/// Classifies a number format code. `currencies` are the currency symbols that may occur.
pub fn fmt_kind(code: &str, currencies: &[&str]) -> FmtKind {
    if code == "general" || code == "General" || code.is_empty() {
        return FmtKind::General;
    }
    if ironcalc_base::formatter::lexer::is_likely_date_number_format(code) {
        return FmtKind::Date;
    }
    if currencies.iter().any(|c| !c.is_empty() && code.contains(c)) {
        return FmtKind::Currency;
    }
    if code.contains('%') {
        return FmtKind::Percent;
    }
    if code.contains("E+") || code.contains("E-") || code.contains("e+") || code.contains("e-") {
        return FmtKind::Scientific;
    }
    if code.contains(',') {
        return FmtKind::Grouped;
    }
    FmtKind::OtherFmt
}

// ------------------------------------------------------------------------------------------------
// String enumeration
// ------------------------------------------------------------------------------------------------

/// Number of strings of length 1..=max_len over an alphabet of k symbols.
pub fn count_strings(k: usize, max_len: usize) -> u64 {
    let mut t = 0u64;
    let mut p = 1u64;
    for _ in 0..max_len {
        p *= k as u64;
        t += p;
    }
    t
}

/// The `index`-th string (0-based) in length-then-lexicographic order over `alphabet`, lengths 1..
pub fn nth_string(alphabet: &[char], mut index: u64) -> String {
    let k = alphabet.len() as u64;
    let mut len = 1usize;
    let mut p = k;
    while index >= p {
        index -= p;
        p *= k;
        len += 1;
    }
    let mut digits = vec![0usize; len];
    for i in (0..len).rev() {
        digits[i] = (index % k) as usize;
        index /= k;
    }
    digits.iter().map(|d| alphabet[*d]).collect()
}

/// Calls `f` for every string whose length is exactly `len` and whose first `prefix.len()` symbols are `prefix`.
pub fn for_each_with_prefix(alphabet: &[char], prefix: &[usize], len: usize, f: &mut dyn FnMut(&str)) {
    let k = alphabet.len();
    if prefix.len() > len {
        return;
    }
    let free = len - prefix.len();
    let mut idx = vec![0usize; free];
    let mut buf = String::new();
    loop {
        buf.clear();
        for p in prefix {
            buf.push(alphabet[*p]);
        }
        for i in &idx {
            buf.push(alphabet[*i]);
        }
        f(&buf);
        // increment
        let mut pos = free;
        loop {
            if pos == 0 {
                return;
            }
            pos -= 1;
            idx[pos] += 1;
            if idx[pos] < k {
                break;
            }
            idx[pos] = 0;
        }
    }
}

/// Equality of two floats to 15 significant decimal digits.
pub fn eq15(a: f64, b: f64) -> bool {
    if a == b {
        return true;
    }
    if a.is_nan() || b.is_nan() {
        return false;
    }
    format!("{:.14e}", a) == format!("{:.14e}", b)
}

#[cfg(test)]
mod tests {
    use super::*;
    #[test]
    fn calendar_roundtrip() {
        let mut y = 1899;
        let mut m = 12;
        let mut d = 30;
        let base = days_from_civil(1899, 12, 30);
        for n in 0..3_000_000i64 {
            assert_eq!(civil_from_days(base + n), (y, m, d));
            assert_eq!(days_from_civil(y, m, d), base + n);
            d += 1;
            if d > days_in_month(y, m) {
                d = 1;
                m += 1;
                if m > 12 {
                    m = 1;
                    y += 1;
                }
            }
        }
    }
    #[test]
    fn strings() {
        let a = ['a', 'b'];
        assert_eq!(count_strings(2, 3), 14);
        assert_eq!(nth_string(&a, 0), "a");
        assert_eq!(nth_string(&a, 2), "aa");
        assert_eq!(nth_string(&a, 13), "bbb");
    }
}

//! Structural well-formedness of a workbook (C27) and validity of the selection (C28), read from the public fields.

use ironcalc_base::types::{ArrayKind, Cell};
use ironcalc_base::Model;
use std::collections::{BTreeMap, BTreeSet};

pub const LAST_ROW: i32 = 1_048_576;
pub const LAST_COLUMN: i32 = 16_384;

/// Each violation is (class, text). `spill_current`: evaluation is current, so spill clauses apply.
pub fn wellformed(model: &Model, spill_current: bool) -> Vec<(String, String)> {
    let wb = &model.workbook;
    let mut v: Vec<(String, String)> = vec![];
    let mut push = |c: &str, t: String| v.push((c.to_string(), t));
    // sheet names valid and unique ignoring case; ids unique
    let mut names = BTreeSet::new();
    let mut ids = BTreeSet::new();
    for ws in &wb.worksheets {
        let n = ws.name.to_uppercase();
        if !names.insert(n) {
            push("sheet-name-duplicate", format!("sheet name `{}` occurs twice (ignoring case)", ws.name));
        }
        if ws.name.is_empty() || ws.name.chars().count() > 31 || ws.name.chars().any(|c| "[]:*?/\\".contains(c)) {
            push("sheet-name-invalid", format!("sheet name `{}` is not a valid name", ws.name));
        }
        if !ids.insert(ws.sheet_id) {
            push("sheet-id-duplicate", format!("sheet id {} occurs twice", ws.sheet_id));
        }
    }
    let n_xfs = wb.styles.cell_xfs.len() as i32;
    for (i, xf) in wb.styles.cell_xfs.iter().enumerate() {
        if xf.font_id < 0 || xf.font_id as usize >= wb.styles.fonts.len() {
            push("style-font-index", format!("cell_xfs[{}].font_id {} out of range", i, xf.font_id));
        }
        if xf.fill_id < 0 || xf.fill_id as usize >= wb.styles.fills.len() {
            push("style-fill-index", format!("cell_xfs[{}].fill_id {} out of range", i, xf.fill_id));
        }
        if xf.border_id < 0 || xf.border_id as usize >= wb.styles.borders.len() {
            push("style-border-index", format!("cell_xfs[{}].border_id {} out of range", i, xf.border_id));
        }
        if xf.xf_id < 0 || xf.xf_id as usize >= wb.styles.cell_style_xfs.len() {
            push("style-xf-index", format!("cell_xfs[{}].xf_id {} out of range", i, xf.xf_id));
        }
        if xf.num_fmt_id >= 164 && !wb.styles.num_fmts.iter().any(|n| n.num_fmt_id == xf.num_fmt_id) {
            push("style-numfmt-index", format!("cell_xfs[{}].num_fmt_id {} has no entry in num_fmts", i, xf.num_fmt_id));
        }
    }
    for cs in &wb.styles.cell_styles {
        if cs.xf_id < 0 || cs.xf_id as usize >= wb.styles.cell_style_xfs.len() {
            push("named-style-xf-index", format!("named style `{}` xf_id {} out of range", cs.name, cs.xf_id));
        }
    }
    for (si, ws) in wb.worksheets.iter().enumerate() {
        let n_formulas = ws.shared_formulas.len() as i32;
        // cols sorted, min<=max, non-overlapping, inside the grid
        let mut prev_max = 0;
        for c in &ws.cols {
            if c.min < 1 || c.max > LAST_COLUMN || c.min > c.max {
                push("cols-range", format!("sheet {} column descriptor {}..{} invalid", si, c.min, c.max));
            }
            if c.min <= prev_max {
                push("cols-order", format!("sheet {} column descriptors unsorted/overlapping at {}..{} (previous max {})", si, c.min, c.max, prev_max));
            }
            prev_max = prev_max.max(c.max);
            if let Some(s) = c.style {
                if s < 0 || s >= n_xfs {
                    push("col-style-index", format!("sheet {} column {} style {} out of range", si, c.min, s));
                }
            }
        }
        let mut rows_seen = BTreeSet::new();
        for r in &ws.rows {
            if !rows_seen.insert(r.r) {
                push("rows-duplicate", format!("sheet {} row descriptor {} occurs twice", si, r.r));
            }
            if r.r < 1 || r.r > LAST_ROW {
                push("rows-range", format!("sheet {} row descriptor {} outside the grid", si, r.r));
            }
            if r.s < 0 || r.s >= n_xfs {
                push("row-style-index", format!("sheet {} row {} style {} out of range", si, r.r, r.s));
            }
        }
        // cells
        let mut anchors: BTreeMap<(i32, i32), (i32, i32, bool)> = BTreeMap::new();
        for (r, rd) in &ws.sheet_data {
            for (c, cell) in rd {
                if *r < 1 || *r > LAST_ROW || *c < 1 || *c > LAST_COLUMN {
                    push("cell-outside-grid", format!("sheet {} cell R{}C{} outside the grid", si, r, c));
                }
                let s = cell.get_style();
                if s < 0 || s >= n_xfs {
                    push("cell-style-index", format!("sheet {} R{}C{} style {} out of range ({} styles)", si, r, c, s, n_xfs));
                }
                match cell {
                    Cell::SharedString { si: k, .. } => {
                        if *k < 0 || *k as usize >= wb.shared_strings.len() {
                            push("shared-string-index", format!("sheet {} R{}C{} string index {} out of range", si, r, c, k));
                        }
                    }
                    Cell::CellFormula { f, .. } => {
                        if *f < 0 || *f >= n_formulas {
                            push("formula-index", format!("sheet {} R{}C{} formula index {} out of range ({})", si, r, c, f, n_formulas));
                        }
                    }
                    Cell::ArrayFormula { f, r: rg, kind, .. } => {
                        if *f < 0 || *f >= n_formulas {
                            push("formula-index", format!("sheet {} R{}C{} formula index {} out of range ({})", si, r, c, f, n_formulas));
                        }
                        if rg.0 < 1 || rg.1 < 1 {
                            push("array-range", format!("sheet {} R{}C{} array range {:?}", si, r, c, rg));
                        }
                        anchors.insert((*r, *c), (rg.0, rg.1, *kind == ArrayKind::Cse));
                    }
                    _ => {}
                }
            }
        }
        if spill_current {
            // anchor rectangles inside the grid and pairwise disjoint
            let list: Vec<_> = anchors.iter().collect();
            for (i, ((r, c), (w, h, _))) in list.iter().enumerate() {
                if r + h - 1 > LAST_ROW || c + w - 1 > LAST_COLUMN {
                    push("spill-outside-grid", format!("sheet {} anchor R{}C{} range {}x{} leaves the grid", si, r, c, w, h));
                }
                for ((r2, c2), (w2, h2, _)) in list.iter().skip(i + 1) {
                    let overlap = r < &(r2 + h2) && r2 < &(r + h) && c < &(c2 + w2) && c2 < &(c + w);
                    if overlap {
                        push("spill-overlap", format!("sheet {} spill ranges of R{}C{} and R{}C{} overlap", si, r, c, r2, c2));
                    }
                }
            }
            for (r, rd) in &ws.sheet_data {
                for (c, cell) in rd {
                    if let Cell::SpillCell { a, .. } = cell {
                        match anchors.get(a) {
                            None => push("spill-orphan", format!("sheet {} spill cell R{}C{} names anchor {:?} which is not an array anchor", si, r, c, a)),
                            Some((w, h, _)) => {
                                let inside = *r >= a.0 && *r < a.0 + h && *c >= a.1 && *c < a.1 + w;
                                if !inside {
                                    push("spill-uncovered", format!("sheet {} spill cell R{}C{} is outside the range {}x{} of its anchor {:?}", si, r, c, w, h, a));
                                }
                            }
                        }
                    }
                }
            }
            for ((r, c), (w, h, cse)) in &anchors {
                if *cse {
                    for rr in *r..(r + h).min(LAST_ROW + 1) {
                        for cc in *c..(c + w).min(LAST_COLUMN + 1) {
                            if (rr, cc) == (*r, *c) {
                                continue;
                            }
                            match ws.cell(rr, cc) {
                                Some(Cell::SpillCell { a, .. }) if *a == (*r, *c) => {}
                                other => push(
                                    "cse-child-missing",
                                    format!("sheet {} cell R{}C{} inside the CSE array of R{}C{} is {:?}", si, rr, cc, r, c, other.map(kind_name)),
                                ),
                            }
                        }
                    }
                }
            }
        }
    }
    for dn in &wb.defined_names {
        if let Some(id) = dn.sheet_id {
            if !wb.worksheets.iter().any(|w| w.sheet_id == id) {
                push("defined-name-dangling-scope", format!("defined name `{}` is scoped to sheet id {} which does not exist", dn.name, id));
            }
        }
    }
    v
}

fn kind_name(c: &Cell) -> &'static str {
    match c {
        Cell::EmptyCell { .. } => "EmptyCell",
        Cell::BooleanCell { .. } => "BooleanCell",
        Cell::NumberCell { .. } => "NumberCell",
        Cell::ErrorCell { .. } => "ErrorCell",
        Cell::SharedString { .. } => "SharedString",
        Cell::CellFormula { .. } => "CellFormula",
        Cell::ArrayFormula { .. } => "ArrayFormula",
        Cell::SpillCell { .. } => "SpillCell",
    }
}

/// Selection validity (C28), read from the raw view structures (the getters hide broken views behind safe defaults).
pub fn selection_valid(model: &Model) -> Vec<(String, String)> {
    let wb = &model.workbook;
    let mut v = vec![];
    let n = wb.worksheets.len() as u32;
    match wb.views.get(&0) {
        None => v.push(("no-workbook-view".to_string(), "workbook has no view 0".to_string())),
        Some(view) => {
            if view.sheet >= n {
                v.push((
                    "selected-sheet-out-of-range".to_string(),
                    format!("selected sheet index {} but the workbook has {} sheets", view.sheet, n),
                ));
            }
        }
    }
    for (si, ws) in wb.worksheets.iter().enumerate() {
        if let Some(view) = ws.views.get(&0) {
            // the range is stored as (anchor corner, opposite corner): set_selected_range accepts both orders
            // (it only requires the selected cell on a corner), so the rectangle is the normalised one
            let [ra, ca, rb, cb] = view.range;
            let (r1, r2, c1, c2) = (ra.min(rb), ra.max(rb), ca.min(cb), ca.max(cb));
            if r1 < 1 || r2 > LAST_ROW || c1 < 1 || c2 > LAST_COLUMN {
                v.push(("range-invalid".to_string(), format!("sheet {} selected range {:?} outside the grid", si, view.range)));
            }
            if view.row < 1 || view.row > LAST_ROW || view.column < 1 || view.column > LAST_COLUMN {
                v.push(("cell-outside-grid".to_string(), format!("sheet {} selected cell ({},{}) outside the grid", si, view.row, view.column)));
            } else if view.row < r1 || view.row > r2 || view.column < c1 || view.column > c2 {
                v.push((
                    "cell-outside-range".to_string(),
                    format!("sheet {} selected cell ({},{}) outside the selected range {:?}", si, view.row, view.column, view.range),
                ));
            }
        }
    }
    v
}

//! Three-valued reference recogniser for typed numbers (C19, reused by C18), written from the property statement:
//!
//! "Text typed into a cell that denotes a number in the active locale (optional sign, digits with optional correctly
//!  placed group separators, optional decimal part, optional exponent, optionally followed by % or preceded/followed
//!  by a currency symbol, or a supported date) is stored as that number with its sign, and percent, currency,
//!  exponent, grouped and date input get a format of that kind. Any other text is not stored as a number."
//!
//! Verdicts: Must / MustDate (the statement pins it), MustNot (no reading, however lenient, makes it a number),
//! IfNumber / IfDate (the statement does not say whether it is recognised, but if the engine stores a number there
//! is only one number it can be), Unspec (not judged).

use crate::fnum::{days_from_civil, valid_date, LocInfo};

#[derive(Clone, Debug, PartialEq, Default)]
pub struct Feats {
    pub percent: bool,
    pub currency: Option<char>,
    pub exponent: bool,
    pub grouped: bool,
}

#[derive(Clone, Debug, PartialEq)]
pub enum Verdict {
    Must { value: f64, feats: Feats },
    MustDate { serials: Vec<i64> },
    IfNumber { value: f64, feats: Feats, why: &'static str },
    IfDate { serials: Vec<i64>, why: &'static str },
    MustNot { why: &'static str },
    Unspec { why: &'static str },
}

impl Verdict {
    pub fn name(&self) -> &'static str {
        match self {
            Verdict::Must { .. } => "must-number",
            Verdict::MustDate { .. } => "must-date",
            Verdict::IfNumber { .. } => "if-number",
            Verdict::IfDate { .. } => "if-date",
            Verdict::MustNot { .. } => "must-not",
            Verdict::Unspec { .. } => "unspecified",
        }
    }
    pub fn why(&self) -> &'static str {
        match self {
            Verdict::Must { .. } | Verdict::MustDate { .. } => "stated",
            Verdict::IfNumber { why, .. }
            | Verdict::IfDate { why, .. }
            | Verdict::MustNot { why }
            | Verdict::Unspec { why } => why,
        }
    }
}

pub const MIN_SERIAL: i64 = 1;
pub const MAX_SERIAL: i64 = 2_958_465;

fn is_currency(c: char) -> bool {
    c == '$' || c == '€' || c == '£'
}
fn is_sign(c: char) -> bool {
    c == '+' || c == '-'
}
fn is_datesep(c: char) -> bool {
    c == '/' || c == '-' || c == '.'
}

fn serial_of(y: i64, m: i64, d: i64) -> i64 {
    days_from_civil(y, m, d) - days_from_civil(1899, 12, 30)
}

/// Shape used in signatures: spaces dropped, foreign currency folded into C.
pub fn sig_shape(s: &str, li: &LocInfo) -> String {
    shape(s, li).chars().filter(|c| *c != '_').map(|c| if c == 'c' { 'C' } else { c }).collect()
}

/// Coarse shape of an input: S sign, C local currency, c other currency, N mantissa (digits, separators),
/// X exponent, P percent, _ space, / : literal, ? anything else.
pub fn shape(s: &str, li: &LocInfo) -> String {
    let cs: Vec<char> = s.chars().collect();
    let mut out = String::new();
    let mut i = 0;
    while i < cs.len() {
        let c = cs[i];
        if c.is_ascii_digit() || c == li.decimal || c == li.group || c == '.' || c == ',' {
            while i < cs.len() && (cs[i].is_ascii_digit() || cs[i] == li.decimal || cs[i] == li.group || cs[i] == '.' || cs[i] == ',') {
                i += 1;
            }
            out.push('N');
            // exponent directly after a mantissa
            if i < cs.len() && (cs[i] == 'e' || cs[i] == 'E') {
                let mut j = i + 1;
                if j < cs.len() && is_sign(cs[j]) {
                    j += 1;
                }
                let k = j;
                while j < cs.len() && cs[j].is_ascii_digit() {
                    j += 1;
                }
                if j > k {
                    out.push('X');
                    i = j;
                }
            }
            continue;
        }
        out.push(match c {
            '+' | '-' => 'S',
            '%' => 'P',
            ' ' => '_',
            '/' => '/',
            ':' => ':',
            'e' | 'E' => 'E',
            c if is_currency(c) => {
                if li.currency.chars().next() == Some(c) && li.currency.chars().count() == 1 {
                    'C'
                } else {
                    'c'
                }
            }
            _ => '?',
        });
        i += 1;
    }
    out
}

struct Unum {
    /// normalised text for f64::from_str
    text: String,
    grouped: bool,
    exponent: bool,
    lenient: Option<&'static str>,
}

/// Unsigned number: digits with group separators, decimal part, exponent. Err = reason it is no number at all.
fn parse_unum(core: &[char], li: &LocInfo) -> Result<Unum, &'static str> {
    let mut k = 0;
    while k < core.len() && (core[k].is_ascii_digit() || core[k] == li.group || core[k] == li.decimal) {
        k += 1;
    }
    let mant = &core[..k];
    let rest = &core[k..];
    let mut exponent = false;
    let mut exp_text = String::new();
    if !rest.is_empty() {
        if rest[0] != 'e' && rest[0] != 'E' {
            return Err("leftover-character");
        }
        let mut j = 1;
        exp_text.push('e');
        if j < rest.len() && is_sign(rest[j]) {
            exp_text.push(rest[j]);
            j += 1;
        }
        let d0 = j;
        while j < rest.len() && rest[j].is_ascii_digit() {
            exp_text.push(rest[j]);
            j += 1;
        }
        if j == d0 || j != rest.len() {
            return Err("bad-exponent");
        }
        exponent = true;
    }
    let n_dec = mant.iter().filter(|c| **c == li.decimal).count();
    if n_dec > 1 {
        return Err("two-decimal-separators");
    }
    let (int, frac, has_dec): (&[char], &[char], bool) = match mant.iter().position(|c| *c == li.decimal) {
        Some(p) => (&mant[..p], &mant[p + 1..], true),
        None => (mant, &[], false),
    };
    if frac.iter().any(|c| *c == li.group) {
        return Err("group-separator-in-fraction");
    }
    let int_digits = int.iter().filter(|c| c.is_ascii_digit()).count();
    if int_digits + frac.len() == 0 {
        return Err("no-digits");
    }
    let mut lenient: Option<&'static str> = None;
    let mut grouped = false;
    if int.iter().any(|c| *c == li.group) {
        let mut groups: Vec<usize> = vec![];
        let mut cur = 0usize;
        for c in int {
            if *c == li.group {
                groups.push(cur);
                cur = 0;
            } else {
                cur += 1;
            }
        }
        groups.push(cur);
        let mut trailing = false;
        if *groups.last().unwrap_or(&1) == 0 {
            trailing = true;
            groups.pop();
        }
        if groups[0] == 0 {
            return Err("leading-group-separator");
        }
        if groups.iter().any(|g| *g == 0) {
            return Err("doubled-group-separator");
        }
        let full = groups[0] <= 3 && groups[1..].iter().all(|g| *g == 3);
        let partial = groups[1..].iter().all(|g| *g % 3 == 0);
        if trailing {
            if groups.len() == 1 || full || partial {
                lenient = Some("trailing-group-separator");
            } else {
                return Err("misplaced-group-separator");
            }
        } else if full {
            grouped = true;
        } else if partial {
            lenient = Some("partial-grouping");
        } else {
            return Err("misplaced-group-separator");
        }
    }
    if has_dec && int_digits == 0 {
        if int.is_empty() {
            lenient = lenient.or(Some("bare-leading-decimal-separator"));
        } else {
            return Err("leading-group-separator");
        }
    }
    if has_dec && frac.is_empty() {
        lenient = lenient.or(Some("bare-trailing-decimal-separator"));
    }
    let mut text = String::new();
    for c in int {
        if c.is_ascii_digit() {
            text.push(*c);
        }
    }
    if text.is_empty() {
        text.push('0');
    }
    if !frac.is_empty() {
        text.push('.');
        for c in frac {
            text.push(*c);
        }
    }
    text.push_str(&exp_text);
    Ok(Unum { text, grouped, exponent, lenient })
}

fn year_expansions(p: &[char]) -> Vec<(i64, bool)> {
    // (year, exact): exact=false means "any year of that shape", validity is then checked leap-tolerantly
    let v: i64 = p.iter().collect::<String>().parse().unwrap_or(-1);
    match p.len() {
        4 => vec![(v, true)],
        2 => vec![(1900 + v, true), (2000 + v, true)],
        1 | 3 => vec![(2000, false)],
        _ => vec![],
    }
}

fn num(p: &[char]) -> i64 {
    if p.len() > 9 {
        return -1;
    }
    p.iter().collect::<String>().parse().unwrap_or(-1)
}

/// Date-shaped input: 2 or 3 runs of digits separated by / - or .
fn date_shape(t: &[char]) -> Option<(Vec<Vec<char>>, Vec<char>)> {
    let mut parts: Vec<Vec<char>> = vec![vec![]];
    let mut seps = vec![];
    for c in t {
        if c.is_ascii_digit() {
            parts.last_mut()?.push(*c);
        } else if is_datesep(*c) {
            seps.push(*c);
            parts.push(vec![]);
        } else {
            return None;
        }
    }
    if parts.len() < 2 || parts.len() > 3 || parts.iter().any(|p| p.is_empty()) {
        return None;
    }
    Some((parts, seps))
}

fn date_verdict(parts: &[Vec<char>], seps: &[char], li: &LocInfo, date_sep: char) -> Verdict {
    if parts.len() == 2 {
        return Verdict::Unspec { why: "two-part-date-shape" };
    }
    let same = seps[0] == seps[1];
    let sep = seps[0];
    // generous existence of a valid reading: any assignment of year/month/day to the three parts
    let perms: [[usize; 3]; 6] = [[0, 1, 2], [0, 2, 1], [1, 0, 2], [1, 2, 0], [2, 0, 1], [2, 1, 0]];
    let mut any_valid = false;
    for p in perms {
        let (yp, mp, dp) = (&parts[p[0]], &parts[p[1]], &parts[p[2]]);
        if mp.len() > 2 || dp.len() > 2 {
            continue;
        }
        let (m, d) = (num(mp), num(dp));
        for (y, _) in year_expansions(yp) {
            if valid_date(y, m, d) {
                any_valid = true;
            }
        }
    }
    if !any_valid {
        return Verdict::MustNot { why: "date-shape-without-valid-date" };
    }
    if !same {
        return Verdict::Unspec { why: "mixed-date-separators" };
    }
    // the reading the statement pins: ISO order when the first part has four digits, else the locale's order
    let iso = parts[0].len() == 4;
    let (yp, mp, dp) = if iso {
        (&parts[0], &parts[1], &parts[2])
    } else if li.day_first {
        (&parts[2], &parts[1], &parts[0])
    } else {
        (&parts[2], &parts[0], &parts[1])
    };
    if mp.len() > 2 || dp.len() > 2 || !(yp.len() == 2 || yp.len() == 4) {
        return Verdict::Unspec { why: "date-other-reading" };
    }
    let (m, d) = (num(mp), num(dp));
    let mut serials = vec![];
    let mut valid = false;
    for (y, _) in year_expansions(yp) {
        if valid_date(y, m, d) {
            valid = true;
            let s = serial_of(y, m, d);
            if (MIN_SERIAL..=MAX_SERIAL).contains(&s) {
                serials.push(s);
            }
        }
    }
    if !valid {
        return Verdict::Unspec { why: "date-other-reading" };
    }
    if serials.is_empty() {
        return Verdict::Unspec { why: "date-outside-serial-range" };
    }
    if yp.len() == 2 && serials.len() < 2 {
        // one century in range, the other not: leave it
        return Verdict::Unspec { why: "date-outside-serial-range" };
    }
    let canonical = if iso {
        sep == '-' && mp.len() == 2 && dp.len() == 2
    } else {
        sep == date_sep
    };
    if canonical {
        Verdict::MustDate { serials }
    } else {
        Verdict::IfDate { serials, why: if iso { "iso-order-unpadded-or-other-separator" } else { "locale-order-other-separator" } }
    }
}

/// sign / currency / percent decorations around an unsigned number
fn decorated(t: &[char], li: &LocInfo) -> Verdict {
    if t.contains(&'/') {
        return Verdict::MustNot { why: "slash-outside-date" };
    }
    let mut i = 0;
    while i < t.len() && (is_sign(t[i]) || is_currency(t[i])) {
        i += 1;
    }
    let mut j = t.len();
    while j > i && (t[j - 1] == '%' || is_currency(t[j - 1]) || is_sign(t[j - 1])) {
        j -= 1;
    }
    let prefix = &t[..i];
    let core = &t[i..j];
    let suffix = &t[j..];
    if core.is_empty() {
        return Verdict::MustNot { why: "no-digits" };
    }
    if core.iter().any(|c| *c == '%' || is_currency(*c)) {
        return Verdict::MustNot { why: "symbol-inside-number" };
    }
    let signs = prefix.iter().chain(suffix.iter()).filter(|c| is_sign(**c)).count();
    let syms = prefix
        .iter()
        .chain(suffix.iter())
        .filter(|c| **c == '%' || is_currency(**c))
        .count();
    let un = match parse_unum(core, li) {
        Ok(u) => u,
        Err(why) => return Verdict::MustNot { why },
    };
    if signs >= 2 {
        let ps: Vec<usize> = prefix.iter().enumerate().filter(|(_, c)| is_sign(**c)).map(|(i, _)| i).collect();
        if ps.len() == 2 && ps[1] - ps[0] == 2 && is_currency(prefix[ps[0] + 1]) && signs == 2 {
            return Verdict::MustNot { why: "sign-before-and-after-currency-symbol" };
        }
        return Verdict::MustNot { why: "two-signs" };
    }
    if syms >= 2 {
        return Verdict::MustNot { why: "two-symbols" };
    }
    if suffix.iter().any(|c| is_sign(*c)) {
        return Verdict::Unspec { why: "trailing-sign" };
    }
    let mut lenient = un.lenient;
    let mut negative = false;
    if let Some(p) = prefix.iter().position(|c| is_sign(*c)) {
        if prefix[p] == '+' {
            lenient = lenient.or(Some("leading-plus"));
        } else {
            negative = true;
        }
        if p != 0 {
            lenient = lenient.or(Some("sign-after-currency-symbol"));
        }
    }
    let mut feats = Feats { grouped: un.grouped, exponent: un.exponent, ..Default::default() };
    let sym = prefix
        .iter()
        .chain(suffix.iter())
        .find(|c| **c == '%' || is_currency(**c))
        .copied();
    match sym {
        Some('%') => feats.percent = true,
        Some(c) => {
            feats.currency = Some(c);
            let local = li.currency.chars().count() == 1 && li.currency.chars().next() == Some(c);
            if !local {
                lenient = lenient.or(Some("currency-symbol-of-another-locale"));
            }
        }
        None => {}
    }
    let mut value: f64 = match un.text.parse::<f64>() {
        Ok(v) => v,
        Err(_) => return Verdict::Unspec { why: "reference-cannot-parse" },
    };
    if !value.is_finite() {
        return Verdict::Unspec { why: "overflow" };
    }
    if feats.percent {
        value /= 100.0;
    }
    if negative {
        value = -value;
    }
    match lenient {
        None => Verdict::Must { value, feats },
        Some(why) => {
            if why == "partial-grouping" || why == "trailing-group-separator" {
                feats.grouped = false;
            }
            Verdict::IfNumber { value, feats, why }
        }
    }
}

fn classify_nospace(t: &[char], li: &LocInfo, date_sep: char) -> Verdict {
    if t.is_empty() {
        return Verdict::MustNot { why: "blank" };
    }
    if t.contains(&':') {
        // h:mm, h:mm:ss, possibly with a decimal part
        let mut parts = 1;
        let mut ok = true;
        let mut cur = 0;
        let mut seen_dec = false;
        for c in t {
            if c.is_ascii_digit() {
                cur += 1;
            } else if *c == ':' && !seen_dec {
                if cur == 0 {
                    ok = false;
                }
                parts += 1;
                cur = 0;
            } else if (*c == '.' || *c == ',') && !seen_dec && cur > 0 {
                seen_dec = true;
                cur = 0;
            } else {
                ok = false;
            }
        }
        if ok && cur > 0 && (2..=3).contains(&parts) {
            return Verdict::Unspec { why: "time-shape" };
        }
        return Verdict::MustNot { why: "colon-outside-time" };
    }
    if let Some((parts, seps)) = date_shape(t) {
        // a decimal or grouped number written with '.' wins over the date shape
        if seps.iter().all(|c| *c == '.') {
            let v = decorated(t, li);
            if matches!(v, Verdict::Must { .. } | Verdict::IfNumber { .. }) {
                return v;
            }
        }
        return date_verdict(&parts, &seps, li, date_sep);
    }
    let v = decorated(t, li);
    if matches!(v, Verdict::MustNot { .. }) && signed_date_shape(t) {
        return Verdict::MustNot { why: "sign-inside-date" };
    }
    v
}

/// digits sep [+-]digits (sep [+-]digits)? with at least one sign after a separator
fn signed_date_shape(t: &[char]) -> bool {
    let mut parts = 1;
    let mut cur = 0;
    let mut signs = 0;
    let mut after_sep = false;
    for c in t {
        if c.is_ascii_digit() {
            cur += 1;
            after_sep = false;
        } else if after_sep && is_sign(*c) {
            signs += 1;
            after_sep = false;
        } else if is_datesep(*c) && cur > 0 {
            parts += 1;
            cur = 0;
            after_sep = true;
        } else {
            return false;
        }
    }
    cur > 0 && (2..=3).contains(&parts) && signs > 0
}

/// The separator of the locale's own short date format.
pub fn locale_date_sep(id: &str) -> char {
    let l = ironcalc_base::locale::get_locale(id).expect("locale");
    l.dates
        .date_formats
        .short
        .chars()
        .find(|c| is_datesep(*c))
        .unwrap_or('/')
}

pub struct Recogniser {
    pub li: LocInfo,
    pub date_sep: char,
}

impl Recogniser {
    pub fn new(id: &'static str) -> Recogniser {
        Recogniser { li: crate::fnum::loc_info(id), date_sep: locale_date_sep(id) }
    }

    pub fn classify(&self, s: &str) -> Verdict {
        let li = &self.li;
        let cs: Vec<char> = s.chars().collect();
        if cs.is_empty() {
            return Verdict::Unspec { why: "empty" };
        }
        if !cs.contains(&' ') {
            return classify_nospace(&cs, li, self.date_sep);
        }
        let t: Vec<char> = cs.iter().copied().filter(|c| *c != ' ').collect();
        let v = classify_nospace(&t, li, self.date_sep);
        // is every space at an end or next to a sign / currency symbol / percent sign?
        let mut benign = true;
        let first = cs.iter().position(|c| *c != ' ');
        let last = cs.iter().rposition(|c| *c != ' ');
        if let (Some(f), Some(l)) = (first, last) {
            for k in f..=l {
                if cs[k] == ' ' {
                    let left = cs[k - 1];
                    let right = cs[k + 1];
                    let deco = |c: char| c == '%' || is_currency(c) || c == ' ';
                    if !(deco(left) || deco(right)) {
                        benign = false;
                    }
                }
            }
        }
        let ends_only = match (first, last) {
            (Some(f), Some(l)) => !cs[f..=l].contains(&' '),
            _ => true,
        };
        match v {
            Verdict::MustNot { why } => {
                if cs.contains(&'/') {
                    Verdict::Unspec { why: "space-and-slash" }
                } else {
                    Verdict::MustNot { why }
                }
            }
            Verdict::Must { value, feats } | Verdict::IfNumber { value, feats, .. } => {
                if benign {
                    Verdict::IfNumber { value, feats, why: "spaces-around-number-or-symbol" }
                } else {
                    Verdict::Unspec { why: "interior-space" }
                }
            }
            Verdict::MustDate { serials } | Verdict::IfDate { serials, .. } => {
                if ends_only {
                    Verdict::IfDate { serials, why: "spaces-around-date" }
                } else {
                    Verdict::Unspec { why: "interior-space" }
                }
            }
            Verdict::Unspec { .. } => Verdict::Unspec { why: "space" },
        }
    }
}

#[cfg(test)]
mod tests {
    use super::*;
    fn en() -> Recogniser {
        Recogniser {
            li: LocInfo { id: "en", decimal: '.', group: ',', currency: "$".into(), day_first: false },
            date_sep: '/',
        }
    }
    fn de() -> Recogniser {
        Recogniser {
            li: LocInfo { id: "de", decimal: ',', group: '.', currency: "€".into(), day_first: true },
            date_sep: '.',
        }
    }
    fn must(r: &Recogniser, s: &str) -> f64 {
        match r.classify(s) {
            Verdict::Must { value, .. } => value,
            v => panic!("{} -> {:?}", s, v),
        }
    }
    #[test]
    fn numbers() {
        let r = en();
        assert_eq!(must(&r, "15"), 15.0);
        assert_eq!(must(&r, "-1.5"), -1.5);
        assert_eq!(must(&r, "1,555"), 1555.0);
        assert_eq!(must(&r, "1,555.5"), 1555.5);
        assert_eq!(must(&r, "1e5"), 1e5);
        assert_eq!(must(&r, "1E-5"), 1e-5);
        assert_eq!(must(&r, "50%"), 0.5);
        assert_eq!(must(&r, "-$1e3"), -1000.0);
        assert_eq!(must(&r, "$5"), 5.0);
        assert_eq!(must(&r, "5$"), 5.0);
        assert_eq!(must(&r, "-5$"), -5.0);
        assert_eq!(must(&r, "0015"), 15.0);
        let d = de();
        assert_eq!(must(&d, "1.555,5"), 1555.5);
        assert_eq!(must(&d, "1,5"), 1.5);
        assert_eq!(must(&d, "1.555.555"), 1555555.0);
        assert_eq!(must(&d, "-€5"), -5.0);
    }
    #[test]
    fn must_not() {
        let r = en();
        for s in ["1,5", ",555", "1,,555", "1,55,5", "e", "e5", "1e", "1e+", "--5", "+-5", "$$5", "5%%", "%5", "$5%", "1.5.5e1", "1:", ":1", "-", "$", ".", "1/", "/1", "15/15/15", "0/0/0", "1.5,5", "1 e", ": 1"] {
            assert!(matches!(r.classify(s), Verdict::MustNot { .. }), "{} -> {:?}", s, r.classify(s));
        }
        let d = de();
        for s in ["1.5,5.5", "1,5,5", "15/15/15"] {
            assert!(matches!(d.classify(s), Verdict::MustNot { .. }), "{} -> {:?}", s, d.classify(s));
        }
    }
    #[test]
    fn lenient() {
        let r = en();
        for s in ["+5", "5.", ".5", "$-5", " 5", "5 ", "$ 5", "5 %", "£5", "1555,555", "1,", "+$5"] {
            assert!(matches!(r.classify(s), Verdict::IfNumber { .. }), "{} -> {:?}", s, r.classify(s));
        }
        for s in ["1 5", "1/5", "1-5", "1:15", "5-", "1/1/1", "15/1/15", "1 1/5", "5 5/5", "1/5-15"] {
            assert!(matches!(r.classify(s), Verdict::Unspec { .. }), "{} -> {:?}", s, r.classify(s));
        }
    }
    #[test]
    fn dates() {
        let r = en();
        assert_eq!(r.classify("1/5/2015"), Verdict::MustDate { serials: vec![42009] });
        assert_eq!(r.classify("2015-01-05"), Verdict::MustDate { serials: vec![42009] });
        assert!(matches!(r.classify("1/5/15"), Verdict::MustDate { .. }));
        assert!(matches!(r.classify("1-5-15"), Verdict::IfDate { .. }));
        assert!(matches!(r.classify("1.5.15"), Verdict::IfDate { .. }));
        assert!(matches!(r.classify("2015-1-5"), Verdict::IfDate { .. }));
        assert!(matches!(r.classify("2/30/2015"), Verdict::MustNot { .. }));
        assert!(matches!(r.classify("2/29/2015"), Verdict::MustNot { .. }));
        assert!(matches!(r.classify("2/29/2016"), Verdict::MustDate { .. }));
        assert!(matches!(r.classify("13/1/2015"), Verdict::Unspec { .. }));
        assert_eq!(r.classify("1/1/-0"), Verdict::MustNot { why: "sign-inside-date" });
        assert_eq!(r.classify("1-1-+0"), Verdict::MustNot { why: "sign-inside-date" });
        assert_eq!(r.classify("1.1.+0"), Verdict::MustNot { why: "sign-inside-date" });
        assert!(matches!(r.classify("1.5e+0"), Verdict::Must { .. }));
        let d = de();
        assert!(matches!(d.classify("15.10.15"), Verdict::MustDate { .. }));
        assert!(matches!(d.classify("1.5"), Verdict::Unspec { .. }));
        assert!(matches!(d.classify("15/10/2015"), Verdict::IfDate { .. }));
    }
}

//! Feature workbooks for the xlsx properties (C24 export→import, C25 import robustness): small
//! workbooks built through the public `UserModel` API, one per feature family, so that the exported
//! package contains the XML the exporter produces for that feature.

use crate::ops::Op;
use ironcalc_base::cf_types::{
    CfRuleInput, Cfvo, ColorScaleThreshold, Icon, IconThreshold, PeriodType, TextOperator, ValueOperator,
};
use ironcalc_base::types::{Color, Dxf, DxfFont, Fill};
use ironcalc_base::UserModel;

fn s(x: &str) -> String {
    x.to_string()
}

pub fn dxf(k: u32) -> Dxf {
    let mut d = Dxf::default();
    match k % 3 {
        0 => {
            d.font = Some(DxfFont {
                b: Some(true),
                ..Default::default()
            })
        }
        1 => {
            d.fill = Some(Fill {
                color: Color::Rgb("#FFEE00".to_string()),
                ..Default::default()
            })
        }
        _ => {
            d.font = Some(DxfFont {
                i: Some(true),
                color: Color::Rgb("#FF0000".to_string()),
                ..Default::default()
            })
        }
    }
    d
}

/// One rule of every kind the model API accepts.
pub fn cf_rules() -> Vec<(&'static str, CfRuleInput)> {
    let rgb = |x: &str| Color::Rgb(x.to_string());
    vec![
        (
            "CellIs",
            CfRuleInput::CellIs {
                operator: ValueOperator::GreaterThan,
                formula: s("3"),
                formula2: None,
                format: dxf(0),
                stop_if_true: false,
            },
        ),
        (
            "CellIsBetween",
            CfRuleInput::CellIs {
                operator: ValueOperator::Between,
                formula: s("1"),
                formula2: Some(s("5")),
                format: dxf(1),
                stop_if_true: true,
            },
        ),
        (
            "Text",
            CfRuleInput::Text {
                operator: TextOperator::Contains,
                value: s("ab"),
                format: dxf(2),
                stop_if_true: false,
            },
        ),
        (
            "TextBegins",
            CfRuleInput::Text {
                operator: TextOperator::BeginsWith,
                value: s("a<b&\"c"),
                format: dxf(0),
                stop_if_true: false,
            },
        ),
        (
            "Formula",
            CfRuleInput::Formula {
                formula: s("A1>Sheet2!$A$1"),
                format: dxf(1),
                stop_if_true: false,
            },
        ),
        (
            "TimePeriod",
            CfRuleInput::TimePeriod {
                time_period: PeriodType::LastMonth,
                date1: None,
                date2: None,
                format: dxf(2),
                stop_if_true: false,
            },
        ),
        (
            "DuplicateValues",
            CfRuleInput::DuplicateValues {
                format: dxf(0),
                stop_if_true: false,
            },
        ),
        (
            "UniqueValues",
            CfRuleInput::UniqueValues {
                format: dxf(1),
                stop_if_true: false,
            },
        ),
        (
            "Blanks",
            CfRuleInput::Blanks {
                format: dxf(2),
                stop_if_true: false,
            },
        ),
        (
            "NotBlanks",
            CfRuleInput::NotBlanks {
                format: dxf(0),
                stop_if_true: false,
            },
        ),
        (
            "Errors",
            CfRuleInput::Errors {
                format: dxf(1),
                stop_if_true: false,
            },
        ),
        (
            "NoErrors",
            CfRuleInput::NoErrors {
                format: dxf(2),
                stop_if_true: false,
            },
        ),
        (
            "AboveAverage",
            CfRuleInput::AboveAverage {
                format: dxf(0),
                stop_if_true: false,
            },
        ),
        (
            "BelowAverage",
            CfRuleInput::BelowAverage {
                format: dxf(1),
                stop_if_true: false,
            },
        ),
        (
            "Top10",
            CfRuleInput::Top10 {
                rank: 3,
                percent: false,
                format: dxf(2),
                stop_if_true: false,
            },
        ),
        (
            "Bottom10",
            CfRuleInput::Bottom10 {
                rank: 20,
                percent: true,
                format: dxf(0),
                stop_if_true: false,
            },
        ),
        (
            "ColorScale",
            CfRuleInput::ColorScale {
                thresholds: vec![
                    ColorScaleThreshold {
                        cfvo: Cfvo::Min,
                        color: rgb("#FF0000"),
                    },
                    ColorScaleThreshold {
                        cfvo: Cfvo::Percentile(50.0),
                        color: rgb("#FFFF00"),
                    },
                    ColorScaleThreshold {
                        cfvo: Cfvo::Max,
                        color: rgb("#00FF00"),
                    },
                ],
            },
        ),
        (
            "DataBar",
            CfRuleInput::DataBar {
                min: None,
                max: None,
                positive_color: rgb("#638EC6"),
                negative_color: rgb("#FF0000"),
                is_gradient: true,
                show_value: true,
            },
        ),
        (
            "DataBarNum",
            CfRuleInput::DataBar {
                min: Some(Cfvo::Number(0.0)),
                max: Some(Cfvo::Percent(90.0)),
                positive_color: rgb("#638EC6"),
                negative_color: rgb("#FF0000"),
                is_gradient: false,
                show_value: false,
            },
        ),
        (
            "IconSet",
            CfRuleInput::IconSet {
                thresholds: vec![
                    IconThreshold {
                        icon: Icon::ArrowUp,
                        cfvo: Cfvo::Percent(67.0),
                        color: rgb("#00FF00"),
                        is_strict: false,
                    },
                    IconThreshold {
                        icon: Icon::ArrowRight,
                        cfvo: Cfvo::Percent(33.0),
                        color: rgb("#FFFF00"),
                        is_strict: false,
                    },
                    IconThreshold {
                        icon: Icon::ArrowDown,
                        cfvo: Cfvo::Min,
                        color: rgb("#FF0000"),
                        is_strict: false,
                    },
                ],
                show_value: true,
            },
        ),
        (
            "IconRating",
            CfRuleInput::IconRating {
                icon: Icon::Star,
                color: rgb("#FFCC00"),
                thresholds: vec![(Cfvo::Percent(67.0), false), (Cfvo::Percent(33.0), false)],
                show_value: true,
            },
        ),
    ]
}

pub const FEATURES: [&str; 3] = ["styles", "cf", "structure"];

fn apply_all(um: &mut UserModel, ops: Vec<Op>) {
    for op in ops {
        if let Err(e) = op.apply(um) {
            panic!("feature workbook op {:?} failed: {}", op, e);
        }
    }
}

/// Builds the named feature workbook. Panics (harness error) if an operation is rejected.
pub fn feature_model(name: &str) -> UserModel<'static> {
    use Op::*;
    let mut um = UserModel::new_empty("feature", "en", "UTC", "en").expect("new_empty");
    match name {
        "styles" => apply_all(
            &mut um,
            vec![
                Input(0, 1, 1, s("1.5")),
                Input(0, 1, 2, s("text")),
                Input(0, 2, 1, s("10%")),
                Input(0, 2, 2, s("$5.20")),
                Input(0, 3, 1, s("2021-03-04")),
                Input(0, 3, 2, s("'007")),
                Style(0, 1, 1, 1, 1, s("font.b"), s("true")),
                Style(0, 1, 2, 1, 1, s("font.i"), s("true")),
                Style(0, 1, 3, 1, 1, s("font.u"), s("true")),
                Style(0, 1, 4, 1, 1, s("font.strike"), s("true")),
                Style(0, 2, 3, 1, 1, s("font.color"), s("#FF00FF")),
                Style(0, 2, 4, 1, 1, s("font.size"), s("17")),
                Style(0, 3, 3, 1, 1, s("fill.color"), s("#00FFAA")),
                Style(0, 3, 4, 1, 1, s("num_fmt"), s("#,##0.000")),
                Style(0, 4, 1, 1, 1, s("num_fmt"), s("yyyy-mm-dd")),
                Style(0, 4, 2, 1, 1, s("alignment.horizontal"), s("center")),
                Style(0, 4, 3, 1, 1, s("alignment.vertical"), s("top")),
                Style(0, 4, 4, 1, 1, s("alignment.wrap_text"), s("true")),
                Border(0, 6, 1, 2, 2, s("All"), s("thin"), s("#000000")),
                Border(0, 6, 4, 2, 2, s("Outer"), s("medium"), s("#FF0000")),
                Border(0, 9, 1, 1, 1, s("Top"), s("double"), s("#0000FF")),
                Style(0, 1, 7, 1_048_576, 1, s("fill.color"), s("#00FF00")),
                Style(0, 11, 1, 1, 16_384, s("font.b"), s("true")),
                CreateNamedStyle(s("mine"), true),
                ApplyNamedStyle(0, 12, 1, 1, 2, s("mine")),
            ],
        ),
        "cf" => {
            apply_all(
                &mut um,
                vec![
                    NewSheet,
                    Input(0, 1, 1, s("1")),
                    Input(0, 2, 1, s("5")),
                    Input(0, 3, 1, s("abc")),
                    Input(0, 4, 1, s("=1/0")),
                    Input(0, 5, 1, s("2024-01-05")),
                    Input(1, 1, 1, s("2")),
                ],
            );
            for (i, (_, rule)) in cf_rules().into_iter().enumerate() {
                let range = format!("A{}:B{}", 1 + (i % 4), 6 + i);
                um.add_conditional_formatting(0, &range, rule)
                    .unwrap_or_else(|e| panic!("cf rule {} rejected: {}", i, e));
            }
        }
        "structure" => apply_all(
            &mut um,
            vec![
                NewSheet,
                NewSheet,
                RenameSheet(1, s("A B")),
                RenameSheet(2, s("It's")),
                Input(0, 1, 1, s("7")),
                Input(0, 2, 1, s("=A1*2")),
                Input(0, 3, 1, s("=SUM('A B'!A1:A2)+'It''s'!A1")),
                Input(1, 1, 1, s("3")),
                Input(1, 2, 1, s("4")),
                Input(2, 1, 1, s("TRUE")),
                Input(0, 5, 1, s("=SEQUENCE(2,2)")),
                ArrayFormula(0, 8, 1, 2, 1, s("={1,2}*A1")),
                Input(0, 1, 3, s("#N/A")),
                Input(0, 2, 3, s("a<b&c>\"d\"")),
                HideSheet(2),
                SheetColor(1, s("#FF0000")),
                FrozenRows(0, 2),
                FrozenCols(0, 1),
                GridLines(1, false),
                RowsHeight(0, 2, 3, 40.0),
                ColsWidth(0, 2, 3, 150.0),
                RowsHidden(0, 4, 4, true),
                ColsHidden(0, 5, 5, true),
                NewName(s("glob"), None, s("Sheet1!$A$1")),
                NewName(s("loc"), Some(1), s("'A B'!$A$1:$A$2")),
                Input(0, 4, 3, s("=glob+1")),
                SetLink(0, 1, 4, s("https://example.com/?a=1&b=2"), Some(s("label"))),
                SetInternalLink(0, 2, 4, s("'A B'!A1"), None),
            ],
        ),
        other => panic!("unknown feature workbook {}", other),
    }
    let _ = um.set_selected_sheet(0);
    let _ = um.set_selected_cell(1, 1);
    let _ = um.set_selected_range(1, 1, 1, 1);
    um
}

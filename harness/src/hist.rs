//! `hist` engine: every word of length <= D over an operation alphabet from each seed workbook.
//! Stateless: each word is replayed from the seed on the real code inside its execution unit.

use crate::ops::Op;
use crate::seeds;
use ironcalc_base::UserModel;
use serde_json::{json, Value};

pub struct HistCfg {
    pub seeds: Vec<&'static str>,
    pub alphabet: Vec<Op>,
    pub depth: usize,
}

/// Result of judging one word.
pub struct WordResult<R> {
    pub out: R,
}

#[derive(Default, Clone)]
pub struct HistStats {
    pub units: u64,
    pub words: u64,
    pub words_cut: u64,
    pub steps: u64,
}

/// Replays `ops` on a fresh copy of the seed; returns the model and the index of the first failing op (if any).
pub fn replay(seed: &str, ops: &[Op]) -> (UserModel<'static>, Option<(usize, String)>) {
    let mut um = seeds::load(seed);
    for (i, op) in ops.iter().enumerate() {
        if let Err(e) = op.apply(&mut um) {
            return (um, Some((i, e)));
        }
    }
    (um, None)
}

pub fn case_json(seed: &str, ops: &[Op]) -> Value {
    json!({"seed": seed, "ops": ops})
}

pub fn case_parse(v: &Value) -> Option<(String, Vec<Op>)> {
    let seed = v["seed"].as_str()?.to_string();
    let ops: Vec<Op> = serde_json::from_value(v["ops"].clone()).ok()?;
    Some((seed, ops))
}

fn seed_static(s: &str) -> &'static str {
    for n in seeds::SEEDS {
        if n == s {
            return n;
        }
    }
    if s.starts_with("fresh:") {
        // a model created on the spot ("fresh:<locale>/<language>"); leaked once per replay
        return Box::leak(s.to_string().into_boxed_str());
    }
    "empty"
}

pub fn seed_name(s: &str) -> &'static str {
    seed_static(s)
}

/// Enumerates all words of exactly length `len` (all prefixes must succeed; the last op may fail — the judge sees it).
/// `judge(seed, word)` runs inside the unit of (seed, prefix). Returns per-word outputs in deterministic order.
pub fn explore<R: Send>(
    cfg: &HistCfg,
    len: usize,
    judge: &(dyn Fn(&'static str, &[Op]) -> Option<R> + Sync),
) -> (Vec<R>, HistStats, Vec<String>) {
    explore_opt(cfg, len, judge, true)
}

/// Like `explore`, but operations that return an error do not cut a history (the judge decides).
pub fn explore_permissive<R: Send>(
    cfg: &HistCfg,
    len: usize,
    judge: &(dyn Fn(&'static str, &[Op]) -> Option<R> + Sync),
) -> (Vec<R>, HistStats, Vec<String>) {
    explore_opt(cfg, len, judge, false)
}

fn explore_opt<R: Send>(
    cfg: &HistCfg,
    len: usize,
    judge: &(dyn Fn(&'static str, &[Op]) -> Option<R> + Sync),
    prefix_must_succeed: bool,
) -> (Vec<R>, HistStats, Vec<String>) {
    assert!(len >= 1);
    let a = cfg.alphabet.len();
    let prefixes: usize = a.pow((len - 1) as u32);
    let n_units = cfg.seeds.len() * prefixes;
    let res = crate::env::par_units(n_units, |u| {
        let seed = cfg.seeds[u / prefixes];
        let mut k = u % prefixes;
        let mut idx = vec![0usize; len - 1];
        for i in (0..len - 1).rev() {
            idx[i] = k % a;
            k /= a;
        }
        let prefix: Vec<Op> = idx.iter().map(|i| cfg.alphabet[*i].clone()).collect();
        let mut st = HistStats {
            units: 1,
            ..Default::default()
        };
        let mut outs = vec![];
        // prefix must be all-Ok
        if !prefix.is_empty() && prefix_must_succeed {
            let (_, fail) = replay(seed, &prefix);
            if fail.is_some() {
                st.words_cut += a as u64;
                return (outs, st);
            }
        }
        let mut word = prefix.clone();
        word.push(cfg.alphabet[0].clone());
        for op in &cfg.alphabet {
            *word.last_mut().unwrap() = op.clone();
            match judge(seed, &word) {
                Some(r) => {
                    st.words += 1;
                    st.steps += len as u64;
                    outs.push(r);
                }
                None => st.words_cut += 1,
            }
        }
        (outs, st)
    });
    let mut all = vec![];
    let mut stats = HistStats::default();
    let mut errs = vec![];
    for r in res {
        match r {
            Ok((outs, st)) => {
                all.extend(outs);
                stats.units += st.units;
                stats.words += st.words;
                stats.words_cut += st.words_cut;
                stats.steps += st.steps;
            }
            Err(e) => errs.push(e),
        }
    }
    (all, stats, errs)
}

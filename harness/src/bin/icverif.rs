use icverif::report::Tier;

fn main() {
    let args: Vec<String> = std::env::args().collect();
    if args.len() < 3 && args.get(1).map(|s| s.as_str()) != Some("isolate-selftest") {
        eprintln!("usage: icverif check <ID> <quick|thorough> | icverif replay <file>");
        std::process::exit(2);
    }
    icverif::env::init();
    let code = match args[1].as_str() {
        // private subcommand: worker process of the subprocess-isolation helper (harness/src/isolate.rs)
        "worker" => icverif::isolate::worker_main(&args[2..]),
        "isolate-selftest" => icverif::isolate::selftest(),
        "c25-stats" => {
            let tier = if args.get(2).map(|s| s.as_str()) == Some("thorough") { Tier::Thorough } else { Tier::Quick };
            println!("{}", serde_json::to_string_pretty(&icverif::props::c25::C25Job::new(tier).stats()).unwrap());
            0
        }
        "check" => {
            let tier = match args.get(3).map(|s| s.as_str()) {
                Some("thorough") => Tier::Thorough,
                _ => Tier::Quick,
            };
            icverif::props::run_check(&args[2], tier)
        }
        "alphabet" => {
            for seed in icverif::seeds::SEEDS {
                for op in icverif::seeds::alphabet_full() {
                    let t = std::time::Instant::now();
                    let mut um = icverif::seeds::load(seed);
                    let r = op.apply(&mut um);
                    let t1 = t.elapsed().as_secs_f64();
                    let o = icverif::obs::observe(&um, &Default::default());
                    let t2 = t.elapsed().as_secs_f64();
                    let ur = um.undo();
                    println!("{} {:?} -> {:?} apply={:.4}s obs={:.4}s fields={} undo={:?} total={:.4}s", seed, op, r, t1, t2 - t1, o.len(), ur, t.elapsed().as_secs_f64());
                }
            }
            0
        }
        "replay" => icverif::props::replay_file(&args[2]),
        // private subcommand of C08: one worker subprocess of the function sweep (RLIMIT_AS + watchdog in the parent)
        "c08-worker" => icverif::props::c08::worker_main(&args[2..]),
        _ => 2,
    };
    std::process::exit(code);
}

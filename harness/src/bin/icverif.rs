use icverif::report::Tier;

fn main() {
    let args: Vec<String> = std::env::args().collect();
    if args.len() < 3 {
        eprintln!("usage: icverif check <ID> <quick|thorough> | icverif replay <file>");
        std::process::exit(2);
    }
    icverif::env::init();
    let code = match args[1].as_str() {
        "check" => {
            let tier = match args.get(3).map(|s| s.as_str()) {
                Some("thorough") => Tier::Thorough,
                _ => Tier::Quick,
            };
            icverif::props::run_check(&args[2], tier)
        }
        "replay" => icverif::props::replay_file(&args[2]),
        _ => 2,
    };
    std::process::exit(code);
}

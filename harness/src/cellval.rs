//! Reading stored cell values straight from the public `Workbook` data (shared by C05–C08).

use ironcalc_base::expressions::token::Error;
use ironcalc_base::types::{ArrayKind, Cell, FormulaValue, SpillValue};
use ironcalc_base::Model;

#[derive(Clone, Debug)]
pub enum Val {
    Blank,
    Num(f64),
    Str(String),
    Bool(bool),
    Err(Error),
    /// a formula cell that was never evaluated (transient state; must not be seen after `evaluate`)
    Unevaluated,
}

impl PartialEq for Val {
    fn eq(&self, other: &Val) -> bool {
        match (self, other) {
            (Val::Blank, Val::Blank) => true,
            (Val::Num(a), Val::Num(b)) => a == b || (a.is_nan() && b.is_nan()),
            (Val::Str(a), Val::Str(b)) => a == b,
            (Val::Bool(a), Val::Bool(b)) => a == b,
            (Val::Err(a), Val::Err(b)) => a == b,
            (Val::Unevaluated, Val::Unevaluated) => true,
            _ => false,
        }
    }
}

impl Val {
    /// "num" / "str" / "bool" / "blank" / the error's spelling
    pub fn kind(&self) -> String {
        match self {
            Val::Blank => "blank".into(),
            Val::Num(_) => "num".into(),
            Val::Str(_) => "str".into(),
            Val::Bool(_) => "bool".into(),
            Val::Err(e) => format!("{}", e),
            Val::Unevaluated => "unevaluated".into(),
        }
    }
    pub fn show(&self) -> String {
        match self {
            Val::Blank => "<blank>".into(),
            Val::Num(n) => format!("{:?}", n),
            Val::Str(s) => format!("{:?}", s),
            Val::Bool(b) => (if *b { "TRUE" } else { "FALSE" }).into(),
            Val::Err(e) => format!("{}", e),
            Val::Unevaluated => "<unevaluated>".into(),
        }
    }
    pub fn is_error(&self) -> bool {
        matches!(self, Val::Err(_))
    }
}

fn fv(v: &FormulaValue) -> Val {
    match v {
        FormulaValue::Unevaluated => Val::Unevaluated,
        FormulaValue::Boolean(b) => Val::Bool(*b),
        FormulaValue::Number(n) => Val::Num(*n),
        FormulaValue::Text(s) => Val::Str(s.clone()),
        FormulaValue::Error { ei, .. } => Val::Err(ei.clone()),
    }
}

pub fn val_of_cell(model: &Model, cell: Option<&Cell>) -> Val {
    match cell {
        None | Some(Cell::EmptyCell { .. }) => Val::Blank,
        Some(Cell::BooleanCell { v, .. }) => Val::Bool(*v),
        Some(Cell::NumberCell { v, .. }) => Val::Num(*v),
        Some(Cell::ErrorCell { ei, .. }) => Val::Err(ei.clone()),
        Some(Cell::SharedString { si, .. }) => Val::Str(
            model
                .workbook
                .shared_strings
                .get(*si as usize)
                .cloned()
                .unwrap_or_else(|| format!("<bad shared string {}>", si)),
        ),
        Some(Cell::CellFormula { v, .. }) => fv(v),
        Some(Cell::ArrayFormula { v, .. }) => fv(v),
        Some(Cell::SpillCell { v, .. }) => match v {
            SpillValue::Boolean(b) => Val::Bool(*b),
            SpillValue::Number(n) => Val::Num(*n),
            SpillValue::Text(s) => Val::Str(s.clone()),
            SpillValue::Error(e) => Val::Err(e.clone()),
        },
    }
}

pub fn cell_val(model: &Model, sheet: u32, row: i32, col: i32) -> Val {
    let cell = model
        .workbook
        .worksheets
        .get(sheet as usize)
        .and_then(|ws| ws.cell(row, col));
    val_of_cell(model, cell)
}

/// Structural role of a cell: none / const / formula / cse WxH / dyn WxH / spill@R,C
pub fn cell_shape(cell: Option<&Cell>) -> String {
    match cell {
        None | Some(Cell::EmptyCell { .. }) => "none".into(),
        Some(Cell::CellFormula { .. }) => "formula".into(),
        Some(Cell::ArrayFormula { r, kind, .. }) => format!(
            "{} {}x{}",
            if *kind == ArrayKind::Cse { "cse" } else { "dyn" },
            r.0,
            r.1
        ),
        Some(Cell::SpillCell { a, .. }) => format!("spill@R{}C{}", a.0, a.1),
        Some(_) => "const".into(),
    }
}

/// `A1`-style name of (row, column)
pub fn a1(row: i32, col: i32) -> String {
    let mut c = col;
    let mut s = String::new();
    while c > 0 {
        let r = ((c - 1) % 26) as u8;
        s.insert(0, (b'A' + r) as char);
        c = (c - 1) / 26;
    }
    format!("{}{}", s, row)
}

/// Every stored cell of every sheet as (sheet, row, col, &Cell), sorted.
pub fn all_cells<'a>(model: &'a Model) -> Vec<(u32, i32, i32, &'a Cell)> {
    let mut out = vec![];
    for (si, ws) in model.workbook.worksheets.iter().enumerate() {
        let mut rows: Vec<&i32> = ws.sheet_data.keys().collect();
        rows.sort_unstable();
        for r in rows {
            let rd = &ws.sheet_data[r];
            let mut cols: Vec<&i32> = rd.keys().collect();
            cols.sort_unstable();
            for c in cols {
                out.push((si as u32, *r, *c, &rd[c]));
            }
        }
    }
    out
}

/// Many short-lived models per second make glibc trim and re-grow its arenas all the time (mostly system time);
/// tell it to keep freed memory. Process-wide, harmless, idempotent.
pub fn keep_freed_memory() {
    unsafe {
        libc::mallopt(libc::M_TRIM_THRESHOLD, 1 << 30);
        libc::mallopt(libc::M_TOP_PAD, 16 << 20);
        libc::mallopt(libc::M_MMAP_THRESHOLD, 1 << 30);
    }
}

pub mod env;
pub mod obs;
pub mod ops;
pub mod report;
pub mod seeds;
pub mod hist;
pub mod xlsxutil;
pub mod props;

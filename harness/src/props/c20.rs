//! C20 Number formats display correctly rounded values.
//!
//! Numbers: every decimal +-d.dd x 10^e (thorough d.ddd) with e in [-6,16], 0, the 2^53 neighbourhood, 1E300,
//! 5E-324 and a few classic binary-fraction cases. Formats: a generated grammar
//! [literal] integer placeholders (0 # ?, grouping) [. 0-3 of 0 # ?] [%] [E+00 | E-0] [literal], one or two sections.
//! Oracle: a decimal reference formatter (reduce to 15 significant digits, round half away from zero on the decimal
//! digit string, then sign, digits, grouping, exponent, literals). Cross-check: the engine's own ROUND and FIXED.

use crate::fnum::{eq15, LOCALES};
use crate::report::{Disagreement, Run};
use ironcalc_base::cell::CellValue;
use ironcalc_base::formatter::format::format_number;
use ironcalc_base::locale::{get_locale, Locale};
use ironcalc_base::Model;
use serde_json::{json, Value};
use std::collections::BTreeSet;

// ------------------------------------------------------------------------------------------------
// Decimal numbers
// ------------------------------------------------------------------------------------------------

/// value = 0.d1 d2 d3 ... x 10^exp, d1 != 0, no trailing zeros; zero has no digits.
#[derive(Clone, Debug, PartialEq)]
pub struct Dec {
    pub digits: Vec<u8>,
    pub exp: i32,
}

impl Dec {
    fn zero() -> Dec {
        Dec { digits: vec![], exp: 0 }
    }
    fn is_zero(&self) -> bool {
        self.digits.is_empty()
    }
    fn normalise(mut self) -> Dec {
        while self.digits.last() == Some(&0) {
            self.digits.pop();
        }
        let lead = self.digits.iter().take_while(|d| **d == 0).count();
        if lead > 0 {
            self.digits.drain(..lead);
            self.exp -= lead as i32;
        }
        if self.digits.is_empty() {
            self.exp = 0;
        }
        self
    }
    /// digit at decimal position `pos`: pos = -1 is the first fractional digit, 0 the units, 1 the tens ...
    fn digit_at(&self, pos: i32) -> u8 {
        // digits[i] has position exp - 1 - i
        let i = self.exp - 1 - pos;
        if i < 0 || i as usize >= self.digits.len() {
            0
        } else {
            self.digits[i as usize]
        }
    }
    fn shift(&self, by: i32) -> Dec {
        if self.is_zero() {
            return self.clone();
        }
        Dec { digits: self.digits.clone(), exp: self.exp + by }
    }
    /// Rounds half away from zero to `places` fractional digits. Returns (rounded, was an exact tie).
    fn round_places(&self, places: i32) -> (Dec, bool) {
        if self.is_zero() {
            return (self.clone(), false);
        }
        // keep digits with position >= -places
        let keep = self.exp + places; // number of leading digits kept (may be <= 0)
        if keep >= self.digits.len() as i32 {
            return (self.clone(), false);
        }
        if keep < 0 {
            return (Dec::zero(), false);
        }
        let keep = keep as usize;
        let next = self.digits[keep];
        let tie = next == 5 && self.digits[keep + 1..].iter().all(|d| *d == 0);
        let mut d: Vec<u8> = self.digits[..keep].to_vec();
        let mut exp = self.exp;
        if next >= 5 {
            // carry
            let mut i = d.len();
            loop {
                if i == 0 {
                    d.insert(0, 1);
                    exp += 1;
                    break;
                }
                i -= 1;
                if d[i] == 9 {
                    d[i] = 0;
                } else {
                    d[i] += 1;
                    break;
                }
            }
        }
        (Dec { digits: d, exp }.normalise(), tie)
    }
    /// Rounds to `n` significant digits half away from zero. Returns (rounded, exact tie).
    fn round_sig(&self, n: usize) -> (Dec, bool) {
        if self.digits.len() <= n {
            return (self.clone(), false);
        }
        self.round_places(n as i32 - self.exp)
    }
    fn int_digits(&self) -> Vec<u8> {
        if self.is_zero() || self.exp <= 0 {
            return vec![];
        }
        (0..self.exp).map(|i| *self.digits.get(i as usize).unwrap_or(&0)).collect()
    }
    fn frac_digits(&self, places: usize) -> Vec<u8> {
        (1..=places as i32).map(|k| self.digit_at(-k)).collect()
    }
    fn to_f64(&self, neg: bool) -> f64 {
        if self.is_zero() {
            return 0.0;
        }
        let s: String = self.digits.iter().map(|d| (b'0' + d) as char).collect();
        let t = format!("{}0.{}e{}", if neg { "-" } else { "" }, s, self.exp);
        t.parse().unwrap_or(f64::NAN)
    }
}

/// Exact decimal expansion of |x| (120 significant digits are exact or beyond need for every number used here).
fn dec_of_f64(x: f64) -> Dec {
    if x == 0.0 {
        return Dec::zero();
    }
    let s = format!("{:.119e}", x.abs());
    let (mant, exp) = s.split_once('e').unwrap_or((&s, "0"));
    let e: i32 = exp.parse().unwrap_or(0);
    let digits: Vec<u8> = mant.bytes().filter(|b| b.is_ascii_digit()).map(|b| b - b'0').collect();
    Dec { digits, exp: e + 1 }.normalise()
}

/// The shortest digits that round-trip (what `{}` prints for a double).
fn shortest_dec(x: f64) -> Dec {
    if x == 0.0 || !x.is_finite() {
        return Dec::zero();
    }
    let s = format!("{:e}", x.abs());
    let (mant, exp) = s.split_once('e').unwrap_or((&s, "0"));
    let e: i32 = exp.parse().unwrap_or(0);
    let digits: Vec<u8> = mant.bytes().filter(|b| b.is_ascii_digit()).map(|b| b - b'0').collect();
    Dec { digits, exp: e + 1 }.normalise()
}

#[derive(Clone, Debug)]
pub struct Num {
    pub text: String,
    pub x: f64,
    pub neg: bool,
    /// |x| reduced to 15 significant digits
    pub dec: Dec,
    /// the reduction itself met an exact tie: the statement does not say how that is resolved
    pub reduction_tie: bool,
    /// the double has more than 15 significant digits
    pub beyond15: bool,
    /// the double's exact expansion
    pub exact: Dec,
}

pub fn num_of_text(text: &str) -> Option<Num> {
    let x: f64 = text.parse().ok()?;
    if !x.is_finite() {
        return None;
    }
    let exact = dec_of_f64(x);
    let (dec, tie) = exact.round_sig(15);
    Some(Num { text: text.to_string(), x, neg: x < 0.0 || (x == 0.0 && x.is_sign_negative()), beyond15: exact.digits.len() > 15, dec, reduction_tie: tie, exact })
}

pub fn numbers(thorough: bool) -> Vec<Num> {
    let mut texts: Vec<String> = vec!["0".into()];
    let (lo, hi) = if thorough { (1000, 9999) } else { (100, 999) };
    let nd = if thorough { 3 } else { 2 };
    for e in -6..=16 {
        for m in lo..=hi {
            let ms = format!("{}", m);
            let t = format!("{}.{}e{}", &ms[..1], &ms[1..=nd], e);
            texts.push(t.clone());
            texts.push(format!("-{}", t));
        }
    }
    // 2^53 neighbourhood
    let p53: i64 = 1 << 53;
    for d in -64..=64i64 {
        texts.push(format!("{}", p53 + d));
        texts.push(format!("-{}", p53 + d));
    }
    for t in [
        "1e300", "-1e300", "5e-324", "1.7976931348623157e308", "0.1", "0.2", "0.30000000000000004", "0.3333333333333333",
        "0.6666666666666666", "1.005", "2.675", "1234.5", "2.5", "-2.5", "0.5", "-0.5", "1.5", "0.05", "0.005", "0.0005",
        "999.5", "9.995", "99999.5", "999999999999999", "1e15", "1e16", "123456789012345678", "0.000001", "1e-7", "1e-10",
        "4.35", "4.45", "1.45", "8.575", "1.15", "2.345", "1e21", "1e22", "123456.789", "-0.6", "-0.4", "0.6", "0.4",
    ] {
        texts.push(t.to_string());
    }
    let mut seen = BTreeSet::new();
    let mut out = vec![];
    for t in texts {
        if let Some(n) = num_of_text(&t) {
            if seen.insert(n.x.to_bits()) {
                out.push(n);
            }
        }
    }
    out
}

// ------------------------------------------------------------------------------------------------
// Formats
// ------------------------------------------------------------------------------------------------

#[derive(Clone, Debug)]
pub struct Sec {
    pub code: String,
    pub prefix: String,
    pub suffix: String,
    pub int_ph: Vec<char>,
    pub group: bool,
    pub frac_ph: Vec<char>,
    pub has_point: bool,
    pub percent: bool,
    /// (plus sign always, number of exponent zeros)
    pub sci: Option<(bool, usize)>,
}

#[derive(Clone, Debug)]
pub struct Fmt {
    pub code: String,
    pub secs: Vec<Sec>,
}

const INTS: [(&str, &str, bool); 12] = [
    ("0", "0", false),
    ("#", "#", false),
    ("?", "?", false),
    ("00", "00", false),
    ("#0", "#0", false),
    ("##0", "##0", false),
    ("000", "000", false),
    ("?0", "?0", false),
    ("#,##0", "###0", true),
    ("#,###", "####", true),
    ("#,#00", "##00", true),
    ("0,000", "0000", true),
];
const FRACS: [&str; 12] = ["", ".0", ".00", ".000", ".#", ".##", ".###", ".0#", ".00#", ".0##", ".?", ".0?"];
/// (code, text)
const LITERALS: [(&str, &str); 6] = [("\"x\"", "x"), ("\\x", "x"), ("$", "$"), ("\"a b\"", "a b"), ("\"kg\"", "kg"), (" ", " ")];

fn section(prefix: Option<usize>, int: usize, frac: usize, percent: bool, sci: Option<(bool, usize)>, suffix: Option<usize>) -> Sec {
    let (icode, iph, group) = INTS[int];
    let fcode = FRACS[frac];
    let mut code = String::new();
    let mut pre = String::new();
    let mut suf = String::new();
    if let Some(p) = prefix {
        code.push_str(LITERALS[p].0);
        pre.push_str(LITERALS[p].1);
    }
    code.push_str(icode);
    code.push_str(fcode);
    if let Some((plus, zeros)) = sci {
        code.push_str(if plus { "E+" } else { "E-" });
        for _ in 0..zeros {
            code.push('0');
        }
    }
    if percent {
        code.push('%');
    }
    if let Some(s) = suffix {
        code.push_str(LITERALS[s].0);
        suf.push_str(LITERALS[s].1);
    }
    Sec {
        code,
        prefix: pre,
        suffix: suf,
        int_ph: iph.chars().collect(),
        group,
        frac_ph: fcode.chars().skip(1).collect(),
        has_point: !fcode.is_empty(),
        percent,
        sci,
    }
}

pub fn formats(thorough: bool) -> Vec<Fmt> {
    let mut secs: Vec<Sec> = vec![];
    // plain: every integer part x every fraction
    let ints: Vec<usize> = if thorough { (0..INTS.len()).collect() } else { vec![0, 1, 3, 8, 11] };
    let fracs: Vec<usize> = if thorough { (0..FRACS.len()).collect() } else { vec![0, 1, 2, 3, 5, 7, 10] };
    for &i in &ints {
        for &f in &fracs {
            secs.push(section(None, i, f, false, None, None));
        }
    }
    // percent
    for &i in if thorough { &[0usize, 1, 8][..] } else { &[0usize, 8][..] } {
        for &f in if thorough { &[0usize, 1, 2, 3, 5][..] } else { &[0usize, 2][..] } {
            secs.push(section(None, i, f, true, None, None));
        }
    }
    // scientific (one integer placeholder)
    for &f in if thorough { &[0usize, 1, 2, 3, 5, 7][..] } else { &[0usize, 2, 5][..] } {
        for sci in [(true, 2usize), (false, 1usize), (true, 1usize), (true, 3usize)] {
            if !thorough && (sci == (true, 1) || sci == (true, 3)) {
                continue;
            }
            secs.push(section(None, 0, f, false, Some(sci), None));
        }
    }
    // literals
    let lits: Vec<usize> = if thorough { (0..LITERALS.len()).collect() } else { vec![0, 1, 2] };
    for &l in &lits {
        secs.push(section(Some(l), 0, 2, false, None, None));
        secs.push(section(None, 8, 2, false, None, Some(l)));
        if thorough {
            secs.push(section(Some(l), 8, 0, false, None, Some(l)));
            secs.push(section(None, 0, 1, true, None, Some(l)));
        }
    }
    let mut out: Vec<Fmt> = secs.iter().map(|s| Fmt { code: s.code.clone(), secs: vec![s.clone()] }).collect();
    // two sections
    let two: Vec<(Sec, Sec)> = {
        let mut v = vec![];
        let neg_paren = |i: usize, f: usize| {
            let mut s = section(None, i, f, false, None, None);
            s.code = format!("({})", s.code);
            s.prefix = "(".into();
            s.suffix = ")".into();
            s
        };
        let neg_minus = |i: usize, f: usize| {
            let mut s = section(None, i, f, false, None, None);
            s.code = format!("-{}", s.code);
            s.prefix = "-".into();
            s
        };
        v.push((section(None, 0, 2, false, None, None), neg_paren(0, 2)));
        v.push((section(None, 8, 0, false, None, None), neg_minus(8, 0)));
        v.push((section(None, 8, 2, false, None, None), neg_paren(8, 2)));
        if thorough {
            v.push((section(None, 0, 0, false, None, None), neg_paren(0, 0)));
            v.push((section(None, 0, 1, false, None, None), section(Some(0), 0, 1, false, None, None)));
            v.push((section(None, 0, 2, true, None, None), neg_minus(0, 2)));
            v.push((section(None, 1, 5, false, None, None), neg_minus(1, 5)));
            v.push((section(Some(2), 8, 2, false, None, None), neg_paren(8, 2)));
        }
        v
    };
    for (a, b) in two {
        out.push(Fmt { code: format!("{};{}", a.code, b.code), secs: vec![a, b] });
    }
    out
}

// ------------------------------------------------------------------------------------------------
// Reference formatter
// ------------------------------------------------------------------------------------------------

pub struct Seps {
    pub decimal: String,
    pub group: String,
}

pub fn seps(locale: &Locale) -> Seps {
    Seps { decimal: locale.numbers.symbols.decimal.clone(), group: locale.numbers.symbols.group.clone() }
}

fn push_digits(out: &mut String, ds: &[u8]) {
    for d in ds {
        out.push((b'0' + d) as char);
    }
}

/// Deviations from the reference that name one known way of being wrong each (all false = the reference).
#[derive(Clone, Copy, Default, Debug, PartialEq)]
pub struct Opts {
    /// an exact decimal tie is resolved towards zero (what rounding the binary double gives)
    pub tie_down: bool,
    /// thousands separators only between digits of the number, none among padding zeros
    pub pad_group_off: bool,
    /// the double's own (shortest round-trip) digits instead of its 15-significant-digit reduction
    pub exact_digits: bool,
    /// a zero exponent is written with a minus sign
    pub exp_zero_minus: bool,
    /// no minus sign in front of a negative number (one-section formats)
    pub no_minus: bool,
    /// rounding that carries into the integer part shows the old integer part and a zero fraction
    pub carry_lost: bool,
    /// the value is first rounded to (decimals + integer digits, at least one) significant digits, then again
    pub rounded_twice: bool,
    /// a mantissa that rounds up to 10 is not renormalised
    pub sci_no_renorm: bool,
    /// an exponent with more digits than placeholders repeats its leading digits
    pub exp_digits_repeated: bool,
}

pub const TOGGLES: [&str; 9] = [
    "tie-rounded-on-the-binary-value",
    "no-group-separator-among-padding-zeros",
    "digits-beyond-15-significant-shown",
    "zero-exponent-written-negative",
    "minus-sign-missing",
    "carry-into-integer-part-lost",
    "rounded-twice",
    "mantissa-10-not-renormalised",
    "long-exponent-digits-repeated",
];

fn opts_of(mask: u32) -> Opts {
    Opts {
        tie_down: mask & 1 != 0,
        pad_group_off: mask & 2 != 0,
        exact_digits: mask & 4 != 0,
        exp_zero_minus: mask & 8 != 0,
        no_minus: mask & 16 != 0,
        carry_lost: mask & 32 != 0,
        rounded_twice: mask & 64 != 0,
        sci_no_renorm: mask & 128 != 0,
        exp_digits_repeated: mask & 256 != 0,
    }
}

/// Integer part through the placeholders, with grouping over everything emitted.
fn render_int(int: &[u8], ph: &[char], group: bool, sp: &Seps, o: &Opts) -> String {
    let mut cells: Vec<(char, bool)> = vec![];
    if int.len() < ph.len() {
        let pad = ph.len() - int.len();
        for p in ph.iter().take(pad) {
            match p {
                '0' => cells.push(('0', true)),
                '?' => cells.push((' ', true)),
                _ => {}
            }
        }
    }
    for d in int {
        cells.push(((b'0' + d) as char, false));
    }
    let mut out = String::new();
    let n = cells.len();
    for (i, (c, padding)) in cells.iter().enumerate() {
        out.push(*c);
        let left = n - 1 - i;
        if group && left > 0 && left % 3 == 0 && !(o.pad_group_off && *padding) {
            out.push_str(&sp.group);
        }
    }
    out
}

/// Fraction digits through the placeholders: trailing zeros are dropped at '#', blanked at '?', kept at '0'.
/// Returns the text and whether it contains a digit.
fn render_frac(frac: &[u8], ph: &[char]) -> (String, bool) {
    let mut last_needed = 0usize;
    for i in 0..ph.len() {
        if ph[i] == '0' || frac[i] != 0 {
            last_needed = i + 1;
        }
    }
    let mut out = String::new();
    for i in 0..ph.len() {
        if i < last_needed {
            out.push((b'0' + frac[i]) as char);
        } else if ph[i] == '?' {
            out.push(' ');
        }
    }
    (out, last_needed > 0)
}

fn truncate_sig(v: &Dec, n: usize) -> Dec {
    Dec { digits: v.digits[..n.min(v.digits.len())].to_vec(), exp: v.exp }.normalise()
}

fn truncate_places(v: &Dec, places: i32) -> Dec {
    let keep = (v.exp + places).max(0) as usize;
    truncate_sig(v, keep)
}

pub struct Rendered {
    /// accepted texts: [0] is the canonical one; others differ where the statement is silent (decimal separator
    /// without fraction digits; sign of a negative value displayed as zero)
    pub texts: Vec<String>,
    pub tie: bool,
    pub rounded_zero: bool,
}

fn render_section(sec: &Sec, dec: &Dec, negative: bool, auto_minus: bool, sp: &Seps, o: &Opts) -> Rendered {
    let mut v = dec.clone();
    if sec.percent {
        v = v.shift(2);
    }
    let places = sec.frac_ph.len() as i32;
    // bodies: with and (when there are no fraction digits to show) without the decimal separator
    let mut bodies: Vec<String> = vec![];
    let tie;
    let rounded_zero;
    let mut tail = String::new();
    let int_text;
    let frac_text;
    let frac_has_digit;
    if o.rounded_twice && !v.is_zero() {
        let first = places as usize + v.exp.max(1) as usize;
        let (r1, t1) = v.round_sig(first);
        v = if t1 && o.tie_down { truncate_sig(&v, first) } else { r1 };
    }
    match sec.sci {
        None => {
            let (mut r, t) = v.round_places(places);
            tie = t;
            if t && o.tie_down {
                r = truncate_places(&v, places);
            }
            if o.carry_lost && r.int_digits() != v.int_digits() {
                r = Dec { digits: v.int_digits(), exp: v.exp.max(0) }.normalise();
            }
            rounded_zero = r.is_zero();
            int_text = render_int(&r.int_digits(), &sec.int_ph, sec.group, sp, o);
            let (ft, fd) = render_frac(&r.frac_digits(places as usize), &sec.frac_ph);
            frac_text = ft;
            frac_has_digit = fd;
        }
        Some((plus, zeros)) => {
            let (m, e) = if v.is_zero() {
                tie = false;
                rounded_zero = true;
                (Dec::zero(), 0)
            } else {
                let (mut r, t) = v.round_sig(1 + places as usize);
                tie = t;
                if t && o.tie_down {
                    r = truncate_sig(&v, 1 + places as usize);
                }
                rounded_zero = false;
                if o.carry_lost && (r.exp > v.exp || r.digits.first() != v.digits.first()) {
                    // 9.99995 -> "9.00" with the old exponent
                    (Dec { digits: vec![v.digits[0]], exp: 1 }, v.exp - 1)
                } else if o.sci_no_renorm && r.exp > v.exp {
                    // 9.5 -> "10" with the old exponent
                    (Dec { digits: vec![1], exp: 2 }, v.exp - 1)
                } else {
                    (Dec { digits: r.digits.clone(), exp: 1 }, r.exp - 1)
                }
            };
            let int = if m.is_zero() { vec![0] } else { m.int_digits() };
            int_text = render_int(&int, &sec.int_ph, false, sp, o);
            let (ft, fd) = render_frac(&m.frac_digits(places as usize), &sec.frac_ph);
            frac_text = ft;
            frac_has_digit = fd;
            tail.push('E');
            if e < 0 || (e == 0 && o.exp_zero_minus && !m.is_zero()) {
                tail.push('-');
            } else if plus {
                tail.push('+');
            }
            let es = format!("{}", e.abs());
            for _ in es.len()..zeros {
                tail.push('0');
            }
            if o.exp_digits_repeated && es.len() > zeros && zeros >= 2 {
                for k in 0..zeros {
                    tail.push_str(&es[..=es.len() - zeros + k]);
                }
            } else {
                tail.push_str(&es);
            }
        }
    }
    if sec.has_point {
        bodies.push(format!("{}{}{}{}", int_text, sp.decimal, frac_text, tail));
        if !frac_has_digit {
            bodies.push(format!("{}{}{}", int_text, frac_text, tail));
        }
    } else {
        bodies.push(format!("{}{}", int_text, tail));
    }
    let mut texts = vec![];
    let minus = auto_minus && negative && !o.no_minus;
    for with_minus in [true, false] {
        if with_minus && !minus {
            continue;
        }
        if !with_minus && minus && !rounded_zero {
            continue;
        }
        for b in &bodies {
            let mut out = String::new();
            if with_minus {
                out.push('-');
            }
            out.push_str(&sec.prefix);
            out.push_str(b);
            if sec.percent {
                out.push('%');
            }
            out.push_str(&sec.suffix);
            texts.push(out);
        }
    }
    Rendered { texts, tie, rounded_zero }
}

pub fn reference(n: &Num, f: &Fmt, sp: &Seps, o: &Opts) -> Rendered {
    let (sec, auto_minus) = if f.secs.len() == 2 && n.x < 0.0 { (&f.secs[1], false) } else { (&f.secs[0], true) };
    if o.exact_digits {
        // the digits the double itself prints (after the engine's own multiplication by 100 per %)
        let mut sec2 = sec.clone();
        let mut y = n.x.abs();
        if sec.percent {
            y *= 100.0;
            sec2.percent = false;
            sec2.suffix = format!("%{}", sec.suffix);
        }
        let d = shortest_dec(y);
        return render_section(&sec2, &d, n.x < 0.0, auto_minus, sp, o);
    }
    render_section(sec, &n.dec, n.x < 0.0, auto_minus, sp, o)
}

// ------------------------------------------------------------------------------------------------
// Judging
// ------------------------------------------------------------------------------------------------

fn only_digits(s: &str) -> String {
    s.chars().filter(|c| c.is_ascii_digit()).collect()
}

fn magnitude_class(n: &Num, sec: &Sec) -> &'static str {
    let mut v = n.dec.clone();
    if sec.percent {
        v = v.shift(2);
    }
    if v.is_zero() {
        "zero"
    } else if v.exp <= 0 {
        "below-1"
    } else if v.exp <= 15 {
        "1-to-1e15"
    } else {
        "above-1e15"
    }
}

fn kind_class(sec: &Sec) -> &'static str {
    if sec.sci.is_some() {
        "scientific"
    } else if sec.percent {
        "percent"
    } else {
        "fixed"
    }
}

/// Compares one (number, format, locale) with the engine. Returns (signature, case, detail) triples.
pub fn check_pair(n: &Num, f: &Fmt, loc_id: &str, locale: &Locale, sp: &Seps) -> Vec<(String, Value, String)> {
    let r = reference(n, f, sp, &Opts::default());
    let got = match crate::env::guarded(|| format_number(n.x, &f.code, locale)) {
        Ok(g) => g,
        Err(p) => {
            return vec![(
                format!("panic at={}", p.rsplit(" @ ").next().unwrap_or("?")),
                json!({"number": n.text, "format": f.code, "locale": loc_id}),
                format!("format_number({}, `{}`) panics: {}", n.text, f.code, p),
            )]
        }
    };
    if got.error.is_none() && r.texts.iter().any(|t| *t == got.text) {
        return vec![];
    }
    let case = json!({"number": n.text, "format": f.code, "locale": loc_id});
    let sec = if f.secs.len() == 2 && n.x < 0.0 { &f.secs[1] } else { &f.secs[0] };
    let want = &r.texts[0];
    let detail = format!(
        "format_number({}, `{}`, {}) gives `{}`{} but the reference gives `{}` (15-digit value 0.{}e{}{})",
        n.text,
        f.code,
        loc_id,
        got.text,
        got.error.as_ref().map(|e| format!(" error={}", e)).unwrap_or_default(),
        want,
        n.dec.digits.iter().map(|d| (b'0' + d) as char).collect::<String>(),
        n.dec.exp,
        if r.tie { ", exact tie at the displayed place" } else { "" }
    );
    if got.error.is_some() {
        return vec![(format!("format-error kind={}", kind_class(sec)), case, detail)];
    }
    if got.text.contains("inf") || got.text.contains("NaN") {
        return vec![(format!("non-finite-text kind={}", kind_class(sec)), case, detail)];
    }
    // smallest set of named deviations that reproduces the engine's text
    let applicable = |bit: usize| -> bool {
        match bit {
            0 => true,
            1 => sec.group,
            2 => n.beyond15,
            3 => sec.sci.is_some(),
            4 => n.x < 0.0 && f.secs.len() == 1,
            5 => true,
            6 => true,
            7 => sec.sci.is_some(),
            8 => sec.sci.is_some(),
            _ => false,
        }
    };
    let bits: Vec<usize> = (0..TOGGLES.len()).filter(|b| applicable(*b)).collect();
    let mut masks: Vec<u32> = vec![];
    for a in 0..bits.len() {
        masks.push(1 << bits[a]);
    }
    for a in 0..bits.len() {
        for b in a + 1..bits.len() {
            masks.push((1 << bits[a]) | (1 << bits[b]));
        }
    }
    for a in 0..bits.len() {
        for b in a + 1..bits.len() {
            for c in b + 1..bits.len() {
                masks.push((1 << bits[a]) | (1 << bits[b]) | (1 << bits[c]));
            }
        }
    }
    let mut best: Option<u32> = None;
    for mask in masks {
        let o = opts_of(mask);
        let v = reference(n, f, sp, &o);
        if o.tie_down && !v.tie {
            continue;
        }
        if v.texts.iter().any(|t| *t == got.text) {
            best = Some(mask);
            break;
        }
    }
    if let Some(mask) = best {
        let mut out = vec![];
        for (i, name) in TOGGLES.iter().enumerate() {
            if mask & (1 << i) != 0 {
                let ctx = match i {
                    0 => format!(" kind={}", kind_class(sec)),
                    4 => {
                        // is the magnitude the engine displays zero or exactly one unit of the last displayed place?
                        let p = sec.frac_ph.len() as i32;
                        let body: String = got
                            .text
                            .split('E')
                            .next()
                            .unwrap_or("")
                            .chars()
                            .filter(|c| c.is_ascii_digit() || c.to_string() == sp.decimal)
                            .collect();
                        let shown = body.replace(&sp.decimal, ".").parse::<f64>().unwrap_or(0.0);
                        let small = shown == 0.0 || (shown - 10f64.powi(-p)).abs() < 1e-12;
                        format!(" kind={} displayed={}", kind_class(sec), if small { "one-unit-of-the-last-place-or-zero" } else { "larger" })
                    }
                    5 | 6 => format!(" kind={} magnitude={}", kind_class(sec), magnitude_class(n, sec)),
                    _ => String::new(),
                };
                out.push((format!("{}{}", name, ctx), case.clone(), detail.clone()));
            }
        }
        return out;
    }
    // unexplained: describe the numeric relation
    let to_num = |s: &str| -> Option<f64> {
        let body: String = s.split('E').next().unwrap_or("").chars().filter(|c| c.is_ascii_digit() || c.to_string() == sp.decimal).collect();
        body.replace(&sp.decimal, ".").parse::<f64>().ok().or(if only_digits(s).is_empty() { Some(0.0) } else { None })
    };
    if sec.sci.is_some() && !n.dec.is_zero() {
        if let Some(m) = to_num(&got.text) {
            if m < 1.0 {
                return vec![(
                    "scientific-mantissa-below-1 (value just under a power of ten)".to_string(),
                    case,
                    detail,
                )];
            }
        }
    }
    let unit = 10f64.powi(-(sec.frac_ph.len() as i32));
    let off = match (to_num(&got.text), to_num(want)) {
        (Some(a), Some(b)) => {
            let d = ((a - b).abs() / unit).round();
            if d == 0.0 {
                "same-digits".to_string()
            } else if d == 1.0 {
                "one-unit".to_string()
            } else {
                "several-units".to_string()
            }
        }
        _ => "unparsed".to_string(),
    };
    vec![(
        format!(
            "unexplained kind={} magnitude={} off={} tie={}{}",
            kind_class(sec),
            magnitude_class(n, sec),
            off,
            r.tie,
            if sec.frac_ph.contains(&'?') || sec.int_ph.contains(&'?') { " with-?" } else { "" }
        ),
        case,
        detail,
    )]
}

// ------------------------------------------------------------------------------------------------
// Cross-check with ROUND and FIXED
// ------------------------------------------------------------------------------------------------

struct RoundModel {
    model: Model<'static>,
}

impl RoundModel {
    fn new() -> RoundModel {
        let mut model = Model::new_empty("c20", "en", "UTC", "en").expect("model");
        for p in 0..4 {
            let _ = model.set_user_input(0, 2, 1 + p, format!("=ROUND(A1,{})", p));
            let _ = model.set_user_input(0, 3, 1 + p, format!("=FIXED(A1,{},TRUE)", p));
        }
        RoundModel { model }
    }
}

fn plain_text(n: &Num, places: usize) -> (String, bool, bool) {
    let (r, tie) = n.dec.round_places(places as i32);
    let mut s = String::new();
    let int = r.int_digits();
    if int.is_empty() {
        s.push('0');
    } else {
        push_digits(&mut s, &int);
    }
    if places > 0 {
        s.push('.');
        push_digits(&mut s, &r.frac_digits(places));
    }
    (s, tie, r.is_zero())
}

fn cross_check(rm: &mut RoundModel, n: &Num) -> Vec<Disagreement> {
    let mut out = vec![];
    if n.x.abs() >= 1e15 || n.reduction_tie {
        return out;
    }
    let _ = rm.model.update_cell_with_number(0, 1, 1, n.x);
    rm.model.evaluate();
    for p in 0..4usize {
        let (text, tie, zero) = plain_text(n, p);
        let (rdec, _) = n.dec.round_places(p as i32);
        let want = rdec.to_f64(n.neg);
        let case = json!({"cross_check": n.text, "places": p});
        match rm.model.get_cell_value_by_index(0, 2, 1 + p as i32) {
            Ok(CellValue::Number(v)) => {
                if !eq15(v, want) {
                    out.push(Disagreement {
                        sig: format!("cross-check ROUND differs from decimal half-away rounding tie={}", tie),
                        case: case.clone(),
                        detail: format!("ROUND({},{}) gives {} but decimal rounding of the 15-digit value gives {}", n.text, p, v, want),
                    });
                }
            }
            other => out.push(Disagreement {
                sig: "cross-check ROUND gives no number".into(),
                case: case.clone(),
                detail: format!("ROUND({},{}) gives {:?}", n.text, p, other),
            }),
        }
        let want_text = if n.neg { format!("-{}", text) } else { text.clone() };
        match rm.model.get_cell_value_by_index(0, 3, 1 + p as i32) {
            Ok(CellValue::String(s)) => {
                let ok = s == want_text || (zero && s == text);
                if !ok {
                    out.push(Disagreement {
                        sig: format!("cross-check FIXED differs from decimal half-away rounding tie={}", tie),
                        case,
                        detail: format!("FIXED({},{},TRUE) gives `{}` but decimal rounding of the 15-digit value gives `{}`", n.text, p, s, want_text),
                    });
                }
            }
            other => out.push(Disagreement {
                sig: "cross-check FIXED gives no text".into(),
                case,
                detail: format!("FIXED({},{},TRUE) gives {:?}", n.text, p, other),
            }),
        }
    }
    out
}

// ------------------------------------------------------------------------------------------------

pub fn run(run: &mut Run) {
    let thorough = run.tier.thorough();
    let nums = numbers(thorough);
    let fmts = formats(thorough);
    // thorough: two locales on the full grid, the others on the quick grid of formats
    let quick_fmts = formats(false);
    let chunk = 256usize;
    let n_units = nums.len().div_ceil(chunk);
    let res = crate::env::par_units(n_units, |u| {
        let mut ds: std::collections::BTreeMap<String, (u64, Disagreement)> = std::collections::BTreeMap::new();
        let add = |ds: &mut std::collections::BTreeMap<String, (u64, Disagreement)>, sig: String, case: Value, detail: String| {
            match ds.get_mut(&sig) {
                Some(e) => {
                    e.0 += 1;
                    if case.to_string().len() < e.1.case.to_string().len() {
                        e.1 = Disagreement { sig, case, detail };
                    }
                }
                None => {
                    ds.insert(sig.clone(), (1, Disagreement { sig, case, detail }));
                }
            }
        };
        let mut calls = 0u64;
        let mut ties = 0u64;
        let mut nontrivial = 0u64;
        let mut outcomes: BTreeSet<u128> = BTreeSet::new();
        let mut rm = RoundModel::new();
        for n in nums.iter().skip(u * chunk).take(chunk) {
            if n.reduction_tie {
                continue;
            }
            for (li, loc_id) in LOCALES.iter().enumerate() {
                let locale = get_locale(loc_id).expect("locale");
                let sp = seps(locale);
                let fs = if thorough && li >= 2 { &quick_fmts } else { &fmts };
                for f in fs {
                    calls += 1;
                    for (sig, case, detail) in check_pair(n, f, loc_id, locale, &sp) {
                        add(&mut ds, sig, case, detail);
                    }
                    if li == 0 {
                        let r = reference(n, f, &sp, &Opts::default());
                        if r.tie {
                            ties += 1;
                        }
                        outcomes.insert(crate::env::digest(&r.texts[0]));
                        // non-trivial: rounding actually drops digits, or grouping/exponent is exercised
                        let sec = if f.secs.len() == 2 && n.x < 0.0 { &f.secs[1] } else { &f.secs[0] };
                        let mut v = n.dec.clone();
                        if sec.percent {
                            v = v.shift(2);
                        }
                        let drops = v.digits.len() as i32 - v.exp > sec.frac_ph.len() as i32;
                        if drops || sec.group || sec.sci.is_some() {
                            nontrivial += 1;
                        }
                    }
                }
            }
            for d in cross_check(&mut rm, n) {
                add(&mut ds, d.sig, d.case, d.detail);
            }
        }
        (ds, calls, ties, nontrivial, outcomes)
    });
    let mut calls = 0;
    let mut ties = 0;
    let mut outcomes: BTreeSet<u128> = BTreeSet::new();
    for r in res {
        match r {
            Ok((ds, c, t, nt, o)) => {
                for (_, (k, d)) in ds {
                    // merge counts: add the witness once, then bump the count
                    let sig = d.sig.clone();
                    run.add(d);
                    if let Some(e) = run.clusters.get_mut(&sig) {
                        e.0 += k - 1;
                    }
                }
                calls += c;
                ties += t;
                run.nontrivial += nt;
                outcomes.extend(o);
            }
            Err(e) => run.machinery_errors.push(format!("unit panicked: {}", e)),
        }
    }
    let skipped = nums.iter().filter(|n| n.reduction_tie).count();
    run.evaluations = calls + nums.len() as u64 * 8;
    run.states = nums.len() as u64 * fmts.len() as u64;
    run.transitions = calls + nums.len() as u64 * 8;
    run.traces = calls;
    run.distinct_outcomes = outcomes.len() as u64;
    run.rule = "a (number, format) pair of the first locale is non-trivial when the format drops digits of the number (rounding happens), or uses grouping or an exponent".into();
    run.bound = json!({
        "numbers": nums.len(),
        "number_family": if thorough { "0, +-d.ddd x 10^e (e in -6..=16), 2^53 +- 64, 1e300, 5e-324, 43 classic cases" } else { "0, +-d.dd x 10^e (e in -6..=16), 2^53 +- 64, 1e300, 5e-324, 43 classic cases" },
        "formats": fmts.len(),
        "formats_quick_grid": quick_fmts.len(),
        "locales": LOCALES,
        "locales_on_full_format_grid": if thorough { 2 } else { 6 },
        "format_calls": calls,
        "exact_ties_met": ties,
        "numbers_skipped_reduction_tie": skipped,
        "sample_formats": fmts.iter().step_by((fmts.len() / 12).max(1)).map(|f| f.code.clone()).collect::<Vec<_>>(),
    });
    run.sample(json!({"number": "2.5", "format": "0", "reference": "3"}));
    run.sample(json!({"number": "-1234.5", "format": "#,##0.00;(#,##0.00)", "reference": "(1,234.50)"}));
    run.sample(json!({"number": "9.995e5", "format": "0.00E+00", "reference": "1.00E+06"}));
    run.exhaustive = true;
    run.assume("reference semantics: value reduced to 15 significant decimal digits (half away from zero; numbers whose reduction is itself an exact tie are skipped), multiplied by 100 per %, rounded half away from zero at the format's decimals on the decimal digits; all integer digits are shown, missing ones padded by 0 (digit), ? (space), # (nothing); thousands separators every three emitted integer characters; trailing fraction zeros dropped at #, blanked at ?, the decimal separator is always written when the format has one; one-section formats put '-' in front of everything, the second section shows the absolute value; scientific: one integer placeholder, mantissa renormalised after rounding, E+ always signs the exponent, E- only negative ones");
    run.assume("not judged: the sign of a negative value that displays as zero (both accepted); scientific formats with several integer placeholders (engineering notation) and '?' with grouping are not generated");
    run.assume("cross-check: ROUND(x,p) and FIXED(x,p,TRUE) for p=0..3 through a model must equal the reference's decimal rounding (|x| < 1e15)");
    if thorough {
        run.assume("thorough: en and en-GB on the full format grid, es fr de it on the quick format grid (the locale only changes the two separator strings)");
    }
}

pub fn replay(case: &Value) -> Vec<Disagreement> {
    if let Some(t) = case["cross_check"].as_str() {
        let mut rm = RoundModel::new();
        let p = case["places"].as_u64().unwrap_or(0);
        return match num_of_text(t) {
            Some(n) => cross_check(&mut rm, &n).into_iter().filter(|d| d.case["places"].as_u64() == Some(p)).collect(),
            None => vec![],
        };
    }
    let text = case["number"].as_str().unwrap_or("0");
    let code = case["format"].as_str().unwrap_or("0");
    let loc = case["locale"].as_str().unwrap_or("en");
    let n = match num_of_text(text) {
        Some(n) => n,
        None => return vec![],
    };
    let all = formats(true);
    let f = match all.iter().chain(formats(false).iter()).find(|f| f.code == code) {
        Some(f) => f.clone(),
        None => return vec![],
    };
    let locale = match get_locale(loc) {
        Ok(l) => l,
        Err(_) => return vec![],
    };
    let sp = seps(locale);
    check_pair(&n, &f, loc, locale, &sp)
        .into_iter()
        .map(|(sig, case, detail)| Disagreement { sig, case, detail })
        .collect()
}

#[cfg(test)]
mod tests {
    use super::*;
    fn r(text: &str, code: &str) -> String {
        let n = num_of_text(text).unwrap();
        let f = formats(true).into_iter().find(|f| f.code == code).unwrap_or_else(|| panic!("no format {}", code));
        let sp = Seps { decimal: ".".into(), group: ",".into() };
        reference(&n, &f, &sp, &Opts::default()).texts[0].clone()
    }
    #[test]
    fn reference_examples() {
        assert_eq!(r("2.5", "0"), "3");
        assert_eq!(r("-2.5", "0"), "-3");
        assert_eq!(r("1234.5", "#,##0"), "1,235");
        assert_eq!(r("2.675", "0.00"), "2.68");
        assert_eq!(r("1.005", "0.00"), "1.01");
        assert_eq!(r("0.5", "#"), "1");
        assert_eq!(r("0.4", "#"), "");
        assert_eq!(r("0.4", "#.##"), ".4");
        assert_eq!(r("3", "0.#"), "3.");
        assert_eq!(r("5", "000"), "005");
        assert_eq!(r("5", "0,000"), "0,005");
        assert_eq!(r("1234567", "#,##0.00"), "1,234,567.00");
        assert_eq!(r("0.125", "0.00%"), "12.50%");
        assert_eq!(r("9.995e5", "0.00E+00"), "1.00E+06");
        assert_eq!(r("1.23e-5", "0.00E+00"), "1.23E-05");
        assert_eq!(r("5", "0.00E+00"), "5.00E+00");
        assert_eq!(r("5", "0E-0"), "5E0");
        assert_eq!(r("0.05", "0E-0"), "5E-2");
        assert_eq!(r("-1234.5", "#,##0.00;(#,##0.00)"), "(1,234.50)");
        assert_eq!(r("1.5", "0.0?"), "1.5 ");
        assert_eq!(r("9007199254740993", "0"), "9007199254740990");
        assert_eq!(r("1e300", "0").len(), 301);
        assert_eq!(r("0.30000000000000004", "0.000"), "0.300");
        assert_eq!(r("5", "\"x\"0.00"), "x5.00");
        assert_eq!(r("-5", "\"x\"0.00"), "-x5.00");
    }
}

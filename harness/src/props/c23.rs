//! C23 Function and error names round-trip in every language (complete sweep).

use crate::report::{Disagreement, Run};
use ironcalc_base::expressions::parser::{Node, Parser};
use ironcalc_base::expressions::token::{get_error_by_english_name, get_error_by_name, Error};
use ironcalc_base::expressions::types::CellReferenceRC;
use ironcalc_base::language::get_language;
use ironcalc_base::locale::get_locale;
use ironcalc_base::Function;
use serde_json::{json, Value};
use std::collections::HashMap;

pub const LANGS: [&str; 5] = ["en", "es", "fr", "de", "it"];

pub fn all_errors() -> Vec<Error> {
    vec![
        Error::REF,
        Error::NAME,
        Error::VALUE,
        Error::DIV,
        Error::NA,
        Error::NUM,
        Error::ERROR,
        Error::NIMPL,
        Error::SPILL,
        Error::CALC,
        Error::CIRC,
        Error::NULL,
    ]
}

fn parse_in(lang: &str, text: &str) -> Node {
    let language = get_language(lang).expect("language");
    let locale = get_locale("en").expect("locale");
    let mut p = Parser::new(
        vec!["Sheet1".to_string()],
        vec![],
        HashMap::new(),
        locale,
        language,
    );
    p.parse(
        text,
        &CellReferenceRC {
            sheet: "Sheet1".to_string(),
            row: 1,
            column: 1,
        },
    )
}

fn check_case(case: &Value) -> Vec<Disagreement> {
    let mut out = vec![];
    let kind = case["kind"].as_str().unwrap_or("");
    let mk = |sig: String, detail: String| Disagreement {
        sig,
        case: case.clone(),
        detail,
    };
    match kind {
        "fn" => {
            let lang = case["lang"].as_str().unwrap_or("en");
            let idx = case["index"].as_u64().unwrap_or(0) as usize;
            let f = match Function::into_iter().nth(idx) {
                Some(f) => f,
                None => return out,
            };
            let language = get_language(lang).expect("language");
            let name = f.to_localized_name(language);
            let back = language.functions.lookup(&name);
            if back.as_ref() != Some(&f) {
                out.push(mk(
                    format!("fn-lookup lang={} fn={:?}", lang, f),
                    format!("localized name `{}` of {:?} looks up to {:?}", name, f, back),
                ));
            }
            // through the real parser (LAMBDA / LET have their own syntax)
            if !matches!(f, Function::Lambda | Function::Let) {
                let node = parse_in(lang, &format!("{}(1)", name));
                let ok = matches!(&node, Node::FunctionKind { kind, .. } if *kind == f);
                if !ok {
                    out.push(mk(
                        format!("fn-parse lang={} fn={:?}", lang, f),
                        format!("`{}(1)` parsed in {} gives {:?}", name, lang, short(&node)),
                    ));
                }
                // lower case spelling must resolve too
                let node = parse_in(lang, &format!("{}(1)", name.to_lowercase()));
                let ok = matches!(&node, Node::FunctionKind { kind, .. } if *kind == f);
                if !ok {
                    out.push(mk(
                        format!("fn-parse-lower lang={} fn={:?}", lang, f),
                        format!(
                            "`{}(1)` parsed in {} gives {:?}",
                            name.to_lowercase(),
                            lang,
                            short(&node)
                        ),
                    ));
                }
            }
            if lang == "en" {
                let x = f.to_xlsx_string();
                if !matches!(f, Function::Lambda | Function::Let) {
                    let node = parse_in("en", &format!("{}(1)", x));
                    let ok = matches!(&node, Node::FunctionKind { kind, .. } if *kind == f);
                    if !ok {
                        out.push(mk(
                            format!("fn-xlsx fn={:?}", f),
                            format!("xlsx name `{}(1)` parses to {:?}", x, short(&node)),
                        ));
                    }
                } else {
                    let stripped = x.trim_start_matches("_xlfn._xlws.").trim_start_matches("_xlfn.");
                    if language.functions.lookup(stripped).as_ref() != Some(&f) {
                        out.push(mk(
                            format!("fn-xlsx fn={:?}", f),
                            format!("xlsx name `{}` does not look up to {:?}", x, f),
                        ));
                    }
                }
            }
        }
        "distinct" => {
            let lang = case["lang"].as_str().unwrap_or("en");
            let language = get_language(lang).expect("language");
            let mut seen: HashMap<String, Function> = HashMap::new();
            let mut names: Vec<(String, Function)> = Function::into_iter()
                .map(|f| (f.to_localized_name(language).to_uppercase(), f))
                .collect();
            names.sort_by(|a, b| a.0.cmp(&b.0));
            for (n, f) in names {
                if let Some(prev) = seen.get(&n) {
                    out.push(mk(
                        format!("fn-duplicate lang={} name={}", lang, n),
                        format!("{:?} and {:?} share the name `{}` in {}", prev, f, n, lang),
                    ));
                } else {
                    if !matches!(f, Function::True | Function::False)
                        && (n == language.booleans.r#true.to_uppercase()
                            || n == language.booleans.r#false.to_uppercase())
                    {
                        out.push(mk(
                            format!("fn-equals-boolean lang={} name={}", lang, n),
                            format!("{:?} is named like a boolean literal in {}", f, lang),
                        ));
                    }
                    seen.insert(n, f);
                }
            }
        }
        "err" => {
            let lang = case["lang"].as_str().unwrap_or("en");
            let idx = case["index"].as_u64().unwrap_or(0) as usize;
            let e = all_errors()[idx].clone();
            let language = get_language(lang).expect("language");
            let name = e.to_localized_error_string(language);
            let back = get_error_by_name(&name, language);
            if back.as_ref() != Some(&e) {
                out.push(mk(
                    format!("err-lookup lang={} err={:?}", lang, e),
                    format!("localized `{}` of {:?} maps back to {:?}", name, e, back),
                ));
            }
            let node = parse_in(lang, &name);
            if node != Node::ErrorKind(e.clone()) {
                out.push(mk(
                    format!("err-parse lang={} err={:?}", lang, e),
                    format!("`{}` parsed in {} gives {:?}", name, lang, short(&node)),
                ));
            }
            // errors of different kinds must have different names in this language
            for (j, other) in all_errors().iter().enumerate() {
                if j != idx && other.to_localized_error_string(language) == name {
                    out.push(mk(
                        format!("err-duplicate lang={} err={:?}", lang, e),
                        format!("{:?} and {:?} share `{}`", e, other, name),
                    ));
                }
            }
        }
        "err-xlsx" => {
            let idx = case["index"].as_u64().unwrap_or(0) as usize;
            let e = all_errors()[idx].clone();
            let name = format!("{}", e);
            let back = get_error_by_english_name(&name);
            if back.as_ref() != Some(&e) {
                out.push(mk(
                    format!("err-xlsx-name err={:?}", e),
                    format!(
                        "the name written to files `{}` of {:?} is read back as {:?}",
                        name, e, back
                    ),
                ));
            }
            // and the English parser reads it as a formula literal too (formulas in files are English)
            let node = parse_in("en", &name);
            if node != Node::ErrorKind(e.clone()) {
                out.push(mk(
                    format!("err-xlsx-parse err={:?}", e),
                    format!("`{}` parsed in English gives {:?}", name, short(&node)),
                ));
            }
            // import path: a one-cell package with t="e"
            match crate::xlsxutil::import_error_cell(&name) {
                Ok(got) => {
                    if got != format!("{:?}", e) {
                        out.push(mk(
                            format!("err-xlsx-import err={:?}", e),
                            format!(
                                "a file cell <c t=\"e\"><v>{}</v></c> imports as {} (expected {:?})",
                                name, got, e
                            ),
                        ));
                    }
                }
                Err(err) => out.push(mk(
                    format!("err-xlsx-import err={:?}", e),
                    format!("import of a file with error cell `{}` failed: {}", name, err),
                )),
            }
        }
        _ => {}
    }
    out
}

fn short(n: &Node) -> String {
    let s = format!("{:?}", n);
    if s.len() > 160 {
        format!("{}…", &s[..160])
    } else {
        s
    }
}

pub fn cases() -> Vec<Value> {
    let mut v = vec![];
    let nf = Function::into_iter().count();
    for lang in LANGS {
        for i in 0..nf {
            v.push(json!({"kind":"fn","lang":lang,"index":i}));
        }
        v.push(json!({"kind":"distinct","lang":lang}));
        for i in 0..all_errors().len() {
            v.push(json!({"kind":"err","lang":lang,"index":i}));
        }
    }
    for i in 0..all_errors().len() {
        v.push(json!({"kind":"err-xlsx","index":i}));
    }
    v
}

pub fn run(run: &mut Run) {
    let cs = cases();
    run.rule = "every (function, language), (language) distinctness, (error, language) and (error, xlsx form) case; non-trivial = a case whose localized name differs from the English one or that goes through the parser".into();
    run.bound = json!({"functions": Function::into_iter().count(), "languages": LANGS, "errors": all_errors().len()});
    let chunk = 64;
    let n_units = cs.len().div_ceil(chunk);
    let res = crate::env::par_units(n_units, |u| {
        let mut ds = vec![];
        let mut names = vec![];
        for c in cs.iter().skip(u * chunk).take(chunk) {
            ds.extend(check_case(c));
            if c["kind"] == "fn" {
                let lang = c["lang"].as_str().unwrap_or("en");
                let f = Function::into_iter()
                    .nth(c["index"].as_u64().unwrap_or(0) as usize)
                    .unwrap();
                names.push(f.to_localized_name(get_language(lang).unwrap()));
            }
        }
        (ds, names)
    });
    let mut distinct = std::collections::HashSet::new();
    for r in res {
        match r {
            Ok((ds, names)) => {
                run.add_all(ds);
                for n in names {
                    distinct.insert(n);
                }
            }
            Err(e) => run.machinery_errors.push(format!("unit panicked: {}", e)),
        }
    }
    run.evaluations = cs.len() as u64;
    run.states = cs.len() as u64;
    run.transitions = cs.len() as u64 * 3;
    run.traces = cs.len() as u64;
    run.nontrivial = distinct.len() as u64;
    run.distinct_outcomes = distinct.len() as u64;
    run.sample(cs[0].clone());
    run.sample(cs[cs.len() / 2].clone());
    run.sample(cs[cs.len() - 1].clone());
    run.exhaustive = true;
    run.assume("Function::into_iter() lists every built-in function (the enum's own iterator)");
    run.assume("the 12 error kinds are listed by hand in the harness; a 13th kind would need adding");
}

pub fn replay(case: &Value) -> Vec<Disagreement> {
    check_case(case)
}

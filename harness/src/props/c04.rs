//! C04 (not built yet)
use crate::report::{Disagreement, Run};
use serde_json::Value;

pub fn run(run: &mut Run) {
    run.machinery_errors.push("C04: check not built yet".into());
}

pub fn replay(_case: &Value) -> Vec<Disagreement> {
    vec![]
}

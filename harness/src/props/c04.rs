//! C04 A failed operation changes nothing (workbook, values, view, undo/redo history).

use crate::hist;
use crate::obs::{self, ObsOpts};
use crate::ops::Op;
use crate::props::c01::classes;
use crate::report::{Disagreement, Run};
use crate::seeds;
use serde_json::{json, Value};

fn s(x: &str) -> String {
    x.to_string()
}

/// Calls with (probably) invalid arguments, one per invalid-argument class of every public operation.
/// A call that happens to be accepted in some state is simply not judged there.
pub fn invalid_catalogue() -> Vec<Op> {
    use Op::*;
    const LR: i32 = 1_048_576;
    const LC: i32 = 16_384;
    vec![
        Input(9, 1, 1, s("x")),
        Input(0, 0, 1, s("x")),
        Input(0, 1, 0, s("x")),
        Input(0, -1, 1, s("x")),
        Input(0, LR + 1, 1, s("x")),
        Input(0, 1, LC + 1, s("x")),
        Input(0, 7, 6, s("x")), // inside the CSE array of the basic seed
        ArrayFormula(9, 1, 1, 1, 1, s("=1")),
        ArrayFormula(0, 0, 1, 1, 1, s("=1")),
        ArrayFormula(0, 1, 1, 0, 1, s("=1")),
        ArrayFormula(0, 1, 1, 1, -1, s("=1")),
        ArrayFormula(0, LR, 1, 1, 2, s("=1")),
        ArrayFormula(0, 1, LC, 2, 1, s("=1")),
        ArrayFormula(0, 7, 6, 1, 2, s("=1")), // overlaps an existing array
        ClearContents(9, 1, 1, 1, 1),
        ClearContents(0, 0, 1, 1, 1),
        ClearContents(0, 7, 6, 1, 1), // splits an array
        ClearAll(9, 1, 1, 1, 1),
        ClearAll(0, 1, 0, 1, 1),
        ClearAll(0, 7, 6, 1, 1),
        ClearFormatting(9, 1, 1, 1, 1),
        ClearFormatting(0, 0, 0, 1, 1),
        Style(9, 1, 1, 1, 1, s("font.b"), s("true")),
        Style(0, 1, 1, 1, 1, s("font.b"), s("maybe")),
        Style(0, 1, 1, 2, 2, s("font.nope"), s("true")),
        Style(0, 1, 1, 2, 2, s("fill.color"), s("red")),
        Style(0, 1, 1, 2, 2, s("font.color"), s("#12345")),
        Style(0, 1, 1, 2, 2, s("alignment.horizontal"), s("diagonal")),
        Style(0, 1, 1, 2, 2, s("num_fmt"), s("")),
        Style(0, 0, 1, 1, 1, s("font.b"), s("true")),
        Style(0, 1, 1, 2, 1, s("font.size_delta"), s("-11")), // valid for none / some of the cells only
        Style(0, 1, 1, 2, 1, s("font.size_delta"), s("x")),
        Style(0, 1, 1, 1, 2, s("font.size_delta"), s("-100")),
        Border(9, 1, 1, 1, 1, s("All"), s("thin"), s("#000000")),
        Border(0, 0, 1, 1, 1, s("All"), s("thin"), s("#000000")),
        CreateNamedStyle(s(""), false),
        CreateNamedStyle(s("normal"), false),
        CreateNamedStyle(s("Normal"), true),
        UpdateNamedStyle(s("nonexistent"), s("x"), false),
        UpdateNamedStyle(s("normal"), s(""), false),
        DeleteNamedStyle(s("nonexistent")),
        DeleteNamedStyle(s("normal")),
        ApplyNamedStyle(0, 1, 1, 2, 2, s("nonexistent")),
        InsertRows(9, 1, 1),
        InsertRows(0, 0, 1),
        InsertRows(0, 1, 0),
        InsertRows(0, 1, -1),
        InsertRows(0, LR + 1, 1),
        InsertRows(0, 1, LR),
        InsertRows(0, 7, 1), // splits the arrays of the basic seed
        InsertCols(9, 1, 1),
        InsertCols(0, 0, 1),
        InsertCols(0, 1, 0),
        InsertCols(0, 1, -1),
        InsertCols(0, LC + 1, 1),
        InsertCols(0, 1, LC),
        DeleteRows(9, 1, 1),
        DeleteRows(0, 0, 1),
        DeleteRows(0, 1, 0),
        DeleteRows(0, 1, -1),
        DeleteRows(0, LR, 2),
        DeleteRows(0, 7, 1),
        DeleteCols(9, 1, 1),
        DeleteCols(0, 0, 1),
        DeleteCols(0, 1, 0),
        DeleteCols(0, 1, -1),
        DeleteCols(0, LC, 2),
        MoveRows(9, 1, 1, 1),
        MoveRows(0, 0, 1, 1),
        MoveRows(0, 1, 1, -1),
        MoveRows(0, LR, 1, 1),
        MoveRows(0, 6, 1, 3), // splits an array
        MoveCols(9, 1, 1, 1),
        MoveCols(0, 0, 1, 1),
        MoveCols(0, 1, 1, -1),
        MoveCols(0, LC, 1, 1),
        // groups of lines whose first line would land on the grid and whose last would not (directly, or because
        // hidden lines in the landing zone lengthen the move: see the edge start states)
        MoveCols(0, LC - 5, 2, 2),
        MoveCols(0, LC - 5, 2, 5),
        MoveCols(0, LC - 2, 2, 1),
        MoveCols(0, 5, 2, -3),
        MoveCols(0, 5, 2, -4),
        MoveRows(0, LR - 5, 2, 2),
        MoveRows(0, LR - 5, 2, 5),
        MoveRows(0, LR - 2, 2, 1),
        MoveRows(0, 5, 2, -3),
        MoveRows(0, 5, 2, -4),
        RowsHeight(9, 1, 1, 30.0),
        RowsHeight(0, 0, 1, 30.0),
        RowsHeight(0, 1, 2, -1.0),
        RowsHeight(0, LR - 1, LR + 1, 30.0), // runs off the grid after valid rows
        ColsWidth(9, 1, 1, 30.0),
        ColsWidth(0, 0, 1, 30.0),
        ColsWidth(0, 1, 2, -1.0),
        ColsWidth(0, LC - 1, LC + 1, 30.0),
        RowsHidden(9, 1, 1, true),
        RowsHidden(0, 0, 1, true),
        RowsHidden(0, LR - 1, LR + 1, true),
        ColsHidden(9, 1, 1, true),
        ColsHidden(0, 0, 1, true),
        ColsHidden(0, LC - 1, LC + 1, true),
        DeleteSheet(9),
        DuplicateSheet(9),
        RenameSheet(9, s("x")),
        RenameSheet(0, s("")),
        RenameSheet(0, s("a/b")),
        RenameSheet(0, s("a[b]")),
        RenameSheet(0, s("Sheet2")),
        RenameSheet(0, s("SHEET2")),
        RenameSheet(0, s("0123456789012345678901234567890123")),
        MoveSheet(9, 0),
        MoveSheet(0, 9),
        HideSheet(9),
        UnhideSheet(9),
        SheetColor(9, s("#FF0000")),
        SheetColor(0, s("red")),
        SheetColor(0, s("#GG0000")),
        FrozenRows(9, 1),
        FrozenRows(0, -1),
        FrozenRows(0, LR + 1),
        FrozenCols(9, 1),
        FrozenCols(0, -1),
        FrozenCols(0, LC + 1),
        GridLines(9, true),
        NewName(s("1abc"), None, s("Sheet1!$A$1")),
        NewName(s("A1"), None, s("Sheet1!$A$1")),
        NewName(s("a b"), None, s("Sheet1!$A$1")),
        NewName(s("nm"), None, s("Sheet1!$A$2")),
        NewName(s("NM"), None, s("Sheet1!$A$2")),
        NewName(s("ok1"), Some(9), s("Sheet1!$A$1")),
        NewName(s("ok2"), None, s("=+")),
        NewName(s("TRUE"), None, s("Sheet1!$A$1")),
        UpdateName(s("nonexistent"), None, s("y"), None, s("Sheet1!$A$1")),
        UpdateName(s("nm"), None, s("1x"), None, s("Sheet1!$A$1")),
        UpdateName(s("nm"), None, s("nm"), Some(9), s("Sheet1!$A$1")),
        UpdateName(s("nm"), None, s("loc"), Some(1), s("Sheet1!$A$1")),
        UpdateName(s("nm"), None, s("nm"), None, s("=+")),
        DeleteName(s("nonexistent"), None),
        DeleteName(s("nm"), Some(0)),
        DeleteName(s("nm"), Some(9)),
        SetLink(9, 1, 1, s("https://x"), None),
        SetLink(0, 0, 1, s("https://x"), None),
        SetLink(0, 1, 1, s(""), None),
        SetLink(0, 7, 6, s("https://x"), Some(s("label"))),
        SetInternalLink(0, 1, 1, s(""), None),
        DeleteLink(9, 1, 1),
        DeleteLink(0, 0, 1),
        DeleteLink(0, 3, 3),
        AddCf(9, s("A1:A2"), s("A1>1")),
        AddCf(0, s(""), s("A1>1")),
        AddCf(0, s("A0:B2"), s("A1>1")),
        AddCf(0, s("nonsense"), s("A1>1")),
        AddCf(0, s("A1:A2"), s("=+")),
        UpdateCf(9, 0, s("A1:A2"), s("A1>1")),
        UpdateCf(0, 7, s("A1:A2"), s("A1>1")),
        UpdateCf(0, 0, s("nonsense"), s("A1>1")),
        DeleteCf(9, 0),
        DeleteCf(0, 7),
        RaiseCf(0, 7),
        LowerCf(0, 7),
        RaiseCf(9, 0),
        Paste(0, 1, 1, 2, 1, 0, LR, 1, false), // target runs off the grid
        Paste(0, 1, 1, 1, 2, 0, 1, LC, true),
        Paste(0, 1, 1, 2, 2, 0, 6, 6, false), // onto an array
        Paste(0, 1, 1, 2, 2, 0, 7, 5, true),
        PasteCsv(9, 1, 1, s("1")),
        PasteCsv(0, 0, 1, s("1")),
        PasteCsv(0, LR, 1, s("1\n2")),
        PasteCsv(0, 7, 6, s("1")),
        AutoFillRows(9, 1, 1, 1, 1, 3),
        AutoFillRows(0, 1, 1, 1, 1, 0),
        AutoFillRows(0, 1, 1, 1, 1, LR + 1),
        AutoFillRows(0, 1, 6, 1, 1, 7),
        AutoFillCols(9, 1, 1, 1, 1, 3),
        AutoFillCols(0, 1, 1, 1, 1, 0),
        AutoFillCols(0, 1, 1, 1, 1, LC + 1),
        SetLocale(s("xx")),
        SetLocale(s("")),
        SetTimezone(s("Mars/Olympus")),
        SetTimezone(s("")),
        SetLanguage(s("xx")),
        SelSheet(9),
        SelCell(0, 1),
        SelCell(1, LC + 1),
        SelRange(1, 1, 0, 1),
        SelRange(3, 3, 2, 2),
        AreaSelecting(0, 1),
        ExpandRange(s("Nonsense")),
    ]
}

pub struct Out {
    pub ds: Vec<Disagreement>,
    pub judged: u64,
    pub accepted: u64,
    pub steps: u64,
    pub digests: Vec<u128>,
}

/// history = ops then `undos` undo steps; then the call under test.
pub fn judge_call(seed: &'static str, ops: &[Op], undos: usize, call: &Op) -> Option<(Vec<Disagreement>, bool, u64, u128)> {
    let o = ObsOpts { view: true, ..Default::default() };
    let case = json!({"seed": seed, "ops": ops, "undos": undos, "call": call});
    let build = || -> Option<ironcalc_base::UserModel<'static>> {
        let (mut um, fail) = hist::replay(seed, ops);
        if fail.is_some() {
            return None;
        }
        for _ in 0..undos {
            if um.undo().is_err() {
                return None;
            }
        }
        Some(um)
    };
    let mut a = build()?;
    if undos > a.verif_history_depths().1 {
        return None; // fewer entries than undos asked for: same state as a smaller `undos`
    }
    let before = obs::observe(&a, &o);
    let d_before = a.verif_history_depths();
    let q_before = a.verif_send_queue_len();
    let mut ds = vec![];
    let mut steps = 1u64;
    let r = crate::env::guarded(|| call.apply(&mut a));
    let e = match r {
        Err(p) => {
            ds.push(Disagreement {
                sig: format!("panic call={} at={}", call.kind(), p.split(" @ ").last().unwrap_or("")),
                case,
                detail: format!("{:?} panicked: {}", call, p),
            });
            return Some((ds, true, steps, 0));
        }
        Ok(Ok(())) => return Some((ds, false, steps, 0)),
        Ok(Err(e)) => e,
    };
    let mut after = obs::observe(&a, &o);
    let mut before = before;
    // composite harness operations select a range/sheet through the public selection calls BEFORE the call
    // under test; that prelude succeeded and legitimately moved the view, so the view is not compared for them
    if matches!(call, Op::ApplyNamedStyle(..) | Op::PasteStyles(..) | Op::Paste(..) | Op::PasteCsv(..)) {
        let is_view = |k: &String| k.ends_with(".view") || k.starts_with("wb.view");
        before.retain(|k, _| !is_view(k));
        after.retain(|k, _| !is_view(k));
    }
    let d_after = a.verif_history_depths();
    let digest = obs::digest(&before) ^ crate::env::digest(&format!("{:?}", call));
    if after != before {
        let df = obs::diff(&before, &after);
        ds.push(Disagreement {
            sig: format!("failed-call-changed-state call={} fields={}", call.kind(), classes(&df)),
            case: case.clone(),
            detail: format!("{:?} returned Err({}) but changed the workbook/view:\n{}", call, e, obs::diff_text(&df, 8)),
        });
        return Some((ds, true, steps, digest));
    }
    if d_after != d_before {
        ds.push(Disagreement {
            sig: format!("failed-call-changed-history call={}", call.kind()),
            case: case.clone(),
            detail: format!(
                "{:?} returned Err({}) but the (undo, redo) depths went from {:?} to {:?}",
                call, e, d_before, d_after
            ),
        });
        return Some((ds, true, steps, digest));
    }
    if a.verif_send_queue_len() != q_before {
        ds.push(Disagreement {
            sig: format!("failed-call-queued-diffs call={}", call.kind()),
            case: case.clone(),
            detail: format!("{:?} returned Err({}) but queued diffs for replicas", call, e),
        });
        return Some((ds, true, steps, digest));
    }
    // lock-step walk: undo to the bottom, redo to the top, against a twin that never saw the failed call
    let mut b = build()?;
    let no_view = ObsOpts::default();
    for phase in 0..2 {
        loop {
            let can = if phase == 0 { b.can_undo() } else { b.can_redo() };
            let can_a = if phase == 0 { a.can_undo() } else { a.can_redo() };
            if can != can_a {
                ds.push(Disagreement {
                    sig: format!("failed-call-changed-history call={}", call.kind()),
                    case: case.clone(),
                    detail: format!("after the failed {:?} can_{} differs from the twin", call, if phase == 0 { "undo" } else { "redo" }),
                });
                return Some((ds, true, steps, digest));
            }
            if !can {
                break;
            }
            let ra = crate::env::guarded(|| if phase == 0 { a.undo() } else { a.redo() });
            let rb = crate::env::guarded(|| if phase == 0 { b.undo() } else { b.redo() });
            steps += 2;
            let ok_a = matches!(ra, Ok(Ok(())));
            let ok_b = matches!(rb, Ok(Ok(())));
            if ok_a != ok_b {
                ds.push(Disagreement {
                    sig: format!("failed-call-changed-undo-behaviour call={}", call.kind()),
                    case: case.clone(),
                    detail: format!("after the failed {:?}, {} returns {:?} but {:?} on the twin", call, if phase == 0 { "undo" } else { "redo" }, ra, rb),
                });
                return Some((ds, true, steps, digest));
            }
            if !ok_b {
                break;
            }
            let oa = obs::observe(&a, &no_view);
            let ob = obs::observe(&b, &no_view);
            if oa != ob {
                let df = obs::diff(&ob, &oa);
                ds.push(Disagreement {
                    sig: format!("failed-call-changed-undo-behaviour call={} fields={}", call.kind(), classes(&df)),
                    case: case.clone(),
                    detail: format!(
                        "after the failed {:?}, walking the history ({}) gives a different workbook than on the twin:\n{}",
                        call,
                        if phase == 0 { "undo" } else { "redo" },
                        obs::diff_text(&df, 6)
                    ),
                });
                return Some((ds, true, steps, digest));
            }
        }
    }
    Some((ds, true, steps, digest))
}

pub fn run(run: &mut Run) {
    let thorough = run.tier.thorough();
    let core = seeds::alphabet_core();
    let mut calls = invalid_catalogue();
    let n_invalid = calls.len();
    calls.extend(seeds::alphabet_full()); // valid operations that fail in some states are judged too
    // states: (seed, ops, undos)
    let mut states: Vec<(&'static str, Vec<Op>, usize)> = vec![];
    for seed in seeds::SEEDS {
        states.push((seed, vec![], 0));
        let alpha: Vec<Op> = if thorough { seeds::alphabet_full() } else { core.iter().step_by(2).cloned().collect() };
        for op in &alpha {
            states.push((seed, vec![op.clone()], 0));
            states.push((seed, vec![op.clone()], 1));
        }
    }
    if thorough {
        for a in &core {
            for b in &core {
                for u in 0..=2 {
                    states.push(("basic", vec![a.clone(), b.clone()], u));
                }
            }
        }
    } else {
        for a in core.iter().step_by(6) {
            for b in core.iter().step_by(5) {
                for u in [0usize, 1] {
                    states.push(("basic", vec![a.clone(), b.clone()], u));
                }
            }
        }
    }
    // edge start states: content, sizes and hidden lines next to the last columns / rows and next to the first ones
    {
        use Op::*;
        const LR: i32 = 1_048_576;
        const LC: i32 = 16_384;
        let right = vec![
            Input(0, 1, LC - 5, s("a")),
            Input(0, 1, LC - 4, s("b")),
            Input(0, 1, LC, s("c")),
            ColsWidth(0, LC - 4, LC - 4, 50.0),
            ColsHidden(0, LC - 3, LC - 1, true),
        ];
        let bottom = vec![
            Input(0, LR - 5, 1, s("a")),
            Input(0, LR - 4, 1, s("b")),
            Input(0, LR, 1, s("c")),
            RowsHeight(0, LR - 4, LR - 4, 50.0),
            RowsHidden(0, LR - 3, LR - 1, true),
        ];
        let topleft = vec![
            Input(0, 5, 5, s("a")),
            Input(0, 6, 6, s("b")),
            ColsHidden(0, 2, 4, true),
            RowsHidden(0, 2, 4, true),
        ];
        for st in [right, bottom, topleft] {
            for u in [0usize, 1] {
                states.push(("empty", st.clone(), u));
                states.push(("basic", st.clone(), u));
            }
        }
    }
    let n_states = states.len();
    let res = crate::env::par_units(n_states, |u| {
        let (seed, ops, undos) = &states[u];
        let mut out = Out { ds: vec![], judged: 0, accepted: 0, steps: 0, digests: vec![] };
        // skip states whose history fails
        let (_, fail) = hist::replay(seed, ops);
        if fail.is_some() {
            return out;
        }
        for call in &calls {
            if let Some((ds, judged, steps, dg)) = judge_call(seed, ops, *undos, call) {
                if judged {
                    out.judged += 1;
                    out.digests.push(dg);
                } else {
                    out.accepted += 1;
                }
                out.steps += steps + ops.len() as u64 + *undos as u64;
                out.ds.extend(ds);
            }
        }
        out
    });
    let mut outcomes = std::collections::HashSet::new();
    let mut accepted = 0u64;
    for r in res {
        match r {
            Ok(o) => {
                run.evaluations += o.judged + o.accepted;
                run.nontrivial += o.judged;
                run.traces += o.judged;
                run.transitions += o.steps;
                run.states += 1;
                accepted += o.accepted;
                for d in o.digests {
                    outcomes.insert(d);
                }
                run.add_all(o.ds);
            }
            Err(e) => run.machinery_errors.push(e),
        }
    }
    run.distinct_outcomes = outcomes.len() as u64;
    run.bound = json!({"start_states": n_states, "invalid_call_catalogue": n_invalid, "calls_per_state": calls.len(),
        "calls_accepted_not_judged": accepted, "hash_seed": crate::env::hash_seed()});
    run.rule = "every start state (seed workbook · history of length <=1 or 2 · k undos, so that redo lists are non-empty) × every call of the invalid-argument catalogue and of the normal alphabet; a call is judged iff it returns Err (or panics): full observation incl. view, undo/redo depths and outgoing queue must be unchanged, then the model and a twin that never saw the call are undone to the bottom and redone to the top in lock-step with equal observations. non-trivial = judged (failing) calls, distinct by (state, call)".into();
    run.sample(json!({"seed":"basic","ops":[],"undos":0,"call":calls[0]}));
    run.sample(json!({"seed":"basic","ops":[core[0]],"undos":1,"call":calls[n_invalid - 10]}));
    run.sample(json!({"seed":"empty","ops":[core[22]],"undos":0,"call":calls[60]}));
    run.assume("invalid-argument classes are those of the catalogue (listed in the harness); other invalid arguments are not covered");
}

pub fn replay(case: &Value) -> Vec<Disagreement> {
    let seed = hist::seed_name(case["seed"].as_str().unwrap_or("empty"));
    let ops: Vec<Op> = serde_json::from_value(case["ops"].clone()).unwrap_or_default();
    let undos = case["undos"].as_u64().unwrap_or(0) as usize;
    match serde_json::from_value::<Op>(case["call"].clone()) {
        Ok(call) => judge_call(seed, &ops, undos, &call).map(|x| x.0).unwrap_or_default(),
        Err(_) => vec![],
    }
}

//! C19 Typed numbers are recognised exactly.
//!
//! Space: every string of length 1..=L over the 16 symbols `0 1 5 . , - + e E % $ € £ space / :` (quick L=5,
//! thorough L=6) plus a date family (every a s1 b s2 c with a,b,c from 22 digit groups and s1,s2 from `/ - .`),
//! each in the six locales, typed into a fresh cell through `Model::set_user_input`.
//! Oracle: the three-valued recogniser of numrec.rs (written from the statement).

use crate::fnum::{cell_kind, eq15, for_each_with_prefix, Kind, LOCALES};
use crate::numrec::{sig_shape, Feats, Recogniser, Verdict};
use crate::report::{Disagreement, Run};
use ironcalc_base::formatter::lexer::is_likely_date_number_format;
use ironcalc_base::Model;
use serde_json::{json, Value};
use std::collections::BTreeSet;

pub const ALPHABET: [char; 16] = [
    '0', '1', '5', '.', ',', '-', '+', 'e', 'E', '%', '$', '€', '£', ' ', '/', ':',
];

pub const DATE_PARTS: [&str; 22] = [
    "0", "1", "2", "5", "9", "00", "01", "02", "12", "13", "15", "28", "29", "30", "31", "32", "99", "1899", "1900",
    "2000", "2023", "2024",
];
pub const DATE_SEPS: [char; 3] = ['/', '-', '.'];

pub struct Typed {
    pub kind: Kind,
    pub num_fmt: String,
}

pub struct Typist {
    pub model: Model<'static>,
    pub locale: &'static str,
    pub language: &'static str,
    /// number format the cell carries before the text is typed (None = a fresh cell)
    pub prefmt: Option<&'static str>,
    inputs: usize,
}

impl Typist {
    pub fn new(locale: &'static str, language: &'static str) -> Typist {
        Typist {
            model: Model::new_empty("c19", locale, "UTC", language).expect("model"),
            locale,
            language,
            prefmt: None,
            inputs: 0,
        }
    }
    pub fn with_prefmt(mut self, f: Option<&'static str>) -> Typist {
        self.prefmt = f;
        self
    }
    /// Types `s` into a fresh cell A1 and observes the cell. Err = the engine panicked.
    pub fn type_in(&mut self, s: &str) -> Result<Typed, String> {
        self.inputs += 1;
        if self.inputs > 50_000 {
            // keep the shared-string and formula tables small
            *self = Typist::new(self.locale, self.language).with_prefmt(self.prefmt);
        }
        let prefmt = self.prefmt;
        let model = &mut self.model;
        let r = crate::env::guarded(|| {
            model.workbook.worksheets[0].sheet_data.clear();
            if let Some(f) = prefmt {
                let mut st = ironcalc_base::types::Style::default();
                st.num_fmt = f.to_string();
                let _ = model.set_cell_style(0, 1, 1, &st);
            }
            let _ = model.set_user_input(0, 1, 1, s.to_string());
            let kind = cell_kind(model, 0, 1, 1);
            let num_fmt = match kind {
                Kind::Number(_) => model.get_style_for_cell(0, 1, 1).map(|st| st.num_fmt).unwrap_or_default(),
                _ => String::new(),
            };
            Typed { kind, num_fmt }
        });
        if r.is_err() {
            *self = Typist::new(self.locale, self.language).with_prefmt(self.prefmt);
        }
        r
    }
}

fn fmt_feats(code: &str, want: &Feats) -> (bool, bool, bool, bool, bool) {
    let date = is_likely_date_number_format(code);
    let percent = code.contains('%');
    let currency = match want.currency {
        Some(c) => code.contains(c),
        None => code.contains('$') || code.contains('€') || code.contains('£'),
    };
    let exponent = code.contains("E+") || code.contains("E-");
    let grouped = code.contains(',');
    (percent, currency, exponent, grouped, date)
}

fn want_kinds(f: &Feats) -> Vec<&'static str> {
    let mut v = vec![];
    if f.percent {
        v.push("percent");
    }
    if f.currency.is_some() {
        v.push("currency");
    }
    if f.exponent {
        v.push("exponent");
    }
    if v.is_empty() && f.grouped {
        v.push("grouped");
    }
    v
}

/// Returns (failure class, detail) when the observation contradicts the verdict.
pub fn judge(v: &Verdict, t: &Typed) -> Option<(String, String)> {
    let check_number = |value: f64, feats: &Feats, x: f64| -> Option<(String, String)> {
        if !(eq15(x, value)) || (value != 0.0 && x.signum() != value.signum()) {
            let class = if x == -value && value != 0.0 {
                "sign-lost".to_string()
            } else if !x.is_finite() {
                "non-finite".to_string()
            } else {
                "wrong-value".to_string()
            };
            return Some((class, format!("expected the number {} but the cell stores {}", value, x)));
        }
        let want = want_kinds(feats);
        if !want.is_empty() {
            let (p, c, e, g, d) = fmt_feats(&t.num_fmt, feats);
            let ok = want.iter().any(|k| match *k {
                "percent" => p,
                "currency" => c,
                "exponent" => e,
                "grouped" => g,
                _ => false,
            }) && !d;
            if !ok {
                return Some((
                    format!("wrong-format want={}", want.join("|")),
                    format!("value {} is right but the number format is `{}` (expected kind {})", x, t.num_fmt, want.join(" or ")),
                ));
            }
        }
        None
    };
    let check_date = |serials: &Vec<i64>, x: f64| -> Option<(String, String)> {
        if !serials.iter().any(|s| *s as f64 == x) {
            return Some(("wrong-serial".into(), format!("expected the date serial {:?} but the cell stores {}", serials, x)));
        }
        if !is_likely_date_number_format(&t.num_fmt) {
            return Some(("no-date-format".into(), format!("serial {} is right but the number format is `{}`", x, t.num_fmt)));
        }
        None
    };
    match (v, &t.kind) {
        (Verdict::Must { value, feats }, Kind::Number(x)) => check_number(*value, feats, *x),
        (Verdict::Must { value, .. }, k) => Some((
            format!("not-a-number stored={}", k.name()),
            format!("expected the number {} but the cell is {:?}", value, k),
        )),
        (Verdict::MustDate { serials }, Kind::Number(x)) => check_date(serials, *x),
        (Verdict::MustDate { serials }, k) => Some((
            format!("not-a-number stored={}", k.name()),
            format!("expected the date serial {:?} but the cell is {:?}", serials, k),
        )),
        (Verdict::IfNumber { value, feats, .. }, Kind::Number(x)) => check_number(*value, feats, *x),
        (Verdict::IfDate { serials, .. }, Kind::Number(x)) => check_date(serials, *x),
        (Verdict::MustNot { .. }, Kind::Number(x)) => Some((
            "stored-as-number".into(),
            format!("this text denotes no number but the cell stores the number {} (format `{}`)", x, t.num_fmt),
        )),
        _ => None,
    }
}

pub fn check_one(rec: &Recogniser, ty: &mut Typist, s: &str) -> (Verdict, Option<Typed>, Option<Disagreement>) {
    let v = rec.classify(s);
    let case = json!({"locale": rec.li.id, "input": s, "prefmt": ty.prefmt});
    let pre = match ty.prefmt {
        Some(f) => format!(" cell-preformatted={}", f),
        None => String::new(),
    };
    match ty.type_in(s) {
        Ok(t) => {
            let d = judge(&v, &t).map(|(class, detail)| Disagreement {
                sig: format!("{}:{} {} shape={}{}", v.name(), v.why(), class, sig_shape(s, &rec.li), pre),
                case,
                detail: format!("typing `{}` in locale {}: {} [oracle: {} ({})]", s, rec.li.id, detail, v.name(), v.why()),
            });
            (v, Some(t), d)
        }
        Err(p) => {
            let d = Disagreement {
                sig: format!("panic at={}", p.rsplit(" @ ").next().unwrap_or("?")),
                case,
                detail: format!("typing `{}` in locale {} panics: {}", s, rec.li.id, p),
            };
            (v, None, Some(d))
        }
    }
}

#[derive(Default)]
struct Tally {
    ds: Vec<Disagreement>,
    n: u64,
    must: u64,
    must_not: u64,
    if_judged: u64,
    if_not_stored: u64,
    unspec: u64,
    numbers_stored: u64,
    outcomes: BTreeSet<String>,
    values: BTreeSet<u64>,
    reasons: std::collections::BTreeMap<String, (u64, u64)>,
}

impl Tally {
    fn take(&mut self, v: &Verdict, t: &Option<Typed>, d: Option<Disagreement>) {
        self.n += 1;
        let stored_number = matches!(t, Some(Typed { kind: Kind::Number(_), .. }));
        match v {
            Verdict::Must { .. } | Verdict::MustDate { .. } => self.must += 1,
            Verdict::MustNot { .. } => self.must_not += 1,
            Verdict::IfNumber { .. } | Verdict::IfDate { .. } => {
                if stored_number {
                    self.if_judged += 1
                } else {
                    self.if_not_stored += 1
                }
            }
            Verdict::Unspec { .. } => self.unspec += 1,
        }
        let e = self.reasons.entry(format!("{}:{}", v.name(), v.why())).or_insert((0, 0));
        e.0 += 1;
        if stored_number {
            e.1 += 1;
        }
        if let Some(t) = t {
            if let Kind::Number(x) = t.kind {
                self.numbers_stored += 1;
                self.values.insert(x.to_bits());
            }
            self.outcomes.insert(format!("{}|{}", t.kind.name(), t.num_fmt));
        }
        if let Some(d) = d {
            self.ds.push(d);
        }
    }
}

fn date_family() -> Vec<String> {
    let mut v = vec![];
    for a in DATE_PARTS {
        for s1 in DATE_SEPS {
            for b in DATE_PARTS {
                for s2 in DATE_SEPS {
                    for c in DATE_PARTS {
                        v.push(format!("{}{}{}{}{}", a, s1, b, s2, c));
                    }
                }
            }
        }
    }
    v
}

pub fn run(run: &mut Run) {
    let thorough = run.tier.thorough();
    // thorough: length 6 in the three locales with distinct separator sets (en: `.` `,`; de: `,` `.`; fr: `,` and a
    // group separator that cannot be typed from the alphabet), length 5 in en-GB, es, it (same separators as en / de,
    // they differ in currency symbol and date order only)
    let len_of = move |loc: &str| -> usize {
        if thorough && (loc == "en" || loc == "de" || loc == "fr") {
            6
        } else {
            5
        }
    };
    let max_len: usize = if thorough { 6 } else { 5 };
    let k = ALPHABET.len();
    let dates = date_family();
    // units: (locale, two-symbol prefix) for lengths 2..=L, (locale) for length 1 and the date family
    let per_locale_units = k * k + 1 + 4;
    let n_units = LOCALES.len() * per_locale_units;
    let date_chunk = dates.len().div_ceil(4);
    let res = crate::env::par_units(n_units, |u| {
        let loc = LOCALES[u / per_locale_units];
        let w = u % per_locale_units;
        let rec = Recogniser::new(loc);
        let mut ty = Typist::new(loc, "en");
        let mut tally = Tally::default();
        if w < k * k {
            let prefix = [w / k, w % k];
            for len in 2..=len_of(loc) {
                for_each_with_prefix(&ALPHABET, &prefix, len, &mut |s| {
                    let (v, t, d) = check_one(&rec, &mut ty, s);
                    tally.take(&v, &t, d);
                });
            }
        } else if w == k * k {
            for_each_with_prefix(&ALPHABET, &[], 1, &mut |s| {
                let (v, t, d) = check_one(&rec, &mut ty, s);
                tally.take(&v, &t, d);
            });
        } else {
            let c = w - k * k - 1;
            for s in dates.iter().skip(c * date_chunk).take(date_chunk) {
                let (v, t, d) = check_one(&rec, &mut ty, s);
                tally.take(&v, &t, d);
            }
        }
        tally
    });
    let mut total = Tally::default();
    for r in res {
        match r {
            Ok(t) => {
                run.add_all(t.ds);
                total.n += t.n;
                total.must += t.must;
                total.must_not += t.must_not;
                total.if_judged += t.if_judged;
                total.if_not_stored += t.if_not_stored;
                total.unspec += t.unspec;
                total.numbers_stored += t.numbers_stored;
                total.outcomes.extend(t.outcomes);
                total.values.extend(t.values);
                for (k, (a, b)) in t.reasons {
                    let e = total.reasons.entry(k).or_insert((0, 0));
                    e.0 += a;
                    e.1 += b;
                }
            }
            Err(e) => run.machinery_errors.push(format!("unit panicked: {}", e)),
        }
    }
    // second pass: the same judgement with the text typed into a cell that already carries a number format
    // (a date, a percent, a currency format): the value and the format kind the input asks for must not depend on it
    const PREFMTS: [&str; 3] = ["yyyy-mm-dd", "0%", "$#,##0.00"];
    const PRE_LOCALES: [&str; 2] = ["en", "de"];
    let plen: usize = if thorough { 5 } else { 4 };
    let pre_units = PREFMTS.len() * PRE_LOCALES.len() * k;
    let pres = crate::env::par_units(pre_units, |u| {
        let f = PREFMTS[u / (PRE_LOCALES.len() * k)];
        let loc = PRE_LOCALES[(u / k) % PRE_LOCALES.len()];
        let a = u % k;
        let rec = Recogniser::new(loc);
        let mut ty = Typist::new(loc, "en").with_prefmt(Some(f));
        let mut tally = Tally::default();
        for len in 1..=plen {
            for_each_with_prefix(&ALPHABET, &[a], len, &mut |s| {
                let (v, t, d) = check_one(&rec, &mut ty, s);
                tally.take(&v, &t, d);
            });
        }
        tally
    });
    let mut pre_n = 0u64;
    for r in pres {
        match r {
            Ok(t) => {
                run.add_all(t.ds);
                pre_n += t.n;
                total.outcomes.extend(t.outcomes);
            }
            Err(e) => run.machinery_errors.push(format!("unit panicked: {}", e)),
        }
    }
    run.extra.insert("inputs_into_preformatted_cells".into(), json!({"formats": PREFMTS, "locales": PRE_LOCALES, "max_length": plen, "inputs": pre_n}));
    let expected: u64 = LOCALES.iter().map(|l| crate::fnum::count_strings(k, len_of(l)) + dates.len() as u64).sum();
    if total.n != expected {
        run.machinery_errors.push(format!("enumerated {} inputs, expected {}", total.n, expected));
    }
    run.evaluations = total.n;
    run.states = total.n;
    run.transitions = total.n;
    run.traces = total.n;
    run.nontrivial = total.must + total.must_not + total.if_judged;
    run.rule = "an input is non-trivial when the oracle judges it: the statement requires a number (must), excludes a number (must-not), or leaves recognition open but the engine stored a number whose value and format are then pinned (if-number); unspecified inputs are counted separately".into();
    run.distinct_outcomes = total.outcomes.len() as u64 + total.values.len() as u64;
    run.bound = json!({
        "alphabet": ALPHABET.iter().collect::<String>(),
        "max_length": max_len,
        "max_length_per_locale": LOCALES.iter().map(|l| (l.to_string(), json!(len_of(l)))).collect::<serde_json::Map<String, Value>>(),
        "strings_per_locale_at_max_length": crate::fnum::count_strings(k, max_len),
        "date_family_per_locale": dates.len(),
        "date_parts": DATE_PARTS,
        "locales": LOCALES,
    });
    run.extra.insert("judged_must".into(), json!(total.must));
    run.extra.insert("judged_must_not".into(), json!(total.must_not));
    run.extra.insert("judged_if_number_stored".into(), json!(total.if_judged));
    run.extra.insert("if_number_not_stored".into(), json!(total.if_not_stored));
    run.extra.insert("unspecified_not_judged".into(), json!(total.unspec));
    run.extra.insert("stored_as_number".into(), json!(total.numbers_stored));
    run.extra.insert(
        "verdict_reason_inputs_and_stored_as_number".into(),
        json!(total.reasons.iter().map(|(k, (a, b))| (k.clone(), json!([a, b]))).collect::<serde_json::Map<String, Value>>()),
    );
    run.extra.insert("distinct_cell_kind_and_format".into(), json!(total.outcomes.len()));
    run.extra.insert("distinct_number_values".into(), json!(total.values.len()));
    run.sample(json!({"locale": "en", "input": "-$1e3", "oracle": "must-number -1000 (currency or exponent format)"}));
    run.sample(json!({"locale": "de", "input": "1.555,5", "oracle": "must-number 1555.5 (grouped format)"}));
    run.sample(json!({"locale": "en", "input": "1,5", "oracle": "must-not (misplaced group separator)"}));
    run.sample(json!({"locale": "fr", "input": "31/12/2024", "oracle": "must-date 45657"}));
    run.exhaustive = true;
    run.assume("must-number: [-] digits with complete 3-digit grouping, [decimal part], [exponent], then % or the locale's own currency symbol before/after; value compared to 15 significant digits and by sign; format kind: the percent/currency/exponent kind typed (any one of them when several), else grouped");
    run.assume("must-date: ISO yyyy-mm-dd, or day/month/year in the locale's order with the locale's own date separator and a 2- or 4-digit year (2-digit years: either century accepted)");
    run.assume("must-not: a character left over, misplaced or doubled group separators, two signs, two symbols, % not last, exponent marker without digits, ':' or '/' outside a time/date shape, date shapes for which no assignment of day/month/year is a calendar date");
    run.assume("not judged (counted): interior spaces, time shapes, two-part date shapes, dates readable only in another order, trailing sign, overflow to infinity (C08); judged only if stored as a number: leading +, bare leading/trailing decimal separator, sign after the currency symbol, $ € £ outside their locale, partial grouping, trailing group separator, spaces around the number or symbol, other date separators");
    run.assume("only NumberCell counts as 'stored as a number'; inputs the engine turns into formulas (+x, -x with non-numeric x) are not numbers");
}

pub fn replay(case: &Value) -> Vec<Disagreement> {
    let loc = case["locale"].as_str().unwrap_or("en");
    let loc: &'static str = LOCALES.iter().find(|l| **l == loc).copied().unwrap_or("en");
    let s = case["input"].as_str().unwrap_or("");
    let rec = Recogniser::new(loc);
    let pre: Option<&'static str> = case["prefmt"].as_str().map(|f| &*Box::leak(f.to_string().into_boxed_str()));
    let mut ty = Typist::new(loc, "en").with_prefmt(pre);
    check_one(&rec, &mut ty, s).2.into_iter().collect()
}

//! C01 Undo restores the exact state before the undone operation.

use crate::hist::{self, HistCfg};
use crate::obs::{self, Obs, ObsOpts};
use crate::ops::Op;
use crate::report::{Disagreement, Run};
use crate::seeds;
use serde_json::{json, Value};
use std::collections::BTreeSet;

pub struct WordOut {
    pub ds: Vec<Disagreement>,
    pub nontrivial: bool,
    pub final_digest: u128,
    pub undos: u64,
}

pub fn shape_tokens(d: &[(String, String, String)]) -> String {
    let mut t = BTreeSet::new();
    let only_cf = d.iter().all(|(k, _, _)| obs::field_class(k) == "cell.cfstyle");
    for (k, exp, got) in d {
        if !only_cf && obs::field_class(k) == "cell.cfstyle" {
            continue; // secondary field, see `classes`
        }
        if got.contains("#REF!") && !exp.contains("#REF!") {
            t.insert("gains-#REF!");
        }
        if got == "<absent>" {
            t.insert("lost");
        }
        if exp == "<absent>" {
            t.insert("extra");
        }
    }
    t.into_iter().collect::<Vec<_>>().join("+")
}

pub fn classes(d: &[(String, String, String)]) -> String {
    let mut c: BTreeSet<String> = d.iter().map(|(k, _, _)| obs::field_class(k)).collect();
    // the conditional-format overlay of a cell is a secondary field: it follows the cell's value/style and the rules,
    // so it only names a class of its own when nothing else differs
    if c.len() > 1 {
        c.remove("cell.cfstyle");
    }
    c.into_iter().collect::<Vec<_>>().join(",")
}

/// Explainers: named predicates that recognise one specific, recorded defect by the undone operation and the
/// shape of the damage. Each removes exactly the diff entries it explains; whatever is left (the residual)
/// stays in the signature, so a different damage next to a known one is still a different signature.
pub fn explain(
    undone: &Op,
    df: &[(String, String, String)],
) -> (String, Vec<(String, String, String)>) {
    let mut tags: Vec<&str> = vec![];
    let mut rest: Vec<(String, String, String)> = df.to_vec();
    // band-refs: undo of a row/column deletion cannot give back the references other formulas (cells and
    // conditional-format rules) held into the deleted band; they stay #REF! (and values that read them).
    if matches!(undone, Op::DeleteRows(..) | Op::DeleteCols(..)) {
        // cells (or cf rules) one of whose fields now shows a #REF! it did not show before
        let hit: BTreeSet<String> = rest
            .iter()
            .filter(|(_, exp, got)| {
                got.matches("#REF!").count() > exp.matches("#REF!").count()
                    || (got.contains("REF)") && !exp.contains("REF)"))
            })
            .map(|(k, _, _)| owner(k))
            .collect();
        let before = rest.len();
        rest.retain(|(k, _, _)| {
            let c = obs::field_class(k);
            !(hit.contains(&owner(k))
                && matches!(
                    c.as_str(),
                    "cell.content" | "cell.text" | "cell.type" | "cell.value" | "cf"
                ))
        });
        if rest.len() != before {
            tags.push("band-refs");
        }
        // cf-range: a conditional format whose range touched the deleted band does not get its range back
        let before = rest.len();
        rest.retain(|(k, exp, got)| {
            !(obs::field_class(k) == "cf" && exp != "<absent>" && got != "<absent>" && {
                let strip = |t: &str| t.splitn(2, ' ').nth(1).unwrap_or("").to_string();
                exp.starts_with("range=") && got.starts_with("range=") && strip(exp) == strip(got)
            })
        });
        if rest.len() != before {
            tags.push("cf-range");
        }
        // the overlay a damaged conditional format paints (or no longer paints) on cells follows from the above
        let cf_damaged = df.iter().any(|(k, _, _)| obs::field_class(k) == "cf") && !rest.iter().any(|(k, _, _)| obs::field_class(k) == "cf");
        if cf_damaged {
            rest.retain(|(k, _, _)| obs::field_class(k) != "cell.cfstyle");
        }
    }
    (tags.join("+"), rest)
}

/// "s0.R3C2.value" -> "s0.R3C2"; "s0.cf[0]" -> "s0.cf[0]"
fn owner(path: &str) -> String {
    if obs::field_class(path).starts_with("cell.") {
        path.rsplitn(2, '.').nth(1).unwrap_or(path).to_string()
    } else {
        path.to_string()
    }
}

/// First step after which the model's evaluation is not current: an extra `evaluate()` changes the observation.
/// (That is C07's / C31's finding — a reader of a spill evaluated later in the pass stays stale until the next
/// evaluation — and whatever operation happens to trigger the next evaluation then "changes" unrelated cells.)
pub fn stale_step(seed: &'static str, word: &[Op]) -> Option<usize> {
    let o = ObsOpts::default();
    let mut um = seeds::load(seed);
    for (i, op) in word.iter().enumerate() {
        if !matches!(crate::env::guarded(|| op.apply(&mut um)), Ok(Ok(()))) {
            return None;
        }
        let a = obs::observe(&um, &o);
        um.evaluate();
        if obs::observe(&um, &o) != a {
            return Some(i);
        }
    }
    None
}

/// Re-labels the disagreements of a history whose evaluation went stale at some step.
pub fn relabel_stale(seed: &'static str, word: &[Op], ds: &mut Vec<Disagreement>) {
    if ds.is_empty() || ds.iter().all(|d| d.sig.starts_with("panic")) {
        return;
    }
    if let Some(i) = stale_step(seed, word) {
        let first = ds[0].clone();
        ds.clear();
        ds.push(Disagreement {
            sig: format!("stale-evaluation after={}", word[i].kind()),
            case: first.case,
            detail: format!(
                "after operation {} ({:?}) an extra evaluate() changes the workbook (evaluation was not current), so later steps are not judged; first symptom: {}",
                i, word[i], first.detail.lines().take(3).collect::<Vec<_>>().join(" | ")
            ),
        });
    }
}

pub fn judge(seed: &'static str, word: &[Op]) -> Option<WordOut> {
    let mut out = judge_inner(seed, word)?;
    relabel_stale(seed, word, &mut out.ds);
    Some(out)
}

fn judge_inner(seed: &'static str, word: &[Op]) -> Option<WordOut> {
    let o = ObsOpts::default();
    let mut um = seeds::load(seed);
    let mut states: Vec<Obs> = vec![obs::observe(&um, &o)];
    let mut pushed: Vec<bool> = vec![];
    let mut ds = vec![];
    let case = hist::case_json(seed, word);
    for (i, op) in word.iter().enumerate() {
        let d0 = um.verif_history_depths().0;
        let r = crate::env::guarded(|| op.apply(&mut um));
        match r {
            Err(p) => {
                ds.push(Disagreement {
                    sig: format!("panic op={} at={}", op.kind(), p.split(" @ ").last().unwrap_or("")),
                    case: case.clone(),
                    detail: format!("operation {} panicked: {}", i, p),
                });
                return Some(WordOut {
                    ds,
                    nontrivial: false,
                    final_digest: 0,
                    undos: 0,
                });
            }
            Ok(Err(_)) => return None,
            Ok(Ok(())) => {}
        }
        let d1 = um.verif_history_depths().0;
        let s = obs::observe(&um, &o);
        let changed = &s != states.last().unwrap();
        if d1 == d0 && changed && op.is_history_op() {
            let df = obs::diff(states.last().unwrap(), &s);
            ds.push(Disagreement {
                sig: format!("no-history-entry op={} fields={}", op.kind(), classes(&df)),
                case: case.clone(),
                detail: format!(
                    "operation {:?} changed the observable workbook but recorded no undo entry:\n{}",
                    op,
                    obs::diff_text(&df, 6)
                ),
            });
        }
        if d1 > d0 + 1 {
            ds.push(Disagreement {
                sig: format!("several-history-entries op={}", op.kind()),
                case: case.clone(),
                detail: format!("operation {:?} pushed {} undo entries", op, d1 - d0),
            });
        }
        pushed.push(d1 > d0);
        states.push(s);
    }
    let n = word.len();
    let nontrivial = pushed[n - 1] && states[n] != states[n - 1];
    let final_digest = obs::digest(&states[n]);
    // walk back
    let mut undos = 0;
    let mut upper = n; // ops with index >= upper have been undone (or never pushed)
    loop {
        // find last pushed op below upper
        let mut i = upper;
        let mut found = None;
        while i > 0 {
            i -= 1;
            if pushed[i] {
                found = Some(i);
                break;
            }
            // a non-recording op that changed the observation blocks exact expectations
            if states[i + 1] != states[i] {
                return Some(WordOut {
                    ds,
                    nontrivial,
                    final_digest,
                    undos,
                });
            }
        }
        let i = match found {
            Some(i) => i,
            None => break,
        };
        let r = crate::env::guarded(|| um.undo());
        undos += 1;
        match r {
            Err(p) => {
                ds.push(Disagreement {
                    sig: format!("panic undo-of={} at={}", word[i].kind(), p.split(" @ ").last().unwrap_or("")),
                    case: case.clone(),
                    detail: format!("undo of operation {} panicked: {}", i, p),
                });
                break;
            }
            Ok(Err(e)) => {
                ds.push(Disagreement {
                    sig: format!("undo-error op={}", word[i].kind()),
                    case: case.clone(),
                    detail: format!("undo of {:?} (operation {}) returned Err({})", word[i], i, e),
                });
                break;
            }
            Ok(Ok(())) => {}
        }
        let s = obs::observe(&um, &o);
        if s != states[i] {
            let df = obs::diff(&states[i], &s);
            let (tags, residual) = explain(&word[i], &df);
            ds.push(Disagreement {
                sig: format!(
                    "undo op={} explained={} residual={} shape={}",
                    word[i].kind(),
                    tags,
                    classes(&residual),
                    shape_tokens(&residual)
                ),
                case: case.clone(),
                detail: format!(
                    "after undoing operation {} ({:?}) the workbook differs from the state before it:\n{}",
                    i,
                    word[i],
                    obs::diff_text(&df, 8)
                ),
            });
            break; // later steps would re-report the same damage
        }
        upper = i;
    }
    if ds.is_empty() {
        let (u, _) = um.verif_history_depths();
        if u != 0 || um.can_undo() {
            ds.push(Disagreement {
                sig: "undo-stack-not-empty-after-full-walk".into(),
                case: case.clone(),
                detail: format!("undo depth {} after undoing every recorded operation", u),
            });
        }
    }
    Some(WordOut {
        ds,
        nontrivial,
        final_digest,
        undos,
    })
}

pub fn run(run: &mut Run) {
    let thorough = run.tier.thorough();
    let full = seeds::alphabet_full();
    let core = seeds::alphabet_core();
    let mut plans: Vec<(HistCfg, usize, &str)> = vec![];
    let all_seeds: Vec<&'static str> = seeds::SEEDS.to_vec();
    for len in 1..=2 {
        plans.push((
            HistCfg {
                seeds: all_seeds.clone(),
                alphabet: full.clone(),
                depth: len,
            },
            len,
            "full",
        ));
    }
    plans.push((
        HistCfg {
            seeds: if thorough { all_seeds.clone() } else { vec!["basic"] },
            alphabet: core.clone(),
            depth: 3,
        },
        3,
        "core",
    ));
    if thorough {
        // length 3 over every second operation of the full alphabet (the full cube is 3.9 M histories / >10 min)
        plans.push((
            HistCfg {
                seeds: vec!["basic"],
                alphabet: full.iter().step_by(2).cloned().collect(),
                depth: 3,
            },
            3,
            "full/2",
        ));
    }
    let mut outcomes = std::collections::HashSet::new();
    let mut bounds = vec![];
    for (cfg, len, name) in &plans {
        let (outs, st, errs) = hist::explore(cfg, *len, &judge);
        for e in errs {
            run.machinery_errors.push(e);
        }
        run.evaluations += st.words;
        run.traces += st.words;
        run.transitions += st.steps;
        for w in outs {
            if w.nontrivial {
                run.nontrivial += 1;
            }
            run.transitions += w.undos;
            run.states += 1 + w.undos;
            outcomes.insert(w.final_digest);
            run.add_all(w.ds);
        }
        bounds.push(json!({"alphabet": name, "alphabet_size": cfg.alphabet.len(), "length": len, "seeds": cfg.seeds,
            "histories_ok": st.words, "histories_cut_at_first_error": st.words_cut}));
        if run.elapsed() > if thorough { 3000.0 } else { 600.0 } {
            run.cap_hit = Some(format!("wall clock after plan {} len {}", name, len));
            break;
        }
    }
    run.distinct_outcomes = outcomes.len() as u64;
    run.bound = json!({"plans": bounds, "hash_seed": crate::env::hash_seed()});
    run.rule = "every word of the stated length over the operation alphabet from each seed workbook, all operations Ok; each is replayed on the real UserModel, then undone entry by entry, comparing the observation after each undo with the one recorded before the undone operation. non-trivial = the last operation recorded an undo entry and changed the observation".into();
    run.sample(hist::case_json("basic", &[full[0].clone(), full[22].clone()]));
    run.sample(hist::case_json("imported", &[full[30].clone(), full[60].clone()]));
    run.sample(hist::case_json("basic", &[core[5].clone(), core[25].clone(), core[34].clone()]));
    run.assume("observation window: rows/columns 1..7 plus every stored cell, link, row and column descriptor; view excluded (not history by design)");
    run.assume("hash-map iteration order fixed by VERIF_HASH_SEED for this run (listed seed only)");
    run.assume("histories longer than the stated depth and arguments outside the alphabet are not covered");
}

pub fn replay(case: &Value) -> Vec<Disagreement> {
    match hist::case_parse(case) {
        Some((seed, ops)) => judge(hist::seed_name(&seed), &ops)
            .map(|w| w.ds)
            .unwrap_or_default(),
        None => vec![],
    }
}

//! C07 Evaluation is deterministic and independent of editing order.
//!
//! Space: every workbook over a few cells with contents from DELTA (dynamic arrays that feed and block each other)
//! x every permutation of the entry order x {evaluate once at the end, evaluate after every edit, to_bytes/from_bytes
//! reload after the second edit (unevaluated), evaluate after every edit + reload} x a listed set of hash-order
//! perturbations. Oracle (differential): the final value / kind / array-structure map over the window equals the one of
//! the canonical run (entry in listed cell order, evaluate once at the end, perturbation 0); and a second `evaluate()`
//! changes nothing.

use crate::cellval::{a1, cell_shape, val_of_cell, Val};
use crate::env::guarded;
use crate::report::{Disagreement, Run};
use ironcalc_base::Model;
use serde_json::{json, Value};
use std::collections::BTreeSet;

/// (row, column): A1, A2, B1, C1 and (thorough, second block) B2
pub const CELLS4: [(i32, i32); 4] = [(1, 1), (2, 1), (1, 2), (1, 3)];
pub const CELLS5: [(i32, i32); 5] = [(1, 1), (2, 1), (1, 2), (1, 3), (2, 2)];

pub const DELTA: [&str; 9] = [
    "",
    "5",
    "=SEQUENCE(2)",
    "=SEQUENCE(1,2)",
    "=A1#",
    "=SUM(A1#)",
    "=B1:B2*2",
    "=TRANSPOSE(A1:A2)",
    "=A1+1",
];

/// reduced alphabet of the five-cell block (thorough)
pub const DELTA_B: [&str; 6] = ["", "=SEQUENCE(2)", "=SEQUENCE(1,2)", "=A1#", "=B1:B2*2", "=TRANSPOSE(A1:A2)"];

pub const MODES: [&str; 4] = ["end", "each", "reload", "each+reload"];

const WIN_ROWS: i32 = 5;
const WIN_COLS: i32 = 6;

type Obs = Vec<(i32, i32, Val, String)>;

fn observe(m: &Model) -> Obs {
    let mut out = vec![];
    let ws = &m.workbook.worksheets[0];
    for r in 1..=WIN_ROWS {
        for c in 1..=WIN_COLS {
            let cell = ws.cell(r, c);
            let v = val_of_cell(m, cell);
            let s = cell_shape(cell);
            if v != Val::Blank || s != "none" {
                out.push((r, c, v, s));
            }
        }
    }
    // anything stored outside the window is part of the observation too (nothing is expected there)
    for (sh, r, c, cell) in crate::cellval::all_cells(m) {
        if sh != 0 || r > WIN_ROWS || c > WIN_COLS {
            let v = val_of_cell(m, Some(cell));
            let s = cell_shape(Some(cell));
            if v != Val::Blank || s != "none" {
                out.push((r + 1000 * sh as i32, c, v, s));
            }
        }
    }
    out
}

fn obs_text(o: &Obs) -> String {
    let mut s = String::new();
    for (r, c, v, sh) in o {
        s.push_str(&format!("{}={} [{}]; ", a1(*r, *c), v.show(), sh));
    }
    s
}

pub fn permutations(n: usize) -> Vec<Vec<usize>> {
    fn rec(cur: &mut Vec<usize>, used: &mut Vec<bool>, n: usize, out: &mut Vec<Vec<usize>>) {
        if cur.len() == n {
            out.push(cur.clone());
            return;
        }
        for i in 0..n {
            if !used[i] {
                used[i] = true;
                cur.push(i);
                rec(cur, used, n, out);
                cur.pop();
                used[i] = false;
            }
        }
    }
    let mut out = vec![];
    rec(&mut vec![], &mut vec![false; n], n, &mut out);
    out
}

struct Outcome {
    first: Obs,
    second: Obs,
    calls: u64,
}

fn run_one(contents: &[String], cells: &[(i32, i32)], perm: &[usize], mode: usize) -> Result<Outcome, String> {
    let each = mode == 1 || mode == 3;
    let reload = mode == 2 || mode == 3;
    let mut calls = 0u64;
    let mut m = Model::new_empty("m", "en", "UTC", "en")?;
    for (k, &i) in perm.iter().enumerate() {
        let (r, c) = cells[i];
        m.set_user_input(0, r, c, contents[i].clone())
            .map_err(|e| format!("input `{}` into {} rejected: {}", contents[i], a1(r, c), e))?;
        calls += 1;
        if each {
            m.evaluate();
            calls += 1;
        }
        if reload && k == 1 {
            let b = m.to_bytes();
            m = Model::from_bytes(&b, "en").map_err(|e| format!("from_bytes failed: {}", e))?;
            calls += 2;
        }
    }
    if !each {
        m.evaluate();
        calls += 1;
    }
    let first = observe(&m);
    m.evaluate();
    calls += 1;
    let second = observe(&m);
    Ok(Outcome { first, second, calls })
}

/// burns `p` hasher key increments in the current (fresh) thread: every later HashMap gets different SipHash keys
fn perturb(p: usize) {
    for _ in 0..p * 5 {
        let _ = std::collections::hash_map::RandomState::new();
    }
}

fn symbol(contents: &[String], cells: &[(i32, i32)], r: i32, c: i32) -> String {
    for (i, rc) in cells.iter().enumerate() {
        if *rc == (r, c) {
            return if contents[i].is_empty() { "<blank input>".to_string() } else { contents[i].clone() };
        }
    }
    "<not an input cell>".to_string()
}

fn first_diff(a: &Obs, b: &Obs) -> Option<(i32, i32, String, String, String, String)> {
    use std::collections::BTreeMap;
    let ma: BTreeMap<(i32, i32), (&Val, &String)> = a.iter().map(|x| ((x.0, x.1), (&x.2, &x.3))).collect();
    let mb: BTreeMap<(i32, i32), (&Val, &String)> = b.iter().map(|x| ((x.0, x.1), (&x.2, &x.3))).collect();
    let keys: BTreeSet<(i32, i32)> = ma.keys().chain(mb.keys()).copied().collect();
    for k in keys {
        let va = ma.get(&k);
        let vb = mb.get(&k);
        let same = match (va, vb) {
            (Some(x), Some(y)) => x.0 == y.0 && x.1 == y.1,
            (None, None) => true,
            _ => false,
        };
        if !same {
            let f = |v: Option<&(&Val, &String)>| match v {
                Some((v, s)) => (v.kind(), format!("{} [{}]", v.show(), s)),
                None => ("blank".to_string(), "<blank> [none]".to_string()),
            };
            let (ka, ta) = f(va);
            let (kb, tb) = f(vb);
            return Some((k.0, k.1, ka, kb, ta, tb));
        }
    }
    None
}

/// (w, h) of a `dyn WxH` shape
fn dyn_dims(shape: &str) -> Option<(i32, i32)> {
    let d = shape.strip_prefix("dyn ")?;
    let (w, h) = d.split_once('x')?;
    Some((w.parse().ok()?, h.parse().ok()?))
}

/// Recognises one specific defect class: two dynamic-array anchors X, Y whose spill rectangles overlap, X spilled and Y shows
/// #SPILL! in the canonical run while Y spilled and X shows #SPILL! in this run; no constant input cell differs.
/// Returns the (sorted) pair of formulas.
fn collision_swap(canon: &Obs, got: &Obs, contents: &[String], cells: &[(i32, i32)]) -> Option<String> {
    let is_spill_err = |v: &Val| matches!(v, Val::Err(e) if format!("{}", e) == "#SPILL!");
    let anchors = |o: &Obs| -> Vec<(i32, i32, (i32, i32), bool)> {
        o.iter().filter_map(|x| dyn_dims(&x.3).map(|d| (x.0, x.1, d, is_spill_err(&x.2)))).collect()
    };
    let ca = anchors(canon);
    let ga = anchors(got);
    // constants must agree
    for (i, (r, c)) in cells.iter().enumerate() {
        if !contents[i].starts_with('=') {
            let f = |o: &Obs| o.iter().find(|x| x.0 == *r && x.1 == *c).map(|x| (x.2.clone(), x.3.clone()));
            if f(canon) != f(got) && !(f(canon).map(|x| x.1.starts_with("spill")).unwrap_or(false) || f(got).map(|x| x.1.starts_with("spill")).unwrap_or(false)) {
                return None;
            }
        }
    }
    let overlap = |a: (i32, i32, (i32, i32)), b: (i32, i32, (i32, i32))| -> bool {
        let (ar, ac, (aw, ah)) = a;
        let (br, bc, (bw, bh)) = b;
        ar < br + bh && br < ar + ah && ac < bc + bw && bc < ac + aw
    };
    for x in &ca {
        // X spilled in canon, blocked in got
        if x.3 || x.2 == (1, 1) {
            continue;
        }
        let xg = ga.iter().find(|g| g.0 == x.0 && g.1 == x.1)?;
        if !xg.3 {
            continue;
        }
        for y in &ga {
            if y.3 || y.2 == (1, 1) || (y.0, y.1) == (x.0, x.1) {
                continue;
            }
            let yc = match ca.iter().find(|c| c.0 == y.0 && c.1 == y.1) {
                Some(c) => c,
                None => continue,
            };
            if yc.3 && overlap((x.0, x.1, x.2), (y.0, y.1, y.2)) {
                let mut pair = [symbol(contents, cells, x.0, x.1), symbol(contents, cells, y.0, y.1)];
                pair.sort();
                return Some(format!("`{}`|`{}`", pair[0], pair[1]));
            }
        }
    }
    None
}

/// The defect class "blocked or not depending on history": some dynamic-array anchor shows #SPILL! in exactly one of the two
/// observations, and no constant input cell differs (other than by being covered by a spill).
fn blocked_differs(canon: &Obs, got: &Obs, contents: &[String], cells: &[(i32, i32)]) -> bool {
    let is_spill_err = |v: &Val| matches!(v, Val::Err(e) if format!("{}", e) == "#SPILL!");
    let find = |o: &Obs, r: i32, c: i32| o.iter().find(|x| x.0 == r && x.1 == c).map(|x| (x.2.clone(), x.3.clone()));
    for (i, (r, c)) in cells.iter().enumerate() {
        if !contents[i].starts_with('=') && !contents[i].is_empty() && find(canon, *r, *c) != find(got, *r, *c) {
            return false;
        }
    }
    let mut keys: BTreeSet<(i32, i32)> = BTreeSet::new();
    for o in [canon, got] {
        for x in o.iter() {
            if x.3.starts_with("dyn") {
                keys.insert((x.0, x.1));
            }
        }
    }
    // blocked = shows #SPILL! and occupies one cell only
    keys.iter().any(|(r, c)| {
        let a = find(canon, *r, *c).map(|x| is_spill_err(&x.0) && x.1 == "dyn 1x1").unwrap_or(false);
        let b = find(got, *r, *c).map(|x| is_spill_err(&x.0) && x.1 == "dyn 1x1").unwrap_or(false);
        a != b
    })
}

struct UnitOut {
    ds: Vec<Disagreement>,
    runs: u64,
    calls: u64,
    canon: String,
    nontrivial: bool,
}

fn case_json(contents: &[String], cells: &[(i32, i32)], perm: &[usize], mode: usize, p: usize) -> Value {
    case_json_m(contents, cells, perm, mode, p, &[0, 1, 2, 3])
}

/// `unit_modes`: the modes the explorer ran in this unit, in order (replay repeats the same sequence of runs)
fn case_json_m(contents: &[String], cells: &[(i32, i32)], perm: &[usize], mode: usize, p: usize, unit_modes: &[usize]) -> Value {
    json!({"cells": cells.iter().map(|(r, c)| a1(*r, *c)).collect::<Vec<_>>(), "contents": contents,
           "perm": perm, "mode": MODES[mode], "perturb": p, "unit_modes": unit_modes})
}

/// All runs of one workbook under one perturbation, in a fixed order; `only` restricts what is *reported* (replay).
fn unit(
    contents: &[String],
    cells: &[(i32, i32)],
    perms: &[Vec<usize>],
    modes: &[usize],
    p: usize,
    canon0: Option<&Obs>,
    only: Option<(&[usize], usize)>,
) -> (UnitOut, Option<Obs>) {
    perturb(p);
    let mut out = UnitOut { ds: vec![], runs: 0, calls: 0, canon: String::new(), nontrivial: false };
    let identity: Vec<usize> = (0..cells.len()).collect();
    let canon_here = guarded(|| run_one(contents, cells, &identity, 0));
    let canon_here = match canon_here {
        Ok(Ok(o)) => o,
        Ok(Err(e)) => {
            out.ds.push(Disagreement {
                sig: format!("canonical run failed: {}", e.split(':').next().unwrap_or("")),
                case: case_json_m(contents, cells, &identity, 0, p, modes),
                detail: e,
            });
            return (out, None);
        }
        Err(pn) => {
            out.ds.push(Disagreement {
                sig: format!("panic at={}", pn.rsplit(" @ ").next().unwrap_or("")),
                case: case_json_m(contents, cells, &identity, 0, p, modes),
                detail: pn,
            });
            return (out, None);
        }
    };
    let canon: Obs = match canon0 {
        Some(c) => c.clone(),
        None => canon_here.first.clone(),
    };
    out.canon = obs_text(&canon);
    out.nontrivial = canon
        .iter()
        .any(|x| x.3.starts_with("spill") || matches!(&x.2, Val::Err(e) if format!("{}", e) == "#SPILL!"));
    for perm in perms {
        for &mode in modes {
            let r = guarded(|| run_one(contents, cells, perm, mode));
            out.runs += 1;
            if let Some((operm, omode)) = only {
                if operm != perm.as_slice() || omode != mode {
                    continue;
                }
            }
            let is_id = *perm == identity;
            let tag = format!("mode={} order={} perturb={}", MODES[mode], if is_id { "canonical" } else { "permuted" }, if p == 0 { "0" } else { "k" });
            match r {
                Err(pn) => out.ds.push(Disagreement {
                    sig: format!("panic at={} {}", pn.rsplit(" @ ").next().unwrap_or(""), tag),
                    case: case_json_m(contents, cells, perm, mode, p, modes),
                    detail: pn,
                }),
                Ok(Err(e)) => out.ds.push(Disagreement {
                    sig: format!("run failed ({}) {}", e.split(':').next_back().unwrap_or("").trim(), tag),
                    case: case_json_m(contents, cells, perm, mode, p, modes),
                    detail: format!("{}\ncanonical result: {}", e, obs_text(&canon)),
                }),
                Ok(Ok(o)) => {
                    out.calls += o.calls;
                    if let Some((r, c, ka, kb, ta, tb)) = first_diff(&canon, &o.first) {
                        let swap = collision_swap(&canon, &o.first, contents, cells);
                        let sig = match (&swap, blocked_differs(&canon, &o.first, contents, cells)) {
                            (_, true) if mode == 1 || mode == 3 => format!(
                                "history-dependent #SPILL!: whether a dynamic array is blocked depends on spill cells left by an earlier evaluation: mode={} order={}",
                                MODES[mode],
                                if is_id { "canonical" } else { "permuted" },
                            ),
                            _ => format!(
                                "final values differ from the canonical run: {} cell=`{}` canonical={} got={}",
                                tag,
                                symbol(contents, cells, r, c),
                                ka,
                                kb
                            ),
                        };
                        let ta = match &swap {
                            Some(pair) => format!("{} (the overlapping pair {} swaps winner)", ta, pair),
                            None => ta,
                        };
                        out.ds.push(Disagreement {
                            sig,
                            case: case_json_m(contents, cells, perm, mode, p, modes),
                            detail: format!(
                                "first differing cell {}: canonical {} / this run {}\ncanonical: {}\nthis run:  {}",
                                a1(r, c),
                                ta,
                                tb,
                                obs_text(&canon),
                                obs_text(&o.first)
                            ),
                        });
                    }
                    if let Some((r, c, ka, kb, ta, tb)) = first_diff(&o.first, &o.second) {
                        out.ds.push(Disagreement {
                            sig: if blocked_differs(&o.first, &o.second, contents, cells) && (mode == 1 || mode == 3) {
                                format!("stale #SPILL!: a dynamic array stays blocked by a spill that the same evaluation removed later; a second evaluate() changes values: mode={}", MODES[mode])
                            } else {
                                format!(
                                    "second evaluate() changes values: mode={} cell=`{}` first={} second={}",
                                    MODES[mode],
                                    symbol(contents, cells, r, c),
                                    ka,
                                    kb
                                )
                            },
                            case: case_json_m(contents, cells, perm, mode, p, modes),
                            detail: format!(
                                "cell {}: after first evaluate {} / after second {}\nfirst:  {}\nsecond: {}",
                                a1(r, c),
                                ta,
                                tb,
                                obs_text(&o.first),
                                obs_text(&o.second)
                            ),
                        });
                    }
                }
            }
        }
    }
    (out, Some(canon_here.first))
}

fn workbook(index: usize, n_cells: usize, alphabet: &[&str]) -> Vec<String> {
    let mut v = vec![];
    let mut k = index;
    for _ in 0..n_cells {
        v.push(alphabet[k % alphabet.len()].to_string());
        k /= alphabet.len();
    }
    v
}

struct BlockResult {
    runs: u64,
    calls: u64,
    nontrivial: u64,
    outcomes: BTreeSet<u128>,
    ds: Vec<Disagreement>,
    errs: Vec<String>,
}

fn block(cells: &'static [(i32, i32)], alphabet: &'static [&'static str], modes: &[usize], perturbs: &[usize]) -> BlockResult {
    let n = alphabet.len().pow(cells.len() as u32);
    let perms = permutations(cells.len());
    let res = crate::env::par_units(n, |u| {
        let contents = workbook(u, cells.len(), alphabet);
        let mut outs = vec![];
        let mut canon0: Option<Obs> = None;
        for &p in perturbs {
            let r = crate::env::fresh(|| unit(&contents, cells, &perms, modes, p, canon0.as_ref(), None));
            match r {
                Ok((o, c)) => {
                    if canon0.is_none() {
                        canon0 = c;
                    }
                    outs.push(o);
                }
                Err(e) => outs.push(UnitOut {
                    ds: vec![Disagreement {
                        sig: format!("harness unit died: {}", e),
                        case: case_json(&contents, cells, &[], 0, p),
                        detail: e,
                    }],
                    runs: 0,
                    calls: 0,
                    canon: String::new(),
                    nontrivial: false,
                }),
            }
        }
        outs
    });
    let mut b = BlockResult { runs: 0, calls: 0, nontrivial: 0, outcomes: BTreeSet::new(), ds: vec![], errs: vec![] };
    for r in res {
        match r {
            Ok(outs) => {
                if outs.first().map(|o| o.nontrivial).unwrap_or(false) {
                    b.nontrivial += 1;
                }
                for o in outs {
                    b.runs += o.runs + 1;
                    b.calls += o.calls;
                    b.outcomes.insert(crate::env::digest(&o.canon));
                    b.ds.extend(o.ds);
                }
            }
            Err(e) => b.errs.push(e),
        }
    }
    b
}

pub fn run(run: &mut Run) {
    crate::cellval::keep_freed_memory();
    let thorough = run.tier.thorough();
    let perturbs: Vec<usize> = if thorough { vec![0, 1] } else { vec![0] };
    let all_modes: Vec<usize> = match std::env::var("VERIF_C07_MODES") {
        Ok(v) => v.split(',').filter_map(|x| x.parse().ok()).collect(),
        Err(_) => if thorough { vec![0usize, 1, 2, 3] } else { vec![0usize, 1, 2] },
    };
    // quick: the first eight symbols (without the scalar dependent `=A1+1`)
    let alpha_a: &'static [&'static str] = if thorough { &DELTA } else { &DELTA[..8] };
    let b4 = block(&CELLS4, alpha_a, &all_modes, &perturbs);
    let mut total_runs = b4.runs;
    let mut calls = b4.calls;
    let mut nontrivial = b4.nontrivial;
    let mut outcomes = b4.outcomes.clone();
    let mut workbooks = alpha_a.len().pow(4) as u64;
    run.add_all(b4.ds);
    for e in b4.errs {
        run.machinery_errors.push(e);
    }
    let mut bound = json!({
        "block_A": {"cells": ["A1","A2","B1","C1"], "alphabet": alpha_a, "workbooks": alpha_a.len().pow(4), "permutations": 24,
                    "modes": all_modes.iter().map(|m| MODES[*m]).collect::<Vec<_>>(), "hash_perturbations": perturbs},
    });
    if thorough {
        let b5 = block(&CELLS5, &DELTA_B, &[0, 1], &[0]);
        total_runs += b5.runs;
        calls += b5.calls;
        nontrivial += b5.nontrivial;
        outcomes.extend(b5.outcomes.iter().copied());
        workbooks += DELTA_B.len().pow(5) as u64;
        run.add_all(b5.ds);
        for e in b5.errs {
            run.machinery_errors.push(e);
        }
        bound["block_B"] = json!({"cells": ["A1","A2","B1","C1","B2"], "alphabet": DELTA_B, "workbooks": DELTA_B.len().pow(5),
            "permutations": 120, "modes": ["end","each"], "hash_perturbations": [0]});
    }
    run.bound = bound;
    run.evaluations = total_runs;
    run.traces = total_runs;
    run.states = workbooks;
    run.transitions = calls;
    run.nontrivial = nontrivial;
    run.distinct_outcomes = outcomes.len() as u64;
    run.rule = "a workbook is non-trivial when its canonical result contains a spilled dynamic array or a #SPILL! error (spills that feed or block other cells)".into();
    run.sample(case_json(&workbook(2 + 9 * 5 + 81 * 1, 4, &DELTA), &CELLS4, &[0, 1, 2, 3], 0, 0));
    run.sample(case_json(&workbook(3 + 9 * 0 + 81 * 7 + 729 * 4, 4, &DELTA), &CELLS4, &[3, 2, 1, 0], 1, 0));
    run.sample(case_json(&workbook(4095, 4, &DELTA[..8]), &CELLS4, &[1, 0, 3, 2], 2, 0));
    run.exhaustive = true;
    run.assume("hash-map iteration order is controlled (getrandom shim), not exhausted: inside one unit (one workbook, one fresh thread) every run gets the next SipHash keys of the thread, so the canonical run and each permuted run iterate their maps in different orders; a perturbation additionally shifts the whole key sequence of the unit");
    run.assume("a blank content is entered as an empty input (set_user_input with \"\") at its place in the entry order");
    run.assume("values are read from the stored cells (kind, value, formula/array/spill role) over A1:F5 plus any stored cell outside; error origin/message texts are not compared");
}

pub fn replay(case: &Value) -> Vec<Disagreement> {
    let names: Vec<String> = case["cells"].as_array().map(|a| a.iter().filter_map(|x| x.as_str().map(|s| s.to_string())).collect()).unwrap_or_default();
    let cells: &'static [(i32, i32)] = if names.len() == 5 { &CELLS5 } else { &CELLS4 };
    let contents: Vec<String> = case["contents"].as_array().map(|a| a.iter().map(|x| x.as_str().unwrap_or("").to_string()).collect()).unwrap_or_default();
    if contents.len() != cells.len() {
        return vec![];
    }
    let perm: Vec<usize> = case["perm"].as_array().map(|a| a.iter().map(|x| x.as_u64().unwrap_or(0) as usize).collect()).unwrap_or_default();
    let mode = MODES.iter().position(|m| Some(*m) == case["mode"].as_str()).unwrap_or(0);
    let p = case["perturb"].as_u64().unwrap_or(0) as usize;
    let perms = permutations(cells.len());
    let modes: Vec<usize> = match case["unit_modes"].as_array() {
        Some(a) => a.iter().map(|x| x.as_u64().unwrap_or(0) as usize).collect(),
        None => if cells.len() == 5 { vec![0, 1] } else { vec![0, 1, 2, 3] },
    };
    // canonical observation comes from perturbation 0 in its own fresh thread, as in the explorer
    let canon0 = if p == 0 {
        None
    } else {
        crate::env::fresh(|| unit(&contents, cells, &perms, &modes, 0, None, Some((&[], 99))))
            .ok()
            .and_then(|x| x.1)
    };
    match crate::env::fresh(|| unit(&contents, cells, &perms, &modes, p, canon0.as_ref(), Some((&perm, mode)))) {
        Ok((o, _)) => o.ds,
        Err(e) => vec![Disagreement { sig: format!("harness unit died: {}", e), case: case.clone(), detail: e }],
    }
}

//! C03 Replicas that apply the diff queue converge (all histories with undo/redo, all flush schedules).

use crate::hist::{self, HistCfg};
use crate::obs::{self, ObsOpts};
use crate::ops::Op;
use crate::props::c01::{classes, shape_tokens};
use crate::report::{Disagreement, Run};
use crate::seeds;
use ironcalc_base::UserModel;
use serde_json::{json, Value};

pub struct Out {
    pub ds: Vec<Disagreement>,
    pub runs: u64,
    pub steps: u64,
    pub nontrivial: u64,
    pub digests: Vec<u128>,
}

/// Runs `word` on the primary, flushing after step i iff bit i of `cuts` is set (always after the last step),
/// applying every flushed batch on a replica loaded from the same initial bytes.
pub fn judge_schedule(seed: &'static str, word: &[Op], cuts: u32) -> Option<(Vec<Disagreement>, u64, bool, u128)> {
    let o = ObsOpts::default();
    let mut ds = vec![];
    let n = word.len();
    let case = json!({"seed": seed, "ops": word, "cuts": cuts});
    let mut p = seeds::load(seed);
    let mut r = UserModel::from_bytes(seeds::seed_bytes(seed), "en").ok()?;
    let mut steps = 0u64;
    let mut sent_any = false;
    for (i, op) in word.iter().enumerate() {
        match crate::env::guarded(|| op.apply(&mut p)) {
            Ok(Ok(())) => {}
            Ok(Err(_)) => {
                if i + 1 < n {
                    return None; // prefixes are all-Ok by construction; a failing last op is still a step (nothing queued)
                }
            }
            Err(_) => return None, // panics are judged by C01/C27
        }
        steps += 1;
        let flush_now = i + 1 == n || (cuts >> i) & 1 == 1;
        if flush_now {
            let qlen = p.verif_send_queue_len();
            let bytes = p.flush_send_queue();
            if qlen > 0 {
                sent_any = true;
            }
            let res = crate::env::guarded(|| r.apply_external_diffs(&bytes));
            steps += 1;
            match res {
                Err(pn) => {
                    ds.push(Disagreement {
                        sig: format!("panic apply_external_diffs last-op={} at={}", op.kind(), pn.split(" @ ").last().unwrap_or("")),
                        case: case.clone(),
                        detail: format!("replica panicked applying the batch flushed after step {}: {}", i, pn),
                    });
                    return Some((ds, steps, sent_any, 0));
                }
                Ok(Err(e)) => {
                    ds.push(Disagreement {
                        sig: format!("replica-error last-op={}", op.kind()),
                        case: case.clone(),
                        detail: format!("apply_external_diffs returned Err({}) for the batch flushed after step {} ({:?})", e, i, op),
                    });
                    return Some((ds, steps, sent_any, 0));
                }
                Ok(Ok(())) => {}
            }
            let a = obs::observe(&p, &o);
            let b = obs::observe(&r, &o);
            if a != b {
                let df = obs::diff(&a, &b);
                // name the culprit: the first step at which a replica fed step by step diverges; if it never
                // does, the divergence needs this particular batching and the batch's kinds are named instead
                let (culprit, sdf) = match first_divergent_step(seed, word) {
                    Some((j, d)) => (format!("step:{}", word[j].kind()), d),
                    None => (format!("batch:{}", op.kind()), df.clone()),
                };
                // context: structural edits earlier in the history (several recorded defects need one)
                let upto = match first_divergent_step(seed, word) { Some((j, _)) => j, None => i };
                let ctx: std::collections::BTreeSet<&str> = word[..upto]
                    .iter()
                    .map(|x| x.kind())
                    .filter(|k| matches!(*k, "InsertRows" | "InsertCols" | "DeleteRows" | "DeleteCols" | "MoveRows" | "MoveCols"))
                    .collect();
                let ctx: Vec<&str> = if culprit.ends_with(":Undo") || culprit.ends_with(":Redo") { ctx.into_iter().collect() } else { vec!["-"] };
                ds.push(Disagreement {
                    sig: format!("replica-diverges culprit={} ctx={} fields={} shape={}", culprit, ctx.join("+"), classes(&sdf), shape_tokens(&sdf)),
                    case: case.clone(),
                    detail: format!(
                        "after the batch flushed at step {} the replica (right) differs from the primary (left):\n{}",
                        i,
                        obs::diff_text(&df, 8)
                    ),
                });
                return Some((ds, steps, sent_any, 0));
            }
        }
    }
    let fin = obs::digest(&obs::observe(&p, &o));
    Some((ds, steps, sent_any, fin))
}

/// Flushes after every step; returns the index of the first step after which primary and replica differ,
/// with the difference seen there (empty when the replica returned an error).
fn first_divergent_step(seed: &'static str, word: &[Op]) -> Option<(usize, Vec<(String, String, String)>)> {
    let o = ObsOpts::default();
    let mut p = seeds::load(seed);
    let mut r = UserModel::from_bytes(seeds::seed_bytes(seed), "en").ok()?;
    for (i, op) in word.iter().enumerate() {
        let _ = crate::env::guarded(|| op.apply(&mut p));
        let bytes = p.flush_send_queue();
        match crate::env::guarded(|| r.apply_external_diffs(&bytes)) {
            Ok(Ok(())) => {}
            _ => return Some((i, vec![])),
        }
        let a = obs::observe(&p, &o);
        let b = obs::observe(&r, &o);
        if a != b {
            return Some((i, obs::diff(&a, &b)));
        }
    }
    None
}

fn judge_word(seed: &'static str, word: &[Op]) -> Option<Out> {
    let n = word.len();
    let mut out = Out { ds: vec![], runs: 0, steps: 0, nontrivial: 0, digests: vec![] };
    for cuts in 0..(1u32 << (n - 1)) {
        let (ds, steps, nt, fin) = judge_schedule(seed, word, cuts)?;
        out.runs += 1;
        out.steps += steps;
        if nt {
            out.nontrivial += 1;
        }
        if fin != 0 {
            out.digests.push(fin);
        }
        out.ds.extend(ds);
    }
    Some(out)
}

pub fn run(run: &mut Run) {
    let thorough = run.tier.thorough();
    let mut full = seeds::alphabet_full();
    full.push(Op::Undo);
    full.push(Op::Redo);
    let mut core = seeds::alphabet_core();
    core.push(Op::Undo);
    core.push(Op::Redo);
    let all_seeds: Vec<&'static str> = seeds::SEEDS.to_vec();
    let mut plans: Vec<(HistCfg, usize, &str, Vec<Op>)> = vec![
        (HistCfg { seeds: all_seeds.clone(), alphabet: full.clone(), depth: 1 }, 1, "full+undo/redo", vec![]),
        (HistCfg { seeds: if thorough { all_seeds.clone() } else { vec!["basic"] }, alphabet: full.clone(), depth: 2 }, 2, "full+undo/redo", vec![]),
        // every pair of operations followed by an undo (in the thorough tier from every seed and also followed by undo, redo):
        // what a later undo restores depends on what the replica built two steps earlier
        (HistCfg { seeds: if thorough { all_seeds.clone() } else { vec!["basic"] }, alphabet: full.clone(), depth: 2 }, 2, if thorough { "full+undo/redo, then undo" } else { "full+undo/redo x core+undo/redo, then undo" }, vec![Op::Undo]),
    ];
    if thorough {
        plans.push((HistCfg { seeds: vec!["basic"], alphabet: core.clone(), depth: 3 }, 3, "core+undo/redo", vec![]));
        plans.push((HistCfg { seeds: vec!["empty"], alphabet: core.clone(), depth: 3 }, 3, "core+undo/redo", vec![]));
        plans.push((HistCfg { seeds: vec!["basic"], alphabet: full.clone(), depth: 2 }, 2, "full+undo/redo, then undo, redo", vec![Op::Undo, Op::Redo]));
    } else {
        // depth 3 over a reduced interaction alphabet: every third core operation plus undo and redo
        let mut small: Vec<Op> = core.iter().step_by(3).cloned().collect();
        small.push(Op::Undo);
        small.push(Op::Redo);
        plans.push((HistCfg { seeds: vec!["basic"], alphabet: small, depth: 3 }, 3, "core/3+undo/redo", vec![]));
    }
    let mut outcomes = std::collections::HashSet::new();
    let mut bounds = vec![];
    for (cfg, len, name, suffix) in &plans {
        let (outs, st, errs) = hist::explore(cfg, *len, &|seed, word| {
            if suffix.is_empty() {
                judge_word(seed, word)
            } else {
                // quick tier: the operation before the suffix ranges over the interaction alphabet only
                if !thorough && !core.contains(word.last().unwrap()) {
                    return None;
                }
                let mut w = word.to_vec();
                w.extend(suffix.iter().cloned());
                judge_word(seed, &w)
            }
        });
        let len = &(*len + suffix.len());
        for e in errs {
            run.machinery_errors.push(e);
        }
        let mut runs = 0;
        for w in outs {
            runs += w.runs;
            run.evaluations += w.runs;
            run.traces += w.runs;
            run.transitions += w.steps;
            run.states += w.steps;
            run.nontrivial += w.nontrivial;
            for d in w.digests {
                outcomes.insert(d);
            }
            run.add_all(w.ds);
        }
        bounds.push(json!({"alphabet": name, "alphabet_size": cfg.alphabet.len(), "length": len, "flush_schedules_per_history": 1u32 << (len - 1),
            "seeds": cfg.seeds, "histories": st.words, "executions": runs}));
        if run.elapsed() > if thorough { 3000.0 } else { 600.0 } {
            run.cap_hit = Some(format!("wall clock after plan {} len {}", name, len));
            break;
        }
    }
    run.distinct_outcomes = outcomes.len() as u64;
    run.bound = json!({"plans": bounds, "hash_seed": crate::env::hash_seed()});
    run.rule = "every history of the stated length over operations ∪ {undo, redo} × EVERY way of cutting it into flush batches (2^(n-1) schedules); the primary runs the history flushing at the cuts, a replica loaded from the same initial bytes applies each flushed byte string; after every batch the observations must be equal. non-trivial = executions in which at least one non-empty batch was sent".into();
    run.sample(json!({"seed":"basic","ops":[core[0], Op::Undo],"cuts":1}));
    run.sample(json!({"seed":"basic","ops":[core[22], core[7], Op::Undo],"cuts":2}));
    run.sample(json!({"seed":"empty","ops":[full[60], Op::Redo],"cuts":0}));
    run.assume("one primary; the replica runs under the same hash seed in the same unit");
}

pub fn replay(case: &Value) -> Vec<Disagreement> {
    let seed = hist::seed_name(case["seed"].as_str().unwrap_or("empty"));
    let ops: Vec<Op> = serde_json::from_value(case["ops"].clone()).unwrap_or_default();
    let cuts = case["cuts"].as_u64().unwrap_or(0) as u32;
    judge_schedule(seed, &ops, cuts).map(|x| x.0).unwrap_or_default()
}

//! C22 Cell-reference and sheet-name codecs are bijective (complete sweeps + bounded-exhaustive names).
//!
//! Four families, each with an independent reference codec written here:
//!  * col     every column number 1..=16384 and every letter string of length <= 3 (+ invalid neighbours), both ways
//!  * ref     single-cell references: printed by the engine (A1 from a context cell, R1C1) must equal the reference
//!            text, and the reference text must parse to exactly the node
//!  * range   two-corner ranges incl. full-row / full-column forms, 16 flag combinations
//!  * name    every valid sheet name of length <= L over a tricky alphabet, quoted as the engine quotes it
//!            (`quote_name`), read back by the parser in A1 and R1C1 mode; and at model level: rename a sheet
//!            to it and reference it from another sheet

use crate::fx;
use crate::report::{Disagreement, Run};
use ironcalc_base::expressions::parser::stringify::{to_localized_string, to_rc_format};
use ironcalc_base::expressions::parser::{Node, Parser};
use ironcalc_base::expressions::utils::{column_to_number, number_to_column, quote_name};
use ironcalc_base::Model;
use serde_json::{json, Value};

const LAST_ROW: i32 = 1_048_576;
const LAST_COL: i32 = 16_384;

/// Reference column codec (bijective base 26), independent of the engine's.
fn ref_col(mut n: i32) -> String {
    let mut v = vec![];
    while n > 0 {
        let r = (n - 1) % 26;
        v.push((b'A' + r as u8) as char);
        n = (n - 1) / 26;
    }
    v.iter().rev().collect()
}

fn ref_col_number(s: &str) -> Option<i32> {
    if s.is_empty() || s.len() > 3 {
        return None;
    }
    let mut n: i64 = 0;
    for ch in s.chars() {
        if !ch.is_ascii_uppercase() {
            return None;
        }
        n = n * 26 + (ch as i64 - 'A' as i64 + 1);
    }
    if (1..=LAST_COL as i64).contains(&n) {
        Some(n as i32)
    } else {
        None
    }
}

fn d(case: Value, sig: String, detail: String) -> Disagreement {
    Disagreement { sig, case, detail }
}

// ------------------------------------------------------------------ columns

fn check_col_number(n: i32) -> Vec<Disagreement> {
    let mut out = vec![];
    let case = json!({"kind":"col","n":n});
    let got = number_to_column(n);
    let valid = (1..=LAST_COL).contains(&n);
    let want = if valid { Some(ref_col(n)) } else { None };
    if got != want {
        out.push(d(
            case.clone(),
            format!("col number->letters valid={}", valid),
            format!("number_to_column({}) = {:?}, expected {:?}", n, got, want),
        ));
    }
    if let Some(s) = &got {
        let back = column_to_number(s);
        if back != Ok(n) {
            out.push(d(
                case,
                "col number->letters->number".into(),
                format!("column_to_number(number_to_column({})) = {:?} via `{}`", n, back, s),
            ));
        }
    }
    out
}

fn check_col_string(s: &str) -> Vec<Disagreement> {
    let mut out = vec![];
    let case = json!({"kind":"colstr","s":s});
    let got = column_to_number(s).ok();
    let want = ref_col_number(s);
    if got != want {
        out.push(d(
            case.clone(),
            format!("col letters->number valid={}", want.is_some()),
            format!("column_to_number(`{}`) = {:?}, expected {:?}", s, got, want),
        ));
    }
    if let Some(n) = got {
        let back = number_to_column(n);
        if back.as_deref() != Some(s) {
            out.push(d(
                case,
                "col letters->number->letters".into(),
                format!("number_to_column(column_to_number(`{}`)) = {:?} via {}", s, back, n),
            ));
        }
    }
    out
}

fn all_col_strings() -> Vec<String> {
    let mut v = vec![];
    let az: Vec<char> = ('A'..='Z').collect();
    for a in &az {
        v.push(a.to_string());
    }
    for a in &az {
        for b in &az {
            v.push(format!("{}{}", a, b));
        }
    }
    for a in &az {
        for b in &az {
            for c in &az {
                v.push(format!("{}{}{}", a, b, c));
            }
        }
    }
    // invalid neighbours
    for s in ["", "a", "aa", "xfd", "Xfd", "A1", "1", "$A", "A$", "AAAA", "XFDA", "É", "Ä", "A A", " A", "A ", "-", "@"] {
        v.push(s.to_string());
    }
    v
}

// ------------------------------------------------------------------ single references

#[derive(Clone, Copy, Debug)]
struct RefCase {
    row: i32,
    col: i32,
    ar: bool,
    ac: bool,
    crow: i32,
    ccol: i32,
    rc: bool,
}

fn ref_case_json(c: &RefCase) -> Value {
    json!({"kind":"ref","row":c.row,"col":c.col,"ar":c.ar,"ac":c.ac,"ctx":[c.crow,c.ccol],"rc":c.rc})
}

fn a1_text(row: i32, col: i32, ar: bool, ac: bool) -> String {
    format!(
        "{}{}{}{}",
        if ac { "$" } else { "" },
        ref_col(col),
        if ar { "$" } else { "" },
        row
    )
}

fn rc_text(row: i32, col: i32, ar: bool, ac: bool) -> String {
    let r = if ar { format!("R{}", row) } else { format!("R[{}]", row) };
    let c = if ac { format!("C{}", col) } else { format!("C[{}]", col) };
    format!("{}{}", r, c)
}

fn flags(ar: bool, ac: bool) -> String {
    format!("{}c{}r", if ac { "$" } else { "" }, if ar { "$" } else { "" })
}

/// `pa` must be in A1 mode, `pr` in R1C1 mode, both English with sheet list ["Sheet1"].
fn check_ref(c: &RefCase, pa: &mut Parser, pr: &mut Parser) -> Option<Disagreement> {
    let node = Node::ReferenceKind {
        sheet_name: None,
        sheet_index: 0,
        absolute_row: c.ar,
        absolute_column: c.ac,
        row: if c.ar { c.row } else { c.row - c.crow },
        column: if c.ac { c.col } else { c.col - c.ccol },
    };
    let cx = fx::ctx("Sheet1", c.crow, c.ccol);
    let mode = if c.rc { "R1C1" } else { "A1" };
    let (printed, want) = if c.rc {
        let (rr, cc) = match &node {
            Node::ReferenceKind { row, column, .. } => (*row, *column),
            _ => (0, 0),
        };
        (to_rc_format(&node), rc_text(rr, cc, c.ar, c.ac))
    } else {
        (
            to_localized_string(&node, &cx, fx::loc("en"), fx::lang("en")),
            a1_text(c.row, c.col, c.ar, c.ac),
        )
    };
    if printed != want {
        return Some(d(
            ref_case_json(c),
            format!("ref print mode={} flags={}", mode, flags(c.ar, c.ac)),
            format!("printed `{}`, the address is `{}`", printed, want),
        ));
    }
    let parsed = if c.rc { pr.parse(&want, &cx) } else { pa.parse(&want, &cx) };
    if parsed != node {
        return Some(d(
            ref_case_json(c),
            format!("ref parse mode={} flags={} got={}", mode, flags(c.ar, c.ac), fx::kind(&parsed)),
            format!("`{}` parsed to {}\nexpected {}", want, fx::short(&parsed), fx::short(&node)),
        ));
    }
    if !c.rc {
        // lower case spelling denotes the same address
        let low = want.to_lowercase();
        let parsed = pa.parse(&low, &cx);
        if parsed != node {
            return Some(d(
                ref_case_json(c),
                format!("ref parse-lowercase flags={} got={}", flags(c.ar, c.ac), fx::kind(&parsed)),
                format!("`{}` parsed to {}\nexpected {}", low, fx::short(&parsed), fx::short(&node)),
            ));
        }
    }
    None
}

fn edge_rows() -> Vec<i32> {
    let mut v = vec![1, 2, 3, 10, 99, 100, 101, 999, 1000, 9999, 10000, 99999, 100000, 999999, 1000000];
    let mut p = 2;
    while p <= LAST_ROW {
        for x in [p - 1, p, p + 1] {
            if (1..=LAST_ROW).contains(&x) {
                v.push(x);
            }
        }
        p *= 2;
    }
    v.sort();
    v.dedup();
    v
}

fn edge_cols() -> Vec<i32> {
    vec![1, 2, 3, 18, 26, 27, 28, 52, 53, 701, 702, 703, 704, 728, 729, 16383, 16384]
}

fn quick_ref_cases() -> Vec<RefCase> {
    let mut v = vec![];
    let ctxs = [(1, 1), (1000, 100), (LAST_ROW, LAST_COL)];
    // edge rows x edge columns
    for &row in &edge_rows() {
        for &col in &edge_cols() {
            for (ar, ac) in [(false, false), (true, false), (false, true), (true, true)] {
                for &(crow, ccol) in &ctxs {
                    for rc in [false, true] {
                        v.push(RefCase { row, col, ar, ac, crow, ccol, rc });
                    }
                }
            }
        }
    }
    // every column at the first and last row
    for col in 1..=LAST_COL {
        for row in [1, LAST_ROW] {
            for (ar, ac) in [(false, false), (true, false), (false, true), (true, true)] {
                for rc in [false, true] {
                    v.push(RefCase { row, col, ar, ac, crow: 7, ccol: 9, rc });
                }
            }
        }
    }
    v
}

// ------------------------------------------------------------------ ranges

#[derive(Clone, Copy, Debug)]
struct RangeCase {
    r1: i32,
    c1: i32,
    r2: i32,
    c2: i32,
    f: u8, // bit0 ar1, bit1 ac1, bit2 ar2, bit3 ac2
    crow: i32,
    ccol: i32,
    rc: bool,
}

fn range_case_json(c: &RangeCase) -> Value {
    json!({"kind":"range","r1":c.r1,"c1":c.c1,"r2":c.r2,"c2":c.c2,"f":c.f,"ctx":[c.crow,c.ccol],"rc":c.rc})
}

fn check_range(c: &RangeCase, pa: &mut Parser, pr: &mut Parser) -> Option<Disagreement> {
    let (ar1, ac1, ar2, ac2) = (c.f & 1 != 0, c.f & 2 != 0, c.f & 4 != 0, c.f & 8 != 0);
    let rel = |abs: bool, v: i32, base: i32| if abs { v } else { v - base };
    let node = Node::RangeKind {
        sheet_name: None,
        sheet_index: 0,
        absolute_row1: ar1,
        absolute_column1: ac1,
        row1: rel(ar1, c.r1, c.crow),
        column1: rel(ac1, c.c1, c.ccol),
        absolute_row2: ar2,
        absolute_column2: ac2,
        row2: rel(ar2, c.r2, c.crow),
        column2: rel(ac2, c.c2, c.ccol),
    };
    let cx = fx::ctx("Sheet1", c.crow, c.ccol);
    let mode = if c.rc { "R1C1" } else { "A1" };
    let full_row = ar1 && ar2 && c.r1 == 1 && c.r2 == LAST_ROW;
    let full_col = ac1 && ac2 && c.c1 == 1 && c.c2 == LAST_COL;
    let shape = match (full_row, full_col) {
        (true, true) => "whole-sheet",
        (true, false) => "column-range",
        (false, true) => "row-range",
        _ => "cells",
    };
    let fl = format!("{}:{}", flags(ar1, ac1), flags(ar2, ac2));
    let (printed, want): (String, Option<String>) = if c.rc {
        let (a, b, cc, dd) = match &node {
            Node::RangeKind { row1, column1, row2, column2, .. } => (*row1, *column1, *row2, *column2),
            _ => (0, 0, 0, 0),
        };
        (
            to_rc_format(&node),
            Some(format!("{}:{}", rc_text(a, b, ar1, ac1), rc_text(cc, dd, ar2, ac2))),
        )
    } else {
        let want = match (full_row, full_col) {
            // the statement does not say how the whole sheet is spelled; only the round trip is checked
            (true, true) => None,
            (true, false) => Some(format!(
                "{}{}:{}{}",
                if ac1 { "$" } else { "" },
                ref_col(c.c1),
                if ac2 { "$" } else { "" },
                ref_col(c.c2)
            )),
            (false, true) => Some(format!(
                "{}{}:{}{}",
                if ar1 { "$" } else { "" },
                c.r1,
                if ar2 { "$" } else { "" },
                c.r2
            )),
            _ => Some(format!("{}:{}", a1_text(c.r1, c.c1, ar1, ac1), a1_text(c.r2, c.c2, ar2, ac2))),
        };
        (to_localized_string(&node, &cx, fx::loc("en"), fx::lang("en")), want)
    };
    if let Some(w) = &want {
        if &printed != w {
            return Some(d(
                range_case_json(c),
                format!("range print mode={} shape={} flags={}", mode, shape, fl),
                format!("printed `{}`, the address is `{}`", printed, w),
            ));
        }
    }
    let text = want.unwrap_or_else(|| printed.clone());
    let parsed = if c.rc { pr.parse(&text, &cx) } else { pa.parse(&text, &cx) };
    if parsed != node {
        return Some(d(
            range_case_json(c),
            format!(
                "range parse mode={} shape={} flags={} got={}",
                mode,
                shape,
                if shape == "cells" { fl } else { "*".into() },
                fx::kind(&parsed)
            ),
            format!("`{}` parsed to {}\nexpected {}", text, fx::short(&parsed), fx::short(&node)),
        ));
    }
    None
}

fn range_cases() -> Vec<RangeCase> {
    let rows = [1, 2, 7, LAST_ROW - 1, LAST_ROW];
    let cols = [1, 2, 26, 27, LAST_COL - 1, LAST_COL];
    let mut v = vec![];
    for (i, &r1) in rows.iter().enumerate() {
        for &r2 in &rows[i..] {
            for (j, &c1) in cols.iter().enumerate() {
                for &c2 in &cols[j..] {
                    for f in 0..16u8 {
                        for (crow, ccol) in [(1, 1), (500, 30)] {
                            for rc in [false, true] {
                                v.push(RangeCase { r1, c1, r2, c2, f, crow, ccol, rc });
                            }
                        }
                    }
                }
            }
        }
    }
    v
}

// ------------------------------------------------------------------ sheet names

pub fn name_alphabet() -> Vec<char> {
    vec![
        'A', 'R', 'C', 'T', 'e', 'x', '1', '0', ' ', '\'', '!', '$', '-', '+', '(', ')', ',', ';', '{', '}', '.',
        '_', '&', '#', '@', '"', '=', '<', '>', '%', '^', '~', '|', 'é', '😀',
    ]
}

fn word_names() -> Vec<&'static str> {
    vec![
        "TRUE", "FALSE", "true", "WAHR", "R1C1", "RC", "R1", "C1", "RC1", "R1C", "A1", "a1", "XFD1048576", "XFE1",
        "A1048577", "SUM", "1E5", "1e5", "E5", "It's", "a''b", "'a'", "''", "#REF!", "#N_A", "Sheet 1", "My.Sheet",
        "_x", "x_1", "Sheet1!A1", "A1:B2x", "R[1]C", "1.5", "-1", "a b'c d", "ÀÉ", "日本", "1234567890123456789012345678901",
        "ABCDEFGHIJKLMNOPQRSTUVWXYZABCDE", "Sheet2", "Table1", "TRUE1", "T", "F", "R", "C", "r", "c", "rc", "R0C0",
    ]
}

fn name_is_valid(name: &str) -> bool {
    // the engine's own rule, asked of the engine: a sheet can be added under that name
    let mut m = match Model::new_empty("m", "en", "UTC", "en") {
        Ok(m) => m,
        Err(_) => return false,
    };
    m.add_sheet(name).is_ok()
}

fn name_shape(name: &str) -> String {
    name.chars()
        .map(|c| {
            if c.is_ascii_digit() {
                '9'
            } else if c.is_alphabetic() {
                if "RCrc".contains(c) {
                    'R'
                } else {
                    'L'
                }
            } else {
                c
            }
        })
        .collect()
}

/// Lexer/parser level: returns (stage, detail) of the first failing stage.
fn name_lex_fail(name: &str) -> Option<(String, String)> {
    let q = quote_name(name);
    let sheets = ["Sheet1", name];
    let mut pa = fx::mk_parser(&sheets, vec![], fx::loc("en"), fx::lang("en"));
    let mut pr = fx::mk_parser(&sheets, vec![], fx::loc("en"), fx::lang("en"));
    fx::set_rc(&mut pr, true);
    let cx = fx::ctx("Sheet1", 1, 1);
    let node = Node::ReferenceKind {
        sheet_name: Some(name.to_string()),
        sheet_index: 1,
        absolute_row: false,
        absolute_column: true,
        row: 2,
        column: 3,
    };
    let quoted = q != name;
    // 1. the quoted name followed by an address, as typed
    let text = format!("{}!$C3", q);
    let got = pa.parse(&text, &cx);
    if got != node {
        return Some((
            format!("lex-a1 quoted={}", quoted),
            format!("`{}` parsed to {}\nexpected a reference to sheet `{}`", text, fx::short(&got), name),
        ));
    }
    // 2. inside an expression (nothing before or after is swallowed)
    let text2 = format!("1+{}!$C3*2", q);
    let got = pa.parse(&text2, &cx);
    let want2 = pa.parse("1+zzzz*2", &cx);
    let ok = match (&got, &want2) {
        (Node::OpSumKind { right: r1, .. }, Node::OpSumKind { .. }) => match r1.as_ref() {
            Node::OpProductKind { left, .. } => **left == node,
            _ => false,
        },
        _ => false,
    };
    if !ok {
        return Some((
            format!("lex-a1-in-expression quoted={}", quoted),
            format!("`{}` parsed to {}", text2, fx::short(&got)),
        ));
    }
    // 3. printers: display and stored form read back
    let shown = to_localized_string(&node, &cx, fx::loc("en"), fx::lang("en"));
    if shown != format!("{}!$C3", q) {
        return Some((
            format!("print-a1 quoted={}", quoted),
            format!("printed `{}`, expected `{}!$C3`", shown, q),
        ));
    }
    let stored = to_rc_format(&node);
    let got = pr.parse(&stored, &cx);
    if got != node {
        return Some((
            format!("lex-rc quoted={}", quoted),
            format!("stored form `{}` parsed to {}", stored, fx::short(&got)),
        ));
    }
    // 4. a range on that sheet
    let rnode = Node::RangeKind {
        sheet_name: Some(name.to_string()),
        sheet_index: 1,
        absolute_row1: true,
        absolute_column1: true,
        row1: 1,
        column1: 1,
        absolute_row2: true,
        absolute_column2: true,
        row2: 2,
        column2: 2,
    };
    let shown = to_localized_string(&rnode, &cx, fx::loc("en"), fx::lang("en"));
    let got = pa.parse(&shown, &cx);
    if got != rnode {
        return Some((
            format!("lex-a1-range quoted={}", quoted),
            format!("`{}` parsed to {}", shown, fx::short(&got)),
        ));
    }
    let stored = to_rc_format(&rnode);
    let got = pr.parse(&stored, &cx);
    if got != rnode {
        return Some((
            format!("lex-rc-range quoted={}", quoted),
            format!("stored form `{}` parsed to {}", stored, fx::short(&got)),
        ));
    }
    None
}

/// Model level: a sheet renamed to `name`, referenced from another sheet.
fn name_model_fail(name: &str) -> Option<(String, String)> {
    let mut m = Model::new_empty("m", "en", "UTC", "en").ok()?;
    m.add_sheet("Other").ok()?;
    let _ = m.set_user_input(1, 2, 2, "41".to_string());
    let _ = m.set_user_input(0, 1, 1, "=Other!$B$2+1".to_string());
    m.evaluate();
    if m.rename_sheet_by_index(1, name).is_err() {
        return None; // not a valid (or a duplicate) name: outside the quantifier
    }
    m.evaluate();
    let q = quote_name(name);
    let value = |m: &Model, r: i32, c: i32| format!("{:?}", m.get_cell_value_by_index(0, r, c));
    let v = value(&m, 1, 1);
    if v != "Ok(Number(42.0))" {
        return Some((
            "model-rename-value".into(),
            format!("after renaming Other to `{}`, =Other!$B$2+1 evaluates to {} (was 42)", name, v),
        ));
    }
    let shown = m.get_cell_formula(0, 1, 1).ok().flatten().unwrap_or_default();
    let want = format!("={}!$B$2+1", q);
    if shown != want {
        return Some((
            "model-rename-shown".into(),
            format!("formula shown `{}`, expected `{}`", shown, want),
        ));
    }
    // re-enter the shown text in another cell: same stored formula, same value
    if let Err(e) = m.set_user_input(0, 3, 1, shown.clone()) {
        return Some(("model-reenter-error".into(), format!("re-entering `{}` failed: {}", shown, e)));
    }
    m.evaluate();
    let v = value(&m, 3, 1);
    let f1 = m.get_cell_formula(0, 1, 1).ok().flatten().unwrap_or_default();
    let f3 = m.get_cell_formula(0, 3, 1).ok().flatten().unwrap_or_default();
    if v != "Ok(Number(42.0))" || f1 != f3 {
        return Some((
            "model-reenter".into(),
            format!("re-entering `{}` gives value {} and formula `{}`", shown, v, f3),
        ));
    }
    let (s1, s3) = (fx::stored_rc(&m, 0, 1, 1), fx::stored_rc(&m, 0, 3, 1));
    if s1.is_none() || s1 != s3 {
        return Some((
            "model-reenter-stored".into(),
            format!("stored formula {:?}, re-entered text is stored as {:?}", s1, s3),
        ));
    }
    // save / load
    let bytes = m.to_bytes();
    match Model::from_bytes(&bytes, "en") {
        Ok(mut m2) => {
            m2.evaluate();
            let v2 = value(&m2, 1, 1);
            let f2 = m2.get_cell_formula(0, 1, 1).ok().flatten().unwrap_or_default();
            if v2 != "Ok(Number(42.0))" || f2 != want {
                return Some((
                    "model-reload".into(),
                    format!("after to_bytes/from_bytes value {} formula `{}`", v2, f2),
                ));
            }
        }
        Err(e) => return Some(("model-reload-error".into(), e)),
    }
    None
}

/// Shrinks a failing name by deleting characters while it stays valid and fails at the same stage.
fn minimise(name: &str, stage: &str, f: &dyn Fn(&str) -> Option<(String, String)>) -> String {
    let mut cur: Vec<char> = name.chars().collect();
    loop {
        let mut shrunk = false;
        for i in 0..cur.len() {
            if cur.len() == 1 {
                break;
            }
            let mut t = cur.clone();
            t.remove(i);
            let s: String = t.iter().collect();
            if s == "Sheet1" || !name_is_valid(&s) {
                continue;
            }
            if let Some((st, _)) = f(&s) {
                if st == stage {
                    cur = t;
                    shrunk = true;
                    break;
                }
            }
        }
        if !shrunk {
            break;
        }
    }
    cur.iter().collect()
}

fn check_name(name: &str, model_level: bool) -> (bool, Vec<Disagreement>) {
    let mut out = vec![];
    if name == "Sheet1" || name.to_uppercase() == "SHEET1" || name.to_uppercase() == "OTHER" || !name_is_valid(name) {
        return (false, out);
    }
    if let Some((stage, detail)) = name_lex_fail(name) {
        let min = minimise(name, &stage, &name_lex_fail);
        out.push(d(
            json!({"kind":"name","name":name,"level":"lex"}),
            format!("sheet-name {} shape={}", stage, name_shape(&min)),
            format!("name `{}` (smallest failing part `{}`), quoted as `{}`\n{}", name, min, quote_name(name), detail),
        ));
    } else if model_level {
        if let Some((stage, detail)) = name_model_fail(name) {
            let min = minimise(name, &stage, &name_model_fail);
            out.push(d(
                json!({"kind":"name","name":name,"level":"model"}),
                format!("sheet-name {} shape={}", stage, name_shape(&min)),
                format!("name `{}` (smallest failing part `{}`)\n{}", name, min, detail),
            ));
        }
    }
    (true, out)
}

fn names_up_to(len: usize) -> Vec<String> {
    let a = name_alphabet();
    let mut v: Vec<String> = vec![];
    let mut cur: Vec<String> = vec![String::new()];
    for _ in 0..len {
        let mut next = vec![];
        for p in &cur {
            for c in &a {
                let mut s = p.clone();
                s.push(*c);
                next.push(s);
            }
        }
        v.extend(next.iter().cloned());
        cur = next;
    }
    v.extend(word_names().iter().map(|s| s.to_string()));
    v
}

// ------------------------------------------------------------------ driver

fn parsers() -> (Parser<'static>, Parser<'static>) {
    let pa = fx::mk_parser(&["Sheet1"], vec![], fx::loc("en"), fx::lang("en"));
    let mut pr = fx::mk_parser(&["Sheet1"], vec![], fx::loc("en"), fx::lang("en"));
    fx::set_rc(&mut pr, true);
    (pa, pr)
}

pub fn run(run: &mut Run) {
    let thorough = run.tier.thorough();
    let mut distinct: std::collections::BTreeSet<u128> = Default::default();
    let mut evals = 0u64;
    let mut calls = 0u64;

    // columns
    let col_numbers: Vec<i32> = (-2..=LAST_COL + 3).chain([i32::MAX, i32::MIN, 18_278, 18_279, 475_254]).collect();
    let col_strings = all_col_strings();
    for &n in &col_numbers {
        run.add_all(check_col_number(n));
    }
    for s in &col_strings {
        run.add_all(check_col_string(s));
    }
    evals += (col_numbers.len() + col_strings.len()) as u64;
    calls += 2 * (col_numbers.len() + col_strings.len()) as u64;
    let mut letters: std::collections::BTreeSet<String> = Default::default();
    for n in 1..=LAST_COL {
        if let Some(s) = number_to_column(n) {
            letters.insert(s);
        }
    }
    if letters.len() != LAST_COL as usize {
        run.add(d(
            json!({"kind":"col-distinct"}),
            "col not-injective".into(),
            format!("{} distinct letter strings for {} columns", letters.len(), LAST_COL),
        ));
    }
    run.sample(json!({"kind":"col","n":703,"letters":number_to_column(703)}));

    // single references, edge set
    let rcases = quick_ref_cases();
    let chunk = 8192;
    let units = rcases.len().div_ceil(chunk);
    let res = crate::env::par_units(units, |u| {
        let (mut pa, mut pr) = parsers();
        let mut ds = vec![];
        for c in rcases.iter().skip(u * chunk).take(chunk) {
            if let Some(x) = check_ref(c, &mut pa, &mut pr) {
                ds.push(x);
            }
        }
        ds
    });
    for r in res {
        match r {
            Ok(ds) => run.add_all(ds),
            Err(e) => run.machinery_errors.push(format!("ref unit panicked: {}", e)),
        }
    }
    evals += rcases.len() as u64;
    calls += 3 * rcases.len() as u64;
    run.sample(ref_case_json(&rcases[rcases.len() / 3]));

    // all rows (thorough)
    let mut all_rows = 0u64;
    if thorough {
        let cols = [1, 26, 27, LAST_COL];
        let block = 16_384;
        let units = (LAST_ROW as usize).div_ceil(block);
        let res = crate::env::par_units(units, |u| {
            let (mut pa, mut pr) = parsers();
            let mut ds = vec![];
            let lo = (u * block) as i32 + 1;
            let hi = ((u + 1) * block).min(LAST_ROW as usize) as i32;
            for row in lo..=hi {
                for &col in &cols {
                    for (ar, ac) in [(false, false), (true, false), (false, true), (true, true)] {
                        for rc in [false, true] {
                            for (crow, ccol) in [(1, 1), (524_288, 8_192), (LAST_ROW, LAST_COL)] {
                                let c = RefCase { row, col, ar, ac, crow, ccol, rc };
                                if let Some(x) = check_ref(&c, &mut pa, &mut pr) {
                                    ds.push(x);
                                }
                            }
                        }
                    }
                }
            }
            ds
        });
        for r in res {
            match r {
                Ok(ds) => run.add_all(ds),
                Err(e) => run.machinery_errors.push(format!("row unit panicked: {}", e)),
            }
        }
        all_rows = LAST_ROW as u64 * 4 * 4 * 2 * 3;
        evals += all_rows;
        calls += 3 * all_rows;
    }

    // ranges
    let gcases = range_cases();
    let units = gcases.len().div_ceil(chunk);
    let res = crate::env::par_units(units, |u| {
        let (mut pa, mut pr) = parsers();
        let mut ds = vec![];
        for c in gcases.iter().skip(u * chunk).take(chunk) {
            if let Some(x) = check_range(c, &mut pa, &mut pr) {
                ds.push(x);
            }
        }
        ds
    });
    for r in res {
        match r {
            Ok(ds) => run.add_all(ds),
            Err(e) => run.machinery_errors.push(format!("range unit panicked: {}", e)),
        }
    }
    evals += gcases.len() as u64;
    calls += 2 * gcases.len() as u64;
    run.sample(range_case_json(&gcases[gcases.len() / 2]));

    // sheet names
    let l = if thorough { 3 } else { 2 };
    let names = names_up_to(l);
    let nchunk = 256;
    let units = names.len().div_ceil(nchunk);
    let res = crate::env::par_units(units, |u| {
        let mut ds = vec![];
        let mut valid = 0u64;
        let mut quoted = 0u64;
        for n in names.iter().skip(u * nchunk).take(nchunk) {
            let (v, x) = check_name(n, true);
            if v {
                valid += 1;
                if quote_name(n) != *n {
                    quoted += 1;
                }
            }
            ds.extend(x);
        }
        (ds, valid, quoted)
    });
    let mut valid_names = 0u64;
    let mut quoted_names = 0u64;
    for r in res {
        match r {
            Ok((ds, v, q)) => {
                run.add_all(ds);
                valid_names += v;
                quoted_names += q;
            }
            Err(e) => run.machinery_errors.push(format!("name unit panicked: {}", e)),
        }
    }
    evals += names.len() as u64;
    calls += valid_names * 12;
    run.sample(json!({"kind":"name","name":names[names.len() / 2]}));

    for c in &rcases {
        distinct.insert(crate::env::digest(&a1_text(c.row, c.col, c.ar, c.ac)));
    }
    run.evaluations = evals;
    run.states = evals;
    run.transitions = calls;
    run.traces = evals;
    run.nontrivial = distinct.len() as u64 + valid_names + LAST_COL as u64;
    run.distinct_outcomes = distinct.len() as u64 + letters.len() as u64 + quoted_names;
    run.rule = "distinct printed addresses of the edge set + valid sheet names (accepted by add_sheet) + columns; every case prints with the engine and parses with the engine and is compared with the harness's own codec".into();
    run.bound = json!({
        "columns": {"numbers": col_numbers.len(), "letter_strings": col_strings.len()},
        "references_edge_set": {"cases": rcases.len(), "rows": edge_rows().len(), "columns": edge_cols().len(), "contexts": 3, "flags": 4, "modes": ["A1","R1C1"], "plus": "every column at rows 1 and 1048576"},
        "references_all_rows": {"cases": all_rows, "columns": ["A","Z","AA","XFD"], "contexts": ["A1", "row 524288 column 8192", "XFD1048576"]},
        "ranges": {"cases": gcases.len(), "rows": [1,2,7,LAST_ROW-1,LAST_ROW], "columns": [1,2,26,27,LAST_COL-1,LAST_COL], "flag_combinations": 16, "contexts": 2},
        "sheet_names": {"alphabet": name_alphabet().iter().collect::<String>(), "max_len": l, "extra_words": word_names().len(), "enumerated": names.len(), "valid": valid_names, "quoted_by_engine": quoted_names, "levels": ["parser A1","parser R1C1","model rename + re-entry + to_bytes/from_bytes"]},
    });
    run.exhaustive = true;
    run.assume("a sheet name is valid iff Model::add_sheet accepts it (the engine's own rule); names equal to an existing sheet up to case are outside the quantifier");
    run.assume("addresses are printed with the English locale and language; the A1 spelling of the whole-sheet range is not prescribed, only its round trip");
    run.assume("the parser is asked through Parser::parse, which does not report unconsumed trailing input; names are therefore also checked embedded in `1+<name>!$C3*2`");
}

pub fn replay(case: &Value) -> Vec<Disagreement> {
    let (mut pa, mut pr) = parsers();
    let b = |k: &str| case[k].as_bool().unwrap_or(false);
    let i = |k: &str| case[k].as_i64().unwrap_or(0) as i32;
    match case["kind"].as_str().unwrap_or("") {
        "col" => check_col_number(i("n")),
        "colstr" => check_col_string(case["s"].as_str().unwrap_or("")),
        "ref" => {
            let c = RefCase {
                row: i("row"),
                col: i("col"),
                ar: b("ar"),
                ac: b("ac"),
                crow: case["ctx"][0].as_i64().unwrap_or(1) as i32,
                ccol: case["ctx"][1].as_i64().unwrap_or(1) as i32,
                rc: b("rc"),
            };
            check_ref(&c, &mut pa, &mut pr).into_iter().collect()
        }
        "range" => {
            let c = RangeCase {
                r1: i("r1"),
                c1: i("c1"),
                r2: i("r2"),
                c2: i("c2"),
                f: i("f") as u8,
                crow: case["ctx"][0].as_i64().unwrap_or(1) as i32,
                ccol: case["ctx"][1].as_i64().unwrap_or(1) as i32,
                rc: b("rc"),
            };
            check_range(&c, &mut pa, &mut pr).into_iter().collect()
        }
        "name" => check_name(case["name"].as_str().unwrap_or(""), true).1,
        _ => vec![],
    }
}

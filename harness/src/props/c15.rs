//! C15 Moving rows or columns is a pure permutation.
//!
//! Same workbooks and observers as C12; operations: every block (start 1–5, size 1–3) moved by ±1..±3, plus moves
//! against the last row/column. Oracle: the permutation of `structural::map_t`; ranges straddling the moved block or
//! the shifted band are not judged (the statement excludes them).

use crate::report::{Disagreement, Run};
use crate::structural::{self as st, Axis, SOp, Spec};
use serde_json::{json, Value};

pub fn ops(thorough: bool, axis: Axis, pair: bool) -> Vec<SOp> {
    let mut v = vec![];
    let nmax = if thorough && !pair { 3 } else { 2 };
    for s in 1..=5 {
        for n in 1..=nmax {
            for d in [1i32, -1, 2, -2, 3, -3] {
                if s + d < 1 {
                    continue;
                }
                if (!thorough && d.abs() == 3 && n == 2) || (pair && d.abs() == 3) {
                    continue;
                }
                v.push(SOp::Move { s, n, d });
            }
        }
    }
    let last = axis.last();
    v.push(SOp::Move { s: last - 2, n: 1, d: 2 });
    v.push(SOp::Move { s: last, n: 1, d: -2 });
    v.push(SOp::Move { s: last - 6, n: 2, d: 1 });
    v
}

pub fn run(run: &mut Run) {
    let thorough = run.tier.thorough();
    let specs = st::specs(thorough, true);
    let f = move |s: &Spec| ops(thorough, s.axis, s.interesting.len() > 1);
    let (out, errs) = st::run_family(&specs, &f, "C15", true);
    run.sample(st::case_json("C15", &specs[0], st::Api::Model, &f(&specs[0])[0]));
    run.sample(st::case_json("C15", &specs[specs.len() / 2], st::Api::User, &f(&specs[specs.len() / 2])[7]));
    run.sample(st::case_json("C15", &specs[specs.len() - 1], st::Api::User, f(&specs[specs.len() - 1]).last().unwrap()));
    run.bound = json!({
        "workbooks": specs.len(),
        "orientations": ["rows", "columns"],
        "variants": "3 (variant 1 has a hidden row/column at position 4: UserModel moves across it)",
        "interesting_contents": st::CONTENTS,
        "interesting_cells_per_workbook": if thorough { "1 (all variants) and 2 (variant 0, unordered content pairs, block size <= 2, |delta| <= 2)" } else { "1" },
        "block_start": "1..=5 and against the last row/column",
        "block_size": if thorough { "1..=3" } else { "1..=2" },
        "delta": "+-1..+-3",
        "apis": ["Model", "UserModel"],
        "hash_seed": crate::env::hash_seed(),
    });
    run.rule = "every accepted move (moves that would split an array are refused by the engine and counted); each permutes at least two data cells".into();
    run.assume("ranges straddling the moved block or the shifted band, and full row/column ranges, are not judged (statement)");
    run.assume("UserModel lengthens the move when hidden rows/columns lie in the landing zone; the statement does not say by how much, so the effective delta is read from where the block's first cell landed (same direction, up to 3 further) and everything else is judged against that permutation");
    run.assume("hash-map iteration order fixed by VERIF_HASH_SEED for this run (listed seed only)");
    st::fill_run(run, out, errs);
}

pub fn replay(case: &Value) -> Vec<Disagreement> {
    st::replay_case(case, true)
}

use crate::report::{Disagreement, Run, Tier};
use serde_json::Value;

pub mod c23;

pub struct Prop {
    pub id: &'static str,
    pub run: fn(&mut Run),
    pub replay: fn(&Value) -> Vec<Disagreement>,
}

pub fn registry() -> Vec<Prop> {
    vec![
        Prop { id: "C23", run: c23::run, replay: c23::replay },
    ]
}

pub fn run_check(id: &str, tier: Tier) -> i32 {
    for p in registry() {
        if p.id == id {
            let mut run = Run::new(id, tier);
            (p.run)(&mut run);
            return run.finish();
        }
    }
    eprintln!("MACHINERY: unknown property {}", id);
    2
}

pub fn replay_file(path: &str) -> i32 {
    let txt = match std::fs::read_to_string(path) {
        Ok(t) => t,
        Err(e) => {
            eprintln!("MACHINERY: cannot read {}: {}", path, e);
            return 2;
        }
    };
    let v: Value = match serde_json::from_str(&txt) {
        Ok(v) => v,
        Err(e) => {
            eprintln!("MACHINERY: bad replay file: {}", e);
            return 2;
        }
    };
    let id = v["property"].as_str().unwrap_or("");
    for p in registry() {
        if p.id == id {
            // replay three times in fresh threads: the observation must be identical
            let mut outs = vec![];
            for _ in 0..3 {
                let r = crate::env::fresh(|| (p.replay)(&v["case"]));
                match r {
                    Ok(ds) => outs.push(ds.iter().map(|d| format!("{}\n{}", d.sig, d.detail)).collect::<Vec<_>>()),
                    Err(e) => outs.push(vec![format!("PANIC {}", e)]),
                }
            }
            if outs[0] != outs[1] || outs[1] != outs[2] {
                println!("MACHINERY: replay is not deterministic");
                return 4;
            }
            if outs[0].is_empty() {
                println!("replay: property {} holds on this case", id);
                return 0;
            }
            for o in &outs[0] {
                println!("VIOLATION property={} replay={}", id, path);
                println!("{}", o);
            }
            return 1;
        }
    }
    eprintln!("MACHINERY: unknown property in replay file");
    2
}

//! C26 Saving to and loading from the internal binary format is lossless.

use crate::hist::{self, HistCfg};
use crate::obs::{self, ObsOpts};
use crate::ops::Op;
use crate::props::c01::classes;
use crate::report::{Disagreement, Run};
use crate::seeds;
use ironcalc_base::UserModel;
use serde_json::{json, Value};

pub struct Out {
    pub ds: Vec<Disagreement>,
    pub key: u128,
}

pub fn judge(seed: &'static str, word: &[Op]) -> Option<Out> {
    let case = hist::case_json(seed, word);
    // every reachable state counts, also the ones left by a call that returned an error
    let mut um = if seed.starts_with("fresh:") {
        let mut it = seed[6..].split('/');
        let loc = it.next().unwrap_or("en");
        let lang = it.next().unwrap_or("en");
        let loc_s: &'static str = crate::fnum::LOCALES.iter().find(|l| **l == loc).copied().unwrap_or("en");
        let lang_s: &'static str = crate::props::c23::LANGS.iter().find(|l| **l == lang).copied().unwrap_or("en");
        UserModel::new_empty("fresh", loc_s, "UTC", lang_s).ok()?
    } else {
        seeds::load(seed)
    };
    let mut failed: Vec<&'static str> = vec![];
    for op in word {
        match crate::env::guarded(|| op.apply(&mut um)) {
            Err(_) => return None, // panics are C27's / C11's subject
            Ok(Err(_)) => failed.push(op.kind()),
            Ok(Ok(())) => {}
        }
    }
    // a state left by a call that returned an error is named in the signature (C04 judges the call itself)
    let ctx = if failed.is_empty() { String::new() } else { format!(" after-failed={}", failed.join("+")) };
    let mut ds = vec![];
    let o = ObsOpts { view: true, ..Default::default() };
    let key = obs::state_key(um.get_model());
    let last = word.last().map(|x| x.kind()).unwrap_or("seed");
    let bytes = um.to_bytes();
    let lang = um.get_language();
    let lang_static: &'static str = crate::props::c23::LANGS.iter().find(|l| **l == lang).copied().unwrap_or("en");
    let r = crate::env::guarded(|| UserModel::from_bytes(&bytes, lang_static));
    let mut um2 = match r {
        Err(p) => {
            ds.push(Disagreement { sig: format!("panic from_bytes at={}", p.split(" @ ").last().unwrap_or("")), case, detail: p });
            return Some(Out { ds, key });
        }
        Ok(Err(e)) => {
            ds.push(Disagreement { sig: format!("from_bytes-error last-op={}{}", last, ctx), case, detail: format!("from_bytes(to_bytes(m)) failed: {}", e) });
            return Some(Out { ds, key });
        }
        Ok(Ok(m)) => m,
    };
    // 1. identical workbook structure
    // from_bytes evaluates the loaded workbook, and the origin / message recorded inside an error value depend on where
    // that evaluation happened to start (e.g. which cell of a cycle reports #CIRC! first); they are not values, contents
    // or formula texts, so the structures are compared modulo those two fields
    let strip = |t: String| -> String {
        let mut out = String::with_capacity(t.len());
        let mut rest = t.as_str();
        while let Some(i) = rest.find(", o: \"") {
            out.push_str(&rest[..i]);
            let tail = &rest[i..];
            match tail.find(" }") {
                Some(j) => rest = &tail[j..],
                None => {
                    rest = "";
                }
            }
        }
        out.push_str(rest);
        out
    };
    let ta = strip(obs::state_text(um.get_model()));
    let tb = strip(obs::state_text(um2.get_model()));
    if ta != tb {
        let a = ta.clone();
        let b = tb.clone();
        let pos = a.bytes().zip(b.bytes()).position(|(x, y)| x != y).unwrap_or(0);
        let mut lo = pos.saturating_sub(80);
        while !a.is_char_boundary(lo) { lo -= 1; }
        ds.push(Disagreement {
            sig: format!("workbook-differs-after-reload last-op={}{}{}", last, if lang_static == "en" { String::new() } else { format!(" lang={}", lang_static) }, ctx),
            case: case.clone(),
            detail: format!("decode(encode(w)) != w near: `{}` vs `{}`", a.get(lo..).map(|x| x.chars().take(160).collect::<String>()).unwrap_or_default(), b.get(lo..).map(|x| x.chars().take(160).collect::<String>()).unwrap_or_default()),
        });
    }
    // 2. identical observation (contents, formula texts, values, styles ...) before and after an extra evaluate
    let oa = obs::observe(&um, &o);
    let ob = obs::observe(&um2, &o);
    if oa != ob {
        let df = obs::diff(&oa, &ob);
        ds.push(Disagreement {
            sig: format!("observation-differs-after-reload fields={}{}", classes(&df), ctx),
            case: case.clone(),
            detail: format!("reloaded model (right) differs from the original (left):\n{}", obs::diff_text(&df, 8)),
        });
    } else {
        um2.evaluate();
        let oc = obs::observe(&um2, &o);
        if oa != oc {
            let df = obs::diff(&oa, &oc);
            ds.push(Disagreement {
                sig: format!("evaluation-after-reload-differs fields={}{}", classes(&df), ctx),
                case: case.clone(),
                detail: format!("evaluating the reloaded model changes it (right) against the original (left):\n{}", obs::diff_text(&df, 8)),
            });
        }
    }
    Some(Out { ds, key })
}

pub fn run(run: &mut Run) {
    let thorough = run.tier.thorough();
    let mut full = seeds::alphabet_full();
    full.extend(vec![
        Op::SetLanguage("de".into()),
        Op::SetLanguage("fr".into()),
        Op::Undo,
        // calls that fail (or are repaired on entry) must not leave something behind that does not survive the round trip
        Op::SetTimezone("Mars/Olympus".into()),
        Op::SetLocale("xx".into()),
        Op::RenameSheet(0, "a/b".into()),
        Op::NewName("1bad".into(), None, "Sheet1!$A$1".into()),
        Op::Input(0, 6, 1, "=SUM(1,5;2)".into()),
        Op::Input(0, 6, 2, "=IF(A1>1;\"x\";\"y\")".into()),
        Op::Input(0, 6, 3, "1,5".into()),
    ]);
    let core = seeds::alphabet_core();
    let all_seeds: Vec<&'static str> = seeds::SEEDS.to_vec();
    let mut plans: Vec<(HistCfg, usize, &str)> = vec![
        (HistCfg { seeds: all_seeds.clone(), alphabet: full.clone(), depth: 1 }, 1, "full"),
        // models created with a locale different from the language (the stored settings must carry both)
        (HistCfg { seeds: vec!["fresh:de/en", "fresh:en/de", "fresh:fr/es", "fresh:en-GB/it"], alphabet: full.clone(), depth: 1 }, 1, "full on fresh (locale/language) models"),
        (HistCfg { seeds: if thorough { all_seeds.clone() } else { vec!["basic"] }, alphabet: full.clone(), depth: 2 }, 2, "full"),
    ];
    if thorough {
        plans.push((HistCfg { seeds: vec!["basic"], alphabet: core.clone(), depth: 3 }, 3, "core"));
    }
    let mut keys = std::collections::HashSet::new();
    let mut bounds = vec![];
    for (cfg, len, name) in &plans {
        let (outs, st, errs) = hist::explore_permissive(cfg, *len, &judge);
        for e in errs {
            run.machinery_errors.push(e);
        }
        for w in outs {
            run.evaluations += 1;
            run.traces += 1;
            run.transitions += *len as u64 + 3;
            keys.insert(w.key);
            run.add_all(w.ds);
        }
        bounds.push(json!({"alphabet": name, "alphabet_size": cfg.alphabet.len(), "length": len, "seeds": cfg.seeds, "histories_ok": st.words}));
        if run.elapsed() > if thorough { 3000.0 } else { 600.0 } {
            run.cap_hit = Some(format!("wall clock after plan {} len {}", name, len));
            break;
        }
    }
    run.states = keys.len() as u64;
    run.nontrivial = keys.len() as u64;
    run.distinct_outcomes = keys.len() as u64;
    run.bound = json!({"plans": bounds, "hash_seed": crate::env::hash_seed()});
    run.rule = "every state reached by a history of the stated length (all operations Ok) from each seed; for each: decode(encode(workbook)) must equal the workbook (PartialEq on the whole structure), the reloaded model's observation (contents, formula texts, values, styles, view) must equal the original's, and an extra evaluate() on the reloaded model must change nothing. states / non-trivial = distinct canonical keys of the states round-tripped".into();
    run.sample(hist::case_json("basic", &[full[7].clone()]));
    run.sample(hist::case_json("imported", &[full[22].clone(), full[60].clone()]));
    run.sample(hist::case_json("basic", &[Op::SetLanguage("de".into()), full[9].clone()]));
    run.assume("the reload uses the language the model was in (from_bytes takes the language as an argument)");
}

pub fn replay(case: &Value) -> Vec<Disagreement> {
    match hist::case_parse(case) {
        Some((seed, ops)) => judge(hist::seed_name(&seed), &ops).map(|w| w.ds).unwrap_or_default(),
        None => vec![],
    }
}

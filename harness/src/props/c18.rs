//! C18 Re-entering a cell's displayed content reproduces the cell.
//!
//! Space, in every (language, locale) pair (5 x 6 = 30): every string of length <= L over C19's 16-symbol numeric
//! alphabet (quick L=4, thorough L=5), every string of length <= 3 over a 22-symbol formula-ish alphabet, a list of
//! look-alikes, the boolean and error names of all five languages in three casings, and a formula corpus localised
//! by the engine itself.
//! Oracle: x -> cell1; y = get_localized_cell_content; y typed into the same cell -> cell2; content text, cell kind,
//! resolved style must be equal, the value equal to 15 significant digits.

use crate::fnum::{cell_kind, eq15, fmt_kind, for_each_with_prefix, Kind, LANGS, LOCALES};
use crate::props::c19::ALPHABET as NUM_ALPHABET;
use crate::props::c23::all_errors;
use crate::report::{Disagreement, Run};
use ironcalc_base::cell::CellValue;
use ironcalc_base::language::get_language;
use ironcalc_base::types::Style;
use ironcalc_base::Model;
use serde_json::{json, Value};
use std::collections::BTreeSet;

pub const FORMULA_ALPHABET: [char; 22] = [
    '=', 'A', '1', '+', '-', '(', ')', '"', '\'', ',', ';', '.', ' ', ':', '$', '#', '%', '&', 'E', '{', '}', '/',
];

pub const LOOKALIKES: [&str; 40] = [
    "'123", "'TRUE", "'=1", "1,5", "1.5", "TRUE ", " 12", "1e5", "0012", "12/13/2020", "13/12/2020", "2020-01-02",
    "'", "''", "'#N/A", "true", "True", "FALSE", "#N/A", "#DIV/0!", "#n/a", "1e-5", "0.00001", "1E+20", "123456789012345678",
    "0.1234567890123456", "-0", "1,234.5", "1.234,5", "$1,234.50", "1,234.50 €", "50%", "5.5%", "-$5", "=1", "=A2", "= 1",
    "http://a.b", "a@b.c", "'http://a.b",
];

/// English formulas; each is typed in an en/en model and then displayed in the target language/locale.
pub const CORPUS: [&str; 30] = [
    "=1+2",
    "=A2*2",
    "=SUM(A2:B3)",
    "=1.5+2.25",
    "=IF(TRUE,1,2)",
    "=\"a\"&\"b\"",
    "={1,2;3,4}",
    "=SUM({1.5,2})",
    "=A2^2",
    "=1/0",
    "=#N/A",
    "=TRUE",
    "=ROUND(2.5,0)",
    "=Sheet1!A2",
    "=$A$2+A$2",
    "=1E+3",
    "=(1+2)*3",
    "=\"1,5\"",
    "=AND(TRUE,FALSE)",
    "=DATE(2020,1,2)",
    "=TEXT(1.5,\"0.00\")",
    "=-A2",
    "=A2%",
    "=MAX(1,2.5,A2)",
    "=IFERROR(1/0,\"x\")",
    "=A2<>B2",
    "=CONCATENATE(\"a\",1.5)",
    "=SUM(A:A)",
    "=SUM(2:2)",
    "=A2:A3",
];

#[derive(Clone, Debug)]
pub struct CellObs {
    pub content: String,
    pub kind: Kind,
    pub value: String,
    pub number: Option<f64>,
    pub style: Style,
}

pub struct Pair {
    pub lang: &'static str,
    pub locale: &'static str,
    pub model: Model<'static>,
    pub always_evaluate: bool,
    /// what the cell holds before the input is typed: "text:<input>" (typed first) or "fmt:<number format>" (style set first)
    pub before: Option<&'static str>,
    inputs: usize,
}

impl Pair {
    pub fn new(lang: &'static str, locale: &'static str) -> Pair {
        Pair {
            lang,
            locale,
            model: Model::new_empty("c18", locale, "UTC", lang).expect("model"),
            always_evaluate: false,
            before: None,
            inputs: 0,
        }
    }
    fn reset_if_big(&mut self) {
        self.inputs += 1;
        if self.inputs > 20_000 {
            let ae = self.always_evaluate;
            let bf = self.before;
            *self = Pair::new(self.lang, self.locale);
            self.always_evaluate = ae;
            self.before = bf;
        }
    }
    fn clear(&mut self) {
        let ws = &mut self.model.workbook.worksheets[0];
        ws.sheet_data.clear();
        ws.links.clear();
    }
    fn observe(&mut self) -> CellObs {
        let m = &mut self.model;
        let mut kind = cell_kind(m, 0, 1, 1);
        if kind == Kind::Formula {
            // a formula over whole rows or columns (`=+1:5`, `=+E:E`) spills up to a million cells: enumerated
            // inputs with a range operator are not evaluated (only text, kind and style are compared)
            let text = m.get_localized_cell_content(0, 1, 1).unwrap_or_default();
            if self.always_evaluate || !has_row_range(&text) {
                m.evaluate();
                kind = cell_kind(m, 0, 1, 1);
            }
        }
        let v = m.get_cell_value_by_index(0, 1, 1);
        let (value, number) = match &v {
            Ok(CellValue::Number(f)) => (format!("number {}", f), Some(*f)),
            Ok(CellValue::String(s)) => (format!("text `{}`", s), None),
            Ok(CellValue::Boolean(b)) => (format!("boolean {}", b), None),
            Ok(CellValue::None) => ("empty".to_string(), None),
            Err(e) => (format!("Err({})", e), None),
        };
        CellObs {
            content: m.get_localized_cell_content(0, 1, 1).unwrap_or_else(|e| format!("Err({})", e)),
            kind,
            value,
            number,
            style: m.get_style_for_cell(0, 1, 1).unwrap_or_default(),
        }
    }
}

/// A range operator in the text: whole rows or columns (`=+1:5`, `=+E:E`) spill up to a million cells.
fn has_row_range(text: &str) -> bool {
    text.contains(':')
}

fn kind_class(k: &Kind) -> String {
    k.name().to_string()
}

fn style_diff(a: &Style, b: &Style) -> Vec<String> {
    let cur = ["$", "€", "£"];
    let mut v = vec![];
    if a.num_fmt != b.num_fmt {
        v.push(format!(
            "style.num_fmt:{}->{}",
            fmt_kind(&a.num_fmt, &cur).name(),
            fmt_kind(&b.num_fmt, &cur).name()
        ));
    }
    if a.quote_prefix != b.quote_prefix {
        v.push(format!("style.quote_prefix:{}->{}", a.quote_prefix, b.quote_prefix));
    }
    if a.alignment != b.alignment {
        v.push("style.alignment".into());
    }
    if a.font != b.font {
        v.push("style.font".into());
    }
    if a.fill != b.fill {
        v.push("style.fill".into());
    }
    if a.border != b.border {
        v.push("style.border".into());
    }
    v
}

/// Compares the cell made by `x` with the cell made by re-typing its displayed content.
fn compare(lang: &str, c1: &CellObs, c2: &CellObs) -> Option<(String, String)> {
    let mut diffs: Vec<String> = vec![];
    let mut lines: Vec<String> = vec![];
    if c1.content != c2.content {
        diffs.push("content".into());
        lines.push(format!("content `{}` -> `{}`", c1.content, c2.content));
    }
    let same_kind = match (&c1.kind, &c2.kind) {
        (Kind::Number(a), Kind::Number(b)) => {
            if !eq15(*a, *b) {
                diffs.push("value".into());
                lines.push(format!("number {} -> {}", a, b));
            }
            true
        }
        (Kind::Formula, Kind::Formula) => {
            let same = match (c1.number, c2.number) {
                (Some(a), Some(b)) => eq15(a, b),
                _ => c1.value == c2.value,
            };
            if !same {
                diffs.push("value".into());
                lines.push(format!("formula value {} -> {}", c1.value, c2.value));
            }
            true
        }
        (a, b) => a == b,
    };
    if !same_kind {
        diffs.push(format!("kind:{}->{}", kind_class(&c1.kind), kind_class(&c2.kind)));
        lines.push(format!("cell {:?} -> {:?}", c1.kind, c2.kind));
    }
    let sd = style_diff(&c1.style, &c2.style);
    if !sd.is_empty() {
        lines.push(format!(
            "style: num_fmt `{}` -> `{}`, quote_prefix {} -> {}",
            c1.style.num_fmt, c2.style.num_fmt, c1.style.quote_prefix, c2.style.quote_prefix
        ));
        diffs.extend(sd);
    }
    if diffs.is_empty() {
        return None;
    }
    let cur = ["$", "€", "£"];
    let first = match &c1.kind {
        Kind::Number(x) if !x.is_finite() => "number/non-finite".to_string(),
        Kind::Number(_) => format!("number/{}", fmt_kind(&c1.style.num_fmt, &cur).name()),
        Kind::Formula if c1.content.contains("#REF!") => "formula/with-#REF!".to_string(),
        Kind::Formula if c1.content.contains(':') => "formula/with-range-operator".to_string(),
        k => kind_class(k),
    };
    // the display of booleans and errors depends on the language: name it in the signature
    let lang_part = match &c1.kind {
        Kind::Boolean(_) | Kind::Error(_) => format!(" lang={}", lang),
        _ => String::new(),
    };
    Some((
        format!("reentry first={}{} diff={}", first, lang_part, diffs.join(",")),
        lines.join("; "),
    ))
}

pub struct Outcome {
    pub d: Option<Disagreement>,
    pub first: Option<CellObs>,
    pub changed_text: bool,
}

/// x typed -> cell1; its displayed content typed into the same cell -> cell2.
pub fn check_input(p: &mut Pair, x: &str, family: &str) -> Outcome {
    let t0 = std::time::Instant::now();
    let o = check_input_inner(p, x, family);
    if std::env::var("VERIF_C18_SLOW").is_ok() && t0.elapsed().as_millis() > 20 {
        eprintln!("slow: {} ms [{}/{}] `{}`", t0.elapsed().as_millis(), p.lang, p.locale, x);
    }
    o
}

fn check_input_inner(p: &mut Pair, x: &str, family: &str) -> Outcome {
    p.reset_if_big();
    let case = json!({"lang": p.lang, "locale": p.locale, "input": x, "family": family, "before": p.before});
    let (lang, locale) = (p.lang, p.locale);
    let before = p.before;
    let r = crate::env::guarded(|| {
        p.clear();
        match before {
            Some(b) if b.starts_with("text:") => {
                let _ = p.model.set_user_input(0, 1, 1, b[5..].to_string());
            }
            Some(b) if b.starts_with("fmt:") => {
                let mut st = Style::default();
                st.num_fmt = b[4..].to_string();
                let _ = p.model.set_cell_style(0, 1, 1, &st);
            }
            _ => {}
        }
        if p.model.set_user_input(0, 1, 1, x.to_string()).is_err() {
            return None;
        }
        let c1 = p.observe();
        if p.model.set_user_input(0, 1, 1, c1.content.clone()).is_err() {
            let c2 = CellObs { content: "<input rejected>".into(), ..c1.clone() };
            return Some((c1, c2));
        }
        let c2 = p.observe();
        Some((c1, c2))
    });
    match r {
        Ok(None) => Outcome { d: None, first: None, changed_text: false },
        Ok(Some((c1, c2))) => {
            let d = compare(lang, &c1, &c2).map(|(sig, detail)| Disagreement {
                sig: match before {
                    Some(b) if b.starts_with("fmt:") => format!("{} cell-before={} locale={}", sig, b, locale),
                    Some(b) => format!("{} cell-before={}", sig, b),
                    None => sig,
                },
                case,
                detail: format!(
                    "[{}/{}] typing `{}`{} shows `{}`; typing that back: {}",
                    lang,
                    locale,
                    x,
                    before.map(|b| format!(" into a cell prepared with {}", b)).unwrap_or_default(),
                    c1.content,
                    detail
                ),
            });
            let changed_text = c1.content != x;
            Outcome { d, first: Some(c1), changed_text }
        }
        Err(e) => {
            *p = Pair::new(lang, locale);
            p.before = before;
            Outcome {
                d: Some(Disagreement {
                    sig: format!("panic at={}", e.rsplit(" @ ").next().unwrap_or("?")),
                    case,
                    detail: format!("[{}/{}] typing `{}` and its content back panics: {}", lang, locale, x, e),
                }),
                first: None,
                changed_text: false,
            }
        }
    }
}

/// Corpus formula: typed in English in an en/en model, the model is switched to (lang, locale), the displayed
/// content is typed back.
pub fn check_corpus(lang: &'static str, locale: &'static str, formula: &str) -> Outcome {
    let case = json!({"lang": lang, "locale": locale, "input": formula, "family": "corpus"});
    let mut shown = String::new();
    let r = crate::env::guarded(|| {
        // the formula as the target language/locale displays it
        let mut e = Pair::new("en", "en");
        if e.model.set_user_input(0, 1, 1, formula.to_string()).is_err() {
            return None;
        }
        if e.model.set_locale(locale).is_err() || e.model.set_language(lang).is_err() {
            return None;
        }
        let x = e.model.get_localized_cell_content(0, 1, 1).ok()?;
        shown = x.clone();
        // typed by a user of that language/locale
        let mut p = Pair::new(lang, locale);
        p.always_evaluate = true;
        let _ = p.model.set_user_input(0, 2, 1, "3".to_string());
        let _ = p.model.set_user_input(0, 2, 2, "4".to_string());
        if p.model.set_user_input(0, 1, 1, x).is_err() {
            return None;
        }
        let c1 = p.observe();
        if p.model.set_user_input(0, 1, 1, c1.content.clone()).is_err() {
            let c2 = CellObs { content: "<input rejected>".into(), ..c1.clone() };
            return Some((c1, c2));
        }
        let c2 = p.observe();
        Some((c1, c2))
    });
    match r {
        Ok(None) => Outcome { d: None, first: None, changed_text: false },
        Ok(Some((c1, c2))) => {
            let d = compare(lang, &c1, &c2).map(|(sig, detail)| Disagreement {
                sig: format!("corpus {}", sig),
                case,
                detail: format!(
                    "[{}/{}] the English formula `{}` reads `{}` here; typed, it shows `{}`; typing that back: {}",
                    lang, locale, formula, shown, c1.content, detail
                ),
            });
            Outcome { d, first: Some(c1), changed_text: true }
        }
        Err(e) => Outcome {
            d: Some(Disagreement {
                sig: format!("panic at={}", e.rsplit(" @ ").next().unwrap_or("?")),
                case,
                detail: format!("[{}/{}] corpus formula `{}` panics: {}", lang, locale, formula, e),
            }),
            first: None,
            changed_text: false,
        },
    }
}

fn casings(s: &str) -> Vec<String> {
    let lower = s.to_lowercase();
    let upper = s.to_uppercase();
    let mut cap = String::new();
    for (i, c) in lower.chars().enumerate() {
        if i == 0 {
            cap.extend(c.to_uppercase());
        } else {
            cap.push(c);
        }
    }
    let mut v = vec![upper, lower, cap];
    v.dedup();
    v
}

/// Boolean and error names of every language, in three casings.
pub fn names_family() -> Vec<String> {
    let mut set = BTreeSet::new();
    for l in LANGS {
        let language = get_language(l).expect("language");
        for c in casings(&language.booleans.r#true) {
            set.insert(c);
        }
        for c in casings(&language.booleans.r#false) {
            set.insert(c);
        }
        for e in all_errors() {
            for c in casings(&e.to_localized_error_string(language)) {
                set.insert(c);
            }
        }
    }
    set.into_iter().collect()
}

#[derive(Default)]
struct Tally {
    ds: Vec<Disagreement>,
    n: u64,
    nontrivial: u64,
    outcomes: BTreeSet<String>,
    by_kind: std::collections::BTreeMap<String, u64>,
}

impl Tally {
    fn take(&mut self, o: Outcome) {
        self.n += 1;
        if let Some(c1) = &o.first {
            let non_text = !matches!(c1.kind, Kind::Text(_));
            if non_text || o.changed_text || c1.style.quote_prefix {
                self.nontrivial += 1;
            }
            let cur = ["$", "€", "£"];
            let k = format!("{}|{}|{}", c1.kind.name(), fmt_kind(&c1.style.num_fmt, &cur).name(), c1.style.quote_prefix);
            *self.by_kind.entry(c1.kind.name().to_string()).or_insert(0) += 1;
            self.outcomes.insert(k);
        }
        if let Some(d) = o.d {
            self.ds.push(d);
        }
    }
}

pub fn pairs() -> Vec<(&'static str, &'static str)> {
    let mut v = vec![];
    for l in LANGS {
        for loc in LOCALES {
            v.push((l, loc));
        }
    }
    v
}

pub fn run(run: &mut Run) {
    let max_len: usize = if run.tier.thorough() { 5 } else { 4 };
    let prs = pairs();
    let k = NUM_ALPHABET.len();
    let names = names_family();
    // units per pair: one per first numeric symbol, one for the rest
    let per_pair = k + 1;
    let n_units = prs.len() * per_pair;
    let res = crate::env::par_units(n_units, |u| {
        let (lang, locale) = prs[u / per_pair];
        let w = u % per_pair;
        let mut p = Pair::new(lang, locale);
        let mut t = Tally::default();
        if w < k {
            for len in 1..=max_len {
                for_each_with_prefix(&NUM_ALPHABET, &[w], len, &mut |s| {
                    t.take(check_input(&mut p, s, "numeric"));
                });
            }
        } else {
            for len in 1..=3 {
                for_each_with_prefix(&FORMULA_ALPHABET, &[], len, &mut |s| {
                    t.take(check_input(&mut p, s, "formula-ish"));
                });
            }
            p.always_evaluate = true;
            for s in LOOKALIKES {
                t.take(check_input(&mut p, s, "look-alike"));
            }
            p.always_evaluate = false;
            for s in &names {
                t.take(check_input(&mut p, s, "names"));
            }
            for f in CORPUS {
                t.take(check_corpus(lang, locale, f));
            }
            // the same re-entry judgement when the cell already held something: quote-prefixed text, a percentage, a
            // date, a currency amount typed before, or a date / month-name / percent number format set before
            const BEFORE: [&str; 7] = ["text:'007", "text:50%", "text:2020-01-02", "text:$5", "fmt:dd-mmm-yyyy", "fmt:mmmm d, yyyy", "fmt:0.00%"];
            for b in BEFORE {
                p.before = Some(b);
                for len in 1..=3 {
                    for_each_with_prefix(&NUM_ALPHABET, &[], len, &mut |s| {
                        t.take(check_input(&mut p, s, "numeric-over-previous"));
                    });
                }
                for s in LOOKALIKES {
                    t.take(check_input(&mut p, s, "look-alike-over-previous"));
                }
                for m in 1..=12 {
                    t.take(check_input(&mut p, &format!("2024-{:02}-15", m), "iso-date-over-previous"));
                    t.take(check_input(&mut p, &format!("1999-{:02}-01", m), "iso-date-over-previous"));
                }
            }
            p.before = None;
        }
        t
    });
    let mut total = Tally::default();
    for r in res {
        match r {
            Ok(t) => {
                run.add_all(t.ds);
                total.n += t.n;
                total.nontrivial += t.nontrivial;
                total.outcomes.extend(t.outcomes);
                for (k, v) in t.by_kind {
                    *total.by_kind.entry(k).or_insert(0) += v;
                }
            }
            Err(e) => run.machinery_errors.push(format!("unit panicked: {}", e)),
        }
    }
    let per_pair_inputs = crate::fnum::count_strings(k, max_len)
        + crate::fnum::count_strings(FORMULA_ALPHABET.len(), 3)
        + LOOKALIKES.len() as u64
        + names.len() as u64
        + CORPUS.len() as u64
        // the pass over cells that held something before: 7 preparations x (numeric strings <= 3, look-alikes, 24 ISO dates)
        + 7 * (crate::fnum::count_strings(k, 3) + LOOKALIKES.len() as u64 + 24);
    if total.n != per_pair_inputs * prs.len() as u64 {
        run.machinery_errors.push(format!("enumerated {} inputs, expected {}", total.n, per_pair_inputs * prs.len() as u64));
    }
    run.evaluations = total.n;
    run.states = total.n;
    run.transitions = total.n * 2;
    run.traces = total.n;
    run.nontrivial = total.nontrivial;
    run.rule = "an input is non-trivial when the first cell is not plain text (number, boolean, error, formula), or is quote-prefixed, or its displayed content differs from what was typed".into();
    run.distinct_outcomes = total.outcomes.len() as u64;
    run.bound = json!({
        "pairs": prs.iter().map(|(a, b)| format!("{}/{}", a, b)).collect::<Vec<_>>(),
        "numeric_alphabet": NUM_ALPHABET.iter().collect::<String>(),
        "numeric_max_length": max_len,
        "formula_alphabet": FORMULA_ALPHABET.iter().collect::<String>(),
        "formula_max_length": 3,
        "look_alikes": LOOKALIKES.len(),
        "boolean_and_error_names": names.len(),
        "corpus_formulas": CORPUS.len(),
        "inputs_per_pair": per_pair_inputs,
    });
    run.extra.insert("first_cell_kinds".into(), json!(total.by_kind));
    run.sample(json!({"lang": "es", "locale": "es", "input": "TRUE", "shows": "VERDADERO"}));
    run.sample(json!({"lang": "en", "locale": "de", "input": "1,5", "shows": "1,5"}));
    run.sample(json!({"lang": "fr", "locale": "fr", "input": "=SUM({1.5,2})", "family": "corpus"}));
    run.exhaustive = true;
    run.assume("each input is typed into an empty, unformatted cell A1 of a fresh sheet; the displayed content is typed back into that same cell without clearing it");
    run.assume("compared: get_localized_cell_content, the stored cell kind (number/boolean/error/text/formula) with its payload, the resolved Style (all fields); numbers and formula results to 15 significant digits; formula cells are evaluated before reading");
    run.assume("enumerated inputs that become formulas with a range operator `:` (e.g. `+1:5`, `+E:E`: whole rows/columns, up to a million spilled cells) are compared by text, kind and style only, without evaluating them; look-alikes and corpus formulas are always evaluated");
    run.assume("links attached by URL/e-mail detection are not part of the comparison (the statement lists content, type, style and value)");
    run.assume("corpus formulas are translated by the engine (typed in English in an en/en model whose locale and language are then switched); the translated text is the input typed in a fresh model of the target language/locale");
}

pub fn replay(case: &Value) -> Vec<Disagreement> {
    let lang = case["lang"].as_str().unwrap_or("en");
    let locale = case["locale"].as_str().unwrap_or("en");
    let lang: &'static str = LANGS.iter().find(|l| **l == lang).copied().unwrap_or("en");
    let locale: &'static str = LOCALES.iter().find(|l| **l == locale).copied().unwrap_or("en");
    let x = case["input"].as_str().unwrap_or("");
    let family = case["family"].as_str().unwrap_or("");
    if family == "corpus" {
        return check_corpus(lang, locale, x).d.into_iter().collect();
    }
    let mut p = Pair::new(lang, locale);
    p.before = case["before"].as_str().map(|b| &*Box::leak(b.to_string().into_boxed_str()));
    p.always_evaluate = family.starts_with("look-alike");
    check_input(&mut p, x, family).d.into_iter().collect()
}

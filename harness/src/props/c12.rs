//! C12 Inserting rows or columns preserves every value.
//!
//! Space: every workbook of `structural::specs` (data strip with one — thorough: also two — interesting contents at
//! every position, three variants of arrays/descriptors, both orientations) × both APIs × every insertion (position
//! 1–6 and against the last row/column, counts 1–2, thorough 1–3). Oracle: the displacement model of `structural`.

use crate::report::{Disagreement, Run};
use crate::structural::{self as st, Axis, SOp, Spec};
use serde_json::{json, Value};

pub fn ops(thorough: bool, axis: Axis) -> Vec<SOp> {
    let mut v = vec![];
    let kmax = if thorough { 3 } else { 2 };
    for p in 1..=st::STRIP {
        for k in 1..=kmax {
            v.push(SOp::Insert { p, k });
        }
    }
    // beyond the strip, and against the end of the grid (references pushed off)
    v.push(SOp::Insert { p: 7, k: 1 });
    v.push(SOp::Insert { p: axis.last(), k: 1 });
    v.push(SOp::Insert { p: axis.last() - 1, k: 2 });
    v.push(SOp::Insert { p: axis.last() - 5, k: kmax });
    v
}

pub fn run(run: &mut Run) {
    let thorough = run.tier.thorough();
    let specs = st::specs(thorough, true);
    let f = move |s: &Spec| ops(thorough, s.axis);
    let (out, errs) = st::run_family(&specs, &f, "C12", false);
    run.sample(st::case_json("C12", &specs[0], st::Api::Model, &ops(thorough, specs[0].axis)[0]));
    run.sample(st::case_json("C12", &specs[specs.len() / 2], st::Api::User, &ops(thorough, specs[specs.len() / 2].axis)[5]));
    run.sample(st::case_json("C12", &specs[specs.len() - 1], st::Api::User, &ops(thorough, specs[specs.len() - 1].axis).last().unwrap()));
    run.bound = json!({
        "workbooks": specs.len(),
        "orientations": ["rows", "columns"],
        "variants": 3,
        "interesting_contents": st::CONTENTS,
        "interesting_cells_per_workbook": if thorough { "1 (all variants) and 2 (variant 0, unordered content pairs at every position pair)" } else { "1" },
        "positions": "1..=7, last, last-1, last-5",
        "counts": if thorough { "1..=3" } else { "1..=2" },
        "apis": ["Model", "UserModel"],
        "observers_per_workbook": "about 130 formulas: =A{t} =$A${t} =A${t} =$A{t} SUM(A{i}:A{j}) SUM(A:A) SUM({t}:{t}) on the edited sheet, Sheet1!-qualified on a second sheet, defined names and their readers, references to the last rows/columns, Sheet2-local bystanders",
        "hash_seed": crate::env::hash_seed(),
    });
    run.rule = "every accepted insertion on a workbook with a 6-cell data strip, observers before, inside and after the insertion point and descriptors spanning it; each is non-trivial: it shifts at least one data cell or reference".into();
    run.assume("reference comparison is on the cells denoted (formula text parsed back with the public parser), not on `$` markers or spelling");
    run.assume("sizes/hidden flags of rows and columns are not judged by C12 (statement silent); the resolved style of empty cells in styled rows/columns is");
    run.assume("a range that loses its far end beyond the grid is accepted as #REF! or as exactly the surviving cells");
    run.assume("hash-map iteration order fixed by VERIF_HASH_SEED for this run (listed seed only)");
    st::fill_run(run, out, errs);
}

pub fn replay(case: &Value) -> Vec<Disagreement> {
    st::replay_case(case, false)
}

//! C16 Cut and paste moves meaning, copy and paste translates it.
//!
//! Workbook: Sheet1 / Sheet2 with data in G1:H2 (outside every paste zone), defined names, a styled and linked
//! source block at Sheet1!C3 (1x1, 1x2; thorough also 2x2) whose first cell holds a corpus formula and whose other
//! cells reference the block; observers in row 8 (single cut cell, range inside, straddling range, absolute,
//! through defined names, from the other sheet). Every paste target at offset (dr,dc) in {-1,0,1,2}^2 on the same
//! sheet (overlapping and disjoint) and two targets on the other sheet x {cut, copy}, through the clipboard path of
//! the bindings (copy_to_clipboard -> serde_json -> ClipboardData -> paste_from_clipboard).
//! Copy oracle: the pasted cell's stored formula is the source's (R1C1 text identical) except references shifted
//! off the grid, which must be #REF!. Cut oracle: every pasted formula and every observer denotes, reference by
//! reference, the same cells as before (moved ones at their new place), values are unchanged, defined names follow.
//! Style and link of the first cell travel in both modes.

use crate::fx;
use crate::ops::Op;
use crate::props::c09;
use crate::report::{Disagreement, Run};
use ironcalc_base::expressions::parser::stringify::{to_localized_string, to_rc_format};
use ironcalc_base::expressions::parser::{Node, Parser};
use ironcalc_base::expressions::token::Error;
use ironcalc_base::UserModel;
use serde_json::{json, Value};

const SR: i32 = 3; // source origin
const SC: i32 = 3;
const LAST_ROW: i32 = 1_048_576;
const LAST_COL: i32 = 16_384;

pub const CFGS: [(&str, &str); 3] = [("en", "en"), ("de", "de"), ("es", "en-GB")];

/// Sheet names of the workbook under test: plain, or names that must be quoted in every printed reference
/// (the second one with an apostrophe to double). Set per case, read by every helper of this module.
const PLAIN: [&str; 2] = ["Sheet1", "Sheet2"];
const QUOTED: [&str; 2] = ["My Data", "It's 2"];
thread_local! { static SHEETS: std::cell::Cell<[&'static str; 2]> = const { std::cell::Cell::new(PLAIN) }; }
fn sheets() -> [&'static str; 2] {
    SHEETS.with(|c| c.get())
}
fn set_sheets(quoted: bool) {
    SHEETS.with(|c| c.set(if quoted { QUOTED } else { PLAIN }));
}
fn qn(i: usize) -> String {
    ironcalc_base::expressions::utils::quote_name(sheets()[i])
}
/// Rewrites the qualifiers `Sheet1!` / `Sheet2!` of harness formula text to the names in force.
fn sub(text: &str) -> String {
    text.replace("Sheet1!", &format!("{}!", qn(0))).replace("Sheet2!", &format!("{}!", qn(1)))
}

fn constructs() -> Vec<&'static str> {
    vec![
        "G1", "$H$2", "G$1+$H2", "Sheet2!G1", "SUM(G1:H2)", "SUM(Sheet2!G1:H2,$H$2)", "INDEX({1,2;3,4},2,1)", "SUM({1,2;3,4})",
        "SUM({1.5,2.5})+G1", "IF(G1>1,TRUE,FALSE)", "IF(G1>1.5,\"a,b\",\"c;d\")", "-G1^2", "(G1+1)%", "G1&\"x\"",
        "1.5*G1", "LET(x,G1,x+1)", "LAMBDA(a,a+G1)(1)", "@G1", "nm+1", "TRUE",
        "1-(2-G1)", "2^(G1^2)", "-(-G1)", "(G1=1)=TRUE", "G1-(H1+1)", "G1/(H1*2)", "(G1&H1)&\"z\"", "SUM(G1,H1,2)",
        "MAX(G1:G2)-MIN(H1:H2)", "SUM(G1:INDEX(G1:H2,2,2))", "1+G1%", "ROUND(G1/3,2)",
        "IF(G1>1,G1*2,#N/A)", "IFERROR(G1/0,#DIV/0!)", "IF(G1>100,#VALUE!,G1)",
    ]
}

/// the last one is URL-like text whose auto-created link is removed again before the paste (the pasted cell must not gain one)
const CONSTANTS: [&str; 5] = ["7", "abc", "'12", "TRUE", "www.example.com"];

pub fn corpus(thorough: bool) -> Vec<String> {
    let mut v: Vec<String> = constructs().iter().map(|s| s.to_string()).collect();
    let leaves = ["G1", "$H$2", "2"];
    v.extend(fx::terms(&leaves, &fx::BINOPS, 1, false).into_iter().filter(|t| t.contains('G') || t.contains('H')));
    if thorough {
        v.extend(fx::terms(&["G1", "$H$2", "Sheet2!G1", "2"], &fx::BINOPS, 1, true).into_iter().filter(|t| t.contains('G') || t.contains('H')));
    }
    v.sort();
    v.dedup();
    v
}

#[derive(Clone, Copy, Debug, PartialEq)]
pub struct Shape {
    h: i32,
    w: i32,
}

fn typed(env: &mut c09::Env, english: &str, lang: &str, locale: &str, row: i32, col: i32) -> Option<String> {
    // the parse context of c09::Env is C3; formulas here are typed in other cells too, so print from a tree parsed
    // with an own parser at that cell
    let _ = env;
    let mut p = fx::mk_parser(&sheets(), names(), fx::loc("en"), fx::lang("en"));
    let t = p.parse(&sub(english), &fx::ctx(sheets()[0], row, col));
    if fx::has_parse_error(&t) {
        return None;
    }
    Some(format!("={}", to_localized_string(&t, &fx::ctx(sheets()[0], row, col), fx::loc(locale), fx::lang(lang))))
}

fn names() -> Vec<(String, Option<u32>, String)> {
    vec![
        ("nm".into(), None, sub("Sheet1!$G$1")),
        ("src".into(), None, sub("Sheet1!$C$3")),
        ("srcr".into(), None, sub("Sheet1!$C$3:$D$3")),
    ]
}

/// Observers: (sheet, row, col, english formula, value must stay under cut for shapes with w>=2 / any shape)
fn observers() -> Vec<(u32, i32, i32, &'static str, &'static str)> {
    vec![
        (0, 8, 1, "C3", "cell"),
        (0, 8, 2, "SUM(C3:D3)", "range"),      // inside the area only if w >= 2
        (0, 8, 3, "SUM(B3:D3)", "straddle"),   // never entirely inside
        (0, 8, 4, "$C$3*2", "cell"),
        (0, 8, 5, "src+1", "name"),
        (0, 8, 6, "SUM(srcr)", "name-range"),
        (1, 8, 1, "Sheet1!C3*2", "cell"),
        (0, 8, 7, "SUM(C3:C5)", "straddle2"),  // top edge inside the cut area, bottom edge below it
        (0, 8, 9, "SUM(C2:C3)", "straddle2"),  // bottom edge inside, top edge above
        (1, 3, 3, "Sheet1!C3*2", "cell"),      // on the other sheet, at the coordinates of the cut cell itself
    ]
}

fn build(env: &mut c09::Env, lang: &'static str, locale: &'static str, shape: Shape, first: &str, is_const: bool) -> Option<UserModel<'static>> {
    let mut um = UserModel::new_empty("c16", locale, "UTC", lang).ok()?;
    let _ = um.rename_sheet(0, sheets()[0]);
    um.new_sheet().ok()?;
    let _ = um.rename_sheet(1, sheets()[1]);
    if um.get_model().workbook.get_worksheet_names() != vec![sheets()[0].to_string(), sheets()[1].to_string()] {
        return None;
    }
    for (s, r, c, v) in [(0, 1, 7, "7"), (0, 1, 8, "3"), (0, 2, 7, "5"), (0, 2, 8, "11"), (1, 1, 7, "13"), (1, 1, 8, "17"), (1, 2, 7, "19"), (1, 2, 8, "23")] {
        um.set_user_input(s, r, c, v).ok()?;
    }
    for (n, sc, f) in names() {
        um.new_defined_name(&n, sc, &f).ok()?;
    }
    // source block
    let first_text = if is_const { first.to_string() } else { typed(env, first, lang, locale, SR, SC)? };
    um.set_user_input(0, SR, SC, &first_text).ok()?;
    if !is_const {
        // the typed text must be stored as the formula meant (otherwise C09's subject)
        let mut p = fx::mk_parser(&sheets(), names(), fx::loc("en"), fx::lang("en"));
        let t = p.parse(&sub(first), &fx::ctx(sheets()[0], SR, SC));
        if fx::stored_rc(um.get_model(), 0, SR, SC)? != to_rc_format(&t) {
            return None;
        }
    }
    let others: [(i32, i32, &str); 3] = [(0, 1, "C3*2"), (1, 0, "SUM(C3:D3)+G1"), (1, 1, "C3+G1")];
    for (di, dj, f) in others {
        if di < shape.h && dj < shape.w {
            let t = typed(env, f, lang, locale, SR + di, SC + dj)?;
            um.set_user_input(0, SR + di, SC + dj, &t).ok()?;
        }
    }
    um.update_range_style(&crate::ops::area(0, SR, SC, 1, 1), "font.b", "true").ok()?;
    if first == "www.example.com" {
        um.delete_cell_link(0, SR, SC).ok()?;
    } else {
        um.set_cell_link(0, SR, SC, crate::ops::link_external("https://example.com/c16"), None).ok()?;
    }
    for (s, r, c, f, _) in observers() {
        let t = typed(env, f, lang, locale, r, c)?;
        // observers on Sheet2 are typed with the Sheet1 context only for printing; their text has no relative
        // unqualified references, so the text is the same
        um.set_user_input(s, r, c, &t).ok()?;
    }
    um.evaluate();
    Some(um)
}

fn rc_parser() -> Parser<'static> {
    let mut p = fx::mk_parser(&sheets(), names(), fx::loc("en"), fx::lang("en"));
    fx::set_rc(&mut p, true);
    p
}

/// Tree of the stored formula of a cell with every reference rewritten to absolute coordinates (flags kept,
/// sheet names dropped, defined-name bodies blanked): two such trees are equal iff they denote the same cells.
fn denote(p: &mut Parser, um: &UserModel, sheet: u32, row: i32, col: i32) -> Option<Node> {
    let rc = fx::stored_rc(um.get_model(), sheet, row, col)?;
    let sname = sheets()[if sheet == 0 { 0 } else { 1 }];
    let mut t = p.parse(&rc, &fx::ctx(sname, row, col));
    // a stored formula is R1C1 text the engine printed itself: if it does not print back to the same text it is
    // not a stored formula but some other text that was kept verbatim (the parser ignores trailing input)
    if !fx::has_parse_error(&t) && to_rc_format(&t) != rc {
        t = Node::ParseErrorKind { formula: rc, message: "stored text is not the R1C1 form of what it parses to".into(), position: 0, expecting: vec![] };
        return Some(t);
    }
    to_denotation(&mut t, row, col);
    Some(t)
}

/// Coarse class of the difference between the expected and the stored tree.
fn coarse(want: &Node, got: &Node) -> Option<String> {
    if want == got {
        return None;
    }
    if fx::has_parse_error(got) {
        let mut has_array = false;
        let mut w = want.clone();
        fx::walk_mut(&mut w, &mut |n| {
            if matches!(n, Node::ArrayKind(_)) {
                has_array = true;
            }
        });
        return Some(if has_array { "stored-text-unparseable(array-literal)".into() } else { "stored-text-unparseable".into() });
    }
    fn first_diff<'a>(a: &'a Node, b: &'a Node) -> (&'a Node, &'a Node) {
        let ca = fx::children(a);
        let cb = fx::children(b);
        if fx::kind(a) == fx::kind(b) && ca.len() == cb.len() {
            for ((_, x), (_, y)) in ca.iter().zip(cb.iter()) {
                if x != y {
                    if fx::kind(x) == fx::kind(y) && fx::children(x).len() == fx::children(y).len() && !fx::children(x).is_empty() {
                        return first_diff(x, y);
                    }
                    if fx::kind(x) == fx::kind(y) && fx::children(x).is_empty() {
                        return (x, y);
                    }
                    if fx::children(x).is_empty() && (fx::children(y).is_empty() || matches!(x, Node::ErrorKind(_))) {
                        return (x, y);
                    }
                    // the operand itself changed shape: the parent is where parentheses were needed
                    return (a, b);
                }
            }
        }
        (a, b)
    }
    let (w, g) = first_diff(want, got);
    let cls = match (w, g) {
        (Node::FunctionKind { .. }, Node::NamedFunctionKind { .. }) => "function-name-not-english".to_string(),
        (Node::BooleanKind(_), Node::NamedVariableKind { .. }) => "boolean-literal-not-english".to_string(),
        (Node::FunctionKind { args: a, .. }, Node::FunctionKind { args: b, .. }) if a.len() != b.len() => "argument-count".to_string(),
        (Node::ArrayKind(_), _) | (_, Node::ArrayKind(_)) => "array-literal".to_string(),
        (Node::ErrorKind(_), Node::OpRangeKind { .. }) => "offgrid-range-half-ref".to_string(),
        _ if fx::children(w).is_empty() && fx::children(g).is_empty() => fx::divergence(w, g).unwrap_or_else(|| "leaf".into()),
        _ => {
            // operator children of the expected node whose place is taken by a node of another kind
            let cw = fx::children(w);
            let cg = fx::children(g);
            let mut cands: Vec<String> = vec![];
            for (i, (_, c)) in cw.iter().enumerate() {
                if fx::children(c).is_empty() {
                    continue;
                }
                let same = cg.get(i).map(|(_, d)| fx::kind(d) == fx::kind(c)).unwrap_or(false);
                if !same || fx::kind(w) != fx::kind(g) {
                    cands.push(fx::kd(c));
                }
            }
            cands.dedup();
            let child = match cands.len() {
                0 => "-".to_string(),
                1 => cands[0].clone(),
                _ => "several".to_string(),
            };
            format!("nesting parent={} child={}", fx::kd(w), child)
        }
    };
    Some(cls)
}

fn to_denotation(t: &mut Node, row: i32, col: i32) {
    fx::walk_mut(t, &mut |n| match n {
        Node::ReferenceKind { sheet_name, absolute_row, absolute_column, row: r, column: c, .. } => {
            *sheet_name = None;
            if !*absolute_row {
                *r += row;
            }
            if !*absolute_column {
                *c += col;
            }
        }
        Node::RangeKind { sheet_name, absolute_row1, absolute_column1, row1, column1, absolute_row2, absolute_column2, row2, column2, .. } => {
            *sheet_name = None;
            if !*absolute_row1 {
                *row1 += row;
            }
            if !*absolute_column1 {
                *column1 += col;
            }
            if !*absolute_row2 {
                *row2 += row;
            }
            if !*absolute_column2 {
                *column2 += col;
            }
        }
        Node::DefinedNameKind((_, _, f)) => f.clear(),
        _ => {}
    });
}

/// Moves, in a denotation tree, every reference into the area (and every range entirely inside it).
fn move_denotation(t: &mut Node, shape: Shape, dr: i32, dc: i32, target_sheet: u32) {
    let inside = |s: u32, r: i32, c: i32| s == 0 && r >= SR && r < SR + shape.h && c >= SC && c < SC + shape.w;
    fx::walk_mut(t, &mut |n| match n {
        Node::ReferenceKind { sheet_index, row, column, .. } => {
            if inside(*sheet_index, *row, *column) {
                *row += dr;
                *column += dc;
                *sheet_index = target_sheet;
            }
        }
        Node::RangeKind { sheet_index, row1, column1, row2, column2, .. } => {
            if inside(*sheet_index, *row1, *column1) && inside(*sheet_index, *row2, *column2) {
                *row1 += dr;
                *row2 += dr;
                *column1 += dc;
                *column2 += dc;
                *sheet_index = target_sheet;
            }
        }
        _ => {}
    });
}

fn cell_value(um: &UserModel, sheet: u32, row: i32, col: i32) -> String {
    let m = um.get_model();
    match m.workbook.worksheets.get(sheet as usize).and_then(|ws| ws.cell(row, col)) {
        Some(cell) => format!("{:?}:{:?}", cell.get_type(), cell.value(&m.workbook.shared_strings, fx::lang("en"))),
        None => "<none>".into(),
    }
}

#[derive(Clone, Debug)]
pub struct Case {
    pub cfg: usize,
    pub formula: String,
    pub is_const: bool,
    pub h: i32,
    pub w: i32,
    pub ts: u32,
    pub dr: i32,
    pub dc: i32,
    pub cut: bool,
    /// sheet names that need quoting
    pub qs: bool,
}

fn case_json(c: &Case) -> Value {
    json!({"cfg": c.cfg, "formula": c.formula, "const": c.is_const, "h": c.h, "w": c.w, "ts": c.ts, "dr": c.dr, "dc": c.dc, "cut": c.cut, "qs": c.qs})
}

/// Cut only: coarse class of the difference at the first pasted cell (None = fine or not executable).
fn first_cell_class(env: &mut c09::Env, c: &Case) -> Option<String> {
    set_sheets(c.qs);
    let (lang, locale) = CFGS[c.cfg];
    let shape = Shape { h: c.h, w: c.w };
    let mut um = build(env, lang, locale, shape, &c.formula, false)?;
    let mut p = rc_parser();
    let mut want = denote(&mut p, &um, 0, SR, SC)?;
    let op = Op::Paste(0, SR, SC, SR + c.h - 1, SC + c.w - 1, c.ts, SR + c.dr, SC + c.dc, true);
    match crate::env::guarded(|| op.apply(&mut um)) {
        Ok(Ok(())) => {}
        _ => return None,
    }
    let got = denote(&mut p, &um, c.ts, SR + c.dr, SC + c.dc)?;
    move_denotation(&mut want, shape, c.dr, c.dc, c.ts);
    coarse(&want, &got)
}

/// Minimises a cut whose pasted formula lost its nesting: descends into sub-formulas that still fail when cut on
/// their own, then finds the culprit operand by substituting the leaf `2` (same method as C09, with the cut as printer).
fn refine_nesting(env: &mut c09::Env, c: &Case) -> Option<String> {
    let cx = fx::ctx(sheets()[0], SR, SC);
    let mut p = fx::mk_parser(&sheets(), names(), fx::loc("en"), fx::lang("en"));
    let t = p.parse(&sub(&c.formula), &cx);
    if fx::has_parse_error(&t) {
        return None;
    }
    let mut fails = |n: &Node, env: &mut c09::Env| -> bool {
        let text = fx::paren_text(n, &cx);
        if &p.parse(&text, &cx) != n {
            return false;
        }
        let c2 = Case { formula: text, ..c.clone() };
        first_cell_class(env, &c2).map(|s| s.starts_with("nesting")).unwrap_or(false)
    };
    let mut m = t.clone();
    'descend: loop {
        let kids: Vec<Node> = fx::children(&m).iter().map(|(_, k)| (*k).clone()).collect();
        for k in kids {
            if !fx::children(&k).is_empty() && fails(&k, env) {
                m = k;
                continue 'descend;
            }
        }
        break;
    }
    let kids: Vec<(String, Node)> = fx::children(&m).iter().map(|(s, k)| (s.clone(), (*k).clone())).collect();
    let neutral = || Node::NumberKind(2.0);
    for (i, (side, k)) in kids.iter().enumerate() {
        if fx::children(k).is_empty() {
            continue;
        }
        // keep only operand i, neutralise the other operator operands (a reference must remain somewhere)
        let mut only = m.clone();
        for (j, (_, kj)) in kids.iter().enumerate() {
            if j != i && !fx::children(kj).is_empty() {
                only = fx::with_child(&only, j, neutral());
            }
        }
        if fails(&only, env) {
            return Some(format!("nesting parent={} child={} side={}", fx::kd(&m), fx::kd(k), side));
        }
    }
    Some(format!("nesting parent={} child=unresolved", fx::kd(&m)))
}

pub fn check(env: &mut c09::Env, c: &Case) -> (bool, Vec<Disagreement>) {
    set_sheets(c.qs);
    let (lang, locale) = CFGS[c.cfg];
    let shape = Shape { h: c.h, w: c.w };
    let mut um = match build(env, lang, locale, shape, &c.formula, c.is_const) {
        Some(u) => u,
        None => return (false, vec![]),
    };
    let mode = if c.cut { "cut" } else { "copy" };
    let place = if c.ts != 0 {
        "other-sheet"
    } else if c.dr.abs() < c.h && c.dc.abs() < c.w {
        "overlap"
    } else {
        "disjoint"
    };
    let mut ds: Vec<Disagreement> = vec![];
    let count = std::cell::Cell::new(0usize);
    let mut add = |what: String, detail: String| {
        count.set(count.get() + 1);
        ds.push(Disagreement {
            sig: format!("{} {} {}", mode, place, what),
            case: case_json(c),
            detail: format!("{} of Sheet1!R{}C{} ({}x{}, first cell `{}`, {}/{}) to sheet {} offset ({},{})\n{}", mode, SR, SC, c.h, c.w, c.formula, lang, locale, c.ts, c.dr, c.dc, detail),
        });
    };
    let mut p = rc_parser();
    // before
    let mut src_den = vec![];
    let mut src_rc = vec![];
    let mut src_val = vec![];
    for i in 0..c.h {
        for j in 0..c.w {
            src_den.push(denote(&mut p, &um, 0, SR + i, SC + j));
            src_rc.push(fx::stored_rc(um.get_model(), 0, SR + i, SC + j));
            src_val.push(cell_value(&um, 0, SR + i, SC + j));
        }
    }
    let obs = observers();
    let obs_den: Vec<Option<Node>> = obs.iter().map(|(s, r, cc, _, _)| denote(&mut p, &um, *s, *r, *cc)).collect();
    let obs_rc: Vec<Option<String>> = obs.iter().map(|(s, r, cc, _, _)| fx::stored_rc(um.get_model(), *s, *r, *cc)).collect();
    let obs_val: Vec<String> = obs.iter().map(|(s, r, cc, _, _)| cell_value(&um, *s, *r, *cc)).collect();
    let style0 = um.get_model().get_style_for_cell(0, SR, SC).ok();
    let link0 = format!("{:?}", um.get_cell_link(0, SR, SC));
    // the operation
    let (tr, tc) = (SR + c.dr, SC + c.dc);
    let op = Op::Paste(0, SR, SC, SR + c.h - 1, SC + c.w - 1, c.ts, tr, tc, c.cut);
    match crate::env::guarded(|| op.apply(&mut um)) {
        Err(pn) => {
            add(format!("panic at={}", pn.rsplit(" @ ").next().unwrap_or("")), pn);
            return (true, ds);
        }
        Ok(Err(e)) => {
            add("error".into(), format!("paste returned Err({})", e));
            return (true, ds);
        }
        Ok(Ok(())) => {}
    }
    um.evaluate();
    let cfg_tag = |got: &Node| if c.cfg != 0 && fx::has_parse_error(got) { format!(" cfg={}", lang) } else { String::new() };
    // pasted cells
    let mut pending_values: Vec<(String, String)> = vec![];
    let mut k = 0usize;
    for i in 0..c.h {
        for j in 0..c.w {
            let idx = k;
            k += 1;
            let (r, cc) = (tr + i, tc + j);
            let which = if i == 0 && j == 0 { "first" } else { "inner" };
            match &src_den[idx] {
                None => {
                    // constant: same value and type
                    let v = cell_value(&um, c.ts, r, cc);
                    if v != src_val[idx] {
                        add(format!("constant-changed kind={}", src_val[idx].split(':').next().unwrap_or("")), format!("source value {} pasted value {}", src_val[idx], v));
                    }
                }
                Some(sd) => {
                    let got = denote(&mut p, &um, c.ts, r, cc);
                    let got = match got {
                        Some(g) => g,
                        None => {
                            add(format!("pasted-{} not-a-formula{}", which, if c.cfg != 0 { format!(" cfg={}", lang) } else { String::new() }), format!("pasted cell R{}C{} holds `{}`", r, cc, um.get_cell_content(c.ts, r, cc).unwrap_or_default()));
                            continue;
                        }
                    };
                    if c.cut {
                        let mut want = sd.clone();
                        move_denotation(&mut want, shape, c.dr, c.dc, c.ts);
                        if let Some(mut dv) = coarse(&want, &got) {
                            if dv.starts_with("nesting") && which == "first" {
                                if let Some(r) = refine_nesting(env, c) {
                                    dv = r;
                                }
                            }
                            add(
                                format!("pasted-{} {}{}", which, dv, cfg_tag(&got)),
                                format!("source stored `{}`, pasted cell stores `{}`\nexpected denotation {}\ngot {}", src_rc[idx].clone().unwrap_or_default(), fx::stored_rc(um.get_model(), c.ts, r, cc).unwrap_or_default(), fx::short(&want), fx::short(&got)),
                            );
                        } else {
                            let v = cell_value(&um, c.ts, r, cc);
                            if v != src_val[idx] {
                                pending_values.push((format!("pasted-{} value-changed", which), format!("value before {} after {}", src_val[idx], v)));
                            }
                        }
                    } else {
                        // copy: relative form identical, off-grid references become #REF!
                        let rc_src = src_rc[idx].clone().unwrap_or_default();
                        let mut want = p.parse(&rc_src, &fx::ctx(sheets()[0], SR + i, SC + j));
                        let mut off = false;
                        fx::walk_mut(&mut want, &mut |n| {
                            let bad = |abs: bool, v: i32, base: i32, max: i32| {
                                let a = if abs { v } else { v + base };
                                a < 1 || a > max
                            };
                            let kill = match n {
                                Node::ReferenceKind { absolute_row, absolute_column, row, column, .. } => bad(*absolute_row, *row, r, LAST_ROW) || bad(*absolute_column, *column, cc, LAST_COL),
                                Node::RangeKind { absolute_row1, absolute_column1, row1, column1, absolute_row2, absolute_column2, row2, column2, .. } => {
                                    bad(*absolute_row1, *row1, r, LAST_ROW) || bad(*absolute_column1, *column1, cc, LAST_COL) || bad(*absolute_row2, *row2, r, LAST_ROW) || bad(*absolute_column2, *column2, cc, LAST_COL)
                                }
                                _ => false,
                            };
                            if kill {
                                *n = Node::ErrorKind(Error::REF);
                                off = true;
                            }
                        });
                        let rc_got = fx::stored_rc(um.get_model(), c.ts, r, cc).unwrap_or_default();
                        let tsheet = sheets()[if c.ts == 0 { 0 } else { 1 }];
                        let mut got_rel = p.parse(&rc_got, &fx::ctx(tsheet, r, cc));
                        if !fx::has_parse_error(&got_rel) && to_rc_format(&got_rel) != rc_got {
                            got_rel = Node::ParseErrorKind { formula: rc_got.clone(), message: "stored text is not R1C1".into(), position: 0, expecting: vec![] };
                        }
                        // on another sheet unqualified references keep their text and now mean that sheet
                        let norm = |t: &mut Node| {
                            fx::walk_mut(t, &mut |n| match n {
                                Node::ReferenceKind { sheet_name: None, sheet_index, .. } | Node::RangeKind { sheet_name: None, sheet_index, .. } => *sheet_index = 0,
                                Node::DefinedNameKind((_, _, f)) => f.clear(),
                                _ => {}
                            })
                        };
                        norm(&mut want);
                        norm(&mut got_rel);
                        if let Some(dv) = coarse(&want, &got_rel) {
                            add(
                                format!("pasted-{} {}{}{}", which, if off { "offgrid " } else { "" }, dv, cfg_tag(&got_rel)),
                                format!("source stored `{}`, pasted cell stores `{}`", rc_src, rc_got),
                            );
                        } else if !off && rc_got != rc_src {
                            add(format!("pasted-{} rc-text-differs", which), format!("source stored `{}`, pasted cell stores `{}`", rc_src, rc_got));
                        }
                        let _ = got;
                    }
                }
            }
        }
    }
    // value differences of pasted cells are reported only when nothing structural explains them
    if count.get() == 0 {
        for (w, d) in pending_values {
            add(w, d);
        }
    }
    let pasted_bad = count.get() > 0;
    // style and link of the first cell
    let style1 = um.get_model().get_style_for_cell(c.ts, tr, tc).ok();
    if style1 != style0 {
        add("style".into(), format!("style of the first pasted cell differs: font.b {:?} -> {:?}", style0.map(|s| s.font.b), style1.map(|s| s.font.b)));
    }
    let link1 = format!("{:?}", um.get_cell_link(c.ts, tr, tc));
    if link1 != link0 {
        add("link".into(), format!("link {} -> {}", link0, link1));
    }
    let mut names_bad = false;
    // defined names follow a cut
    let moved = c.dr != 0 || c.dc != 0 || c.ts != 0;
    let col = |n: i32| ironcalc_base::expressions::utils::number_to_column(n).unwrap_or_default();
    let tsheet = qn(if c.ts == 0 { 0 } else { 1 });
    let want_src = if c.cut && moved { format!("{}!${}${}", tsheet, col(SC + c.dc), SR + c.dr) } else { sub("Sheet1!$C$3") };
    let want_srcr = if c.cut && moved && c.w >= 2 {
        format!("{}!${}${}:${}${}", tsheet, col(SC + c.dc), SR + c.dr, col(SC + 1 + c.dc), SR + c.dr)
    } else {
        sub("Sheet1!$C$3:$D$3")
    };
    for (name, want) in [("src", want_src), ("srcr", want_srcr)] {
        let got = um.get_model().workbook.defined_names.iter().find(|d| d.name == name).map(|d| d.formula.clone()).unwrap_or_default();
        if got.trim_start_matches('=') != want {
            add(format!("defined-name={}", name), format!("defined name {} is `{}`, expected `{}`", name, got, want));
            names_bad = true;
        }
    }
    // observers
    let target_hits_row3 = c.ts == 0 && tr <= 3 && 3 < tr + c.h && tc <= 4 && 2 < tc + c.w;
    for (n, (s, r, cc, f, class)) in obs.iter().enumerate() {
        // an observer the paste wrote over is gone by design
        if c.ts == *s && *r >= tr && *r < tr + c.h && *cc >= tc && *cc < tc + c.w {
            continue;
        }
        let got = denote(&mut p, &um, *s, *r, *cc);
        let rc_now = fx::stored_rc(um.get_model(), *s, *r, *cc);
        if c.cut {
            let mut want = match &obs_den[n] {
                Some(w) => w.clone(),
                None => continue,
            };
            move_denotation(&mut want, shape, c.dr, c.dc, c.ts);
            match got {
                None => add(format!("observer={} not-a-formula", class), format!("observer `{}` now holds `{}`", f, um.get_cell_content(*s, *r, *cc).unwrap_or_default())),
                Some(g) => {
                    if let Some(dv) = coarse(&want, &g) {
                        add(
                            format!("observer={} {}{}", class, dv, cfg_tag(&g)),
                            format!("observer `{}` stored `{}` before, `{}` after\nexpected denotation {}\ngot {}", f, obs_rc[n].clone().unwrap_or_default(), rc_now.unwrap_or_default(), fx::short(&want), fx::short(&g)),
                        );
                        continue;
                    }
                    // values: unchanged unless the observer reads a range that is not entirely inside the area
                    let reads_partial = class.starts_with("straddle") || ((*class == "range" || *class == "name-range") && c.w < 2);
                    if !reads_partial && !pasted_bad && !(names_bad && class.starts_with("name")) {
                        let v = cell_value(&um, *s, *r, *cc);
                        if v != obs_val[n] {
                            add(format!("observer={} value-changed", class), format!("observer `{}` value {} -> {}", f, obs_val[n], v));
                        }
                    }
                }
            }
        } else {
            if rc_now != obs_rc[n] {
                add(format!("observer={} formula-changed-by-copy", class), format!("observer `{}` stored {:?} -> {:?}", f, obs_rc[n], rc_now));
            } else if !target_hits_row3 && !pasted_bad && *class != "straddle2" {
                let v = cell_value(&um, *s, *r, *cc);
                if v != obs_val[n] {
                    add(format!("observer={} value-changed-by-copy", class), format!("observer `{}` value {} -> {}", f, obs_val[n], v));
                }
            }
        }
    }
    (true, ds)
}

pub fn cases(thorough: bool) -> Vec<Case> {
    let mut v = vec![];
    let shapes: Vec<(i32, i32)> = if thorough { vec![(1, 1), (1, 2), (2, 2)] } else { vec![(1, 1), (1, 2)] };
    let mut targets: Vec<(u32, i32, i32)> = vec![];
    for dr in [-1, 0, 1, 2] {
        for dc in [-1, 0, 1, 2] {
            targets.push((0, dr, dc));
        }
    }
    targets.push((1, 0, 0));
    targets.push((1, 1, 2));
    let small = corpus(false);
    for (cfg, _) in CFGS.iter().enumerate() {
        for (h, w) in &shapes {
            for (ts, dr, dc) in &targets {
                for cut in [false, true] {
                    for f in &small {
                        v.push(Case { cfg, formula: f.clone(), is_const: false, h: *h, w: *w, ts: *ts, dr: *dr, dc: *dc, cut, qs: false });
                    }
                    for k in CONSTANTS {
                        v.push(Case { cfg, formula: k.to_string(), is_const: true, h: *h, w: *w, ts: *ts, dr: *dr, dc: *dc, cut, qs: false });
                    }
                }
            }
        }
    }
    // sheet names that must be quoted (en/en): the hand-picked constructs and the constants, every shape, target and mode
    for (h, w) in &shapes {
        for (ts, dr, dc) in &targets {
            for cut in [false, true] {
                for f in constructs() {
                    v.push(Case { cfg: 0, formula: f.to_string(), is_const: false, h: *h, w: *w, ts: *ts, dr: *dr, dc: *dc, cut, qs: true });
                }
                for k in CONSTANTS {
                    v.push(Case { cfg: 0, formula: k.to_string(), is_const: true, h: *h, w: *w, ts: *ts, dr: *dr, dc: *dc, cut, qs: true });
                }
            }
        }
    }
    if thorough {
        // the large term set: 1x2 block, en/en and de/de, six targets
        let small_set: std::collections::BTreeSet<&String> = small.iter().collect();
        for f in corpus(true).iter().filter(|f| !small_set.contains(f)) {
            for cfg in [0usize, 1] {
                for (ts, dr, dc) in [(0u32, 0, 1), (0, 1, 0), (0, -1, -1), (0, 2, 2), (1, 0, 0), (1, 1, 2)] {
                    for cut in [false, true] {
                        v.push(Case { cfg, formula: f.clone(), is_const: false, h: 1, w: 2, ts, dr, dc, cut, qs: false });
                    }
                }
            }
        }
    }
    v
}

pub fn run(run: &mut Run) {
    let thorough = run.tier.thorough();
    let cs = cases(thorough);
    let chunk = 64;
    let res = crate::env::par_units(cs.len().div_ceil(chunk), |u| {
        let mut env = c09::Env::new();
        let mut ds = vec![];
        let (mut ran, mut skipped) = (0u64, 0u64);
        let mut outcomes = std::collections::BTreeSet::new();
        for c in cs.iter().skip(u * chunk).take(chunk) {
            let (ok, d) = check(&mut env, c);
            if ok {
                ran += 1;
            } else {
                skipped += 1;
            }
            outcomes.insert(crate::env::digest(&format!("{}{}{}", c.formula, c.dr, c.dc)));
            ds.extend(d);
        }
        (ds, ran, skipped, outcomes)
    });
    let (mut ran, mut skipped) = (0u64, 0u64);
    let mut outcomes = std::collections::BTreeSet::new();
    for r in res {
        match r {
            Ok((ds, a, b, o)) => {
                run.add_all(ds);
                ran += a;
                skipped += b;
                outcomes.extend(o);
            }
            Err(e) => run.machinery_errors.push(format!("unit panicked: {}", e)),
        }
    }
    run.evaluations = cs.len() as u64;
    run.states = ran;
    run.transitions = ran * 4;
    run.traces = ran;
    run.nontrivial = ran;
    run.distinct_outcomes = outcomes.len() as u64;
    run.rule = "every executed case is a real clipboard round trip of a formula-bearing (or constant) block with observers; cases whose typed text is not stored as the intended formula are skipped".into();
    for i in [0, cs.len() / 2, cs.len() - 1] {
        run.sample(case_json(&cs[i]));
    }
    run.bound = json!({
        "configurations": CFGS.iter().map(|(l, c)| format!("{}/{}", l, c)).collect::<Vec<_>>(),
        "source_shapes": if thorough { "1x1, 1x2, 2x2 at Sheet1!C3" } else { "1x1, 1x2 at Sheet1!C3" },
        "targets": "offsets {-1,0,1,2}^2 on the same sheet (overlapping and disjoint) + 2 on the other sheet",
        "modes": ["copy", "cut"],
        "sheet_names": "Sheet1/Sheet2 for every configuration; `My Data`/`It's 2` (quoted in every printed reference) for en/en over the hand-picked constructs and the constants",
        "first_cell_formulas": corpus(thorough).len(),
        "large_term_set": if thorough { "depth<=1 over {G1,$H$2,Sheet2!G1,2} x 12 operators with unary - and %: 1x2 block, en/en and de/de, six targets" } else { "-" },
        "constants": CONSTANTS,
        "observers": observers().iter().map(|o| o.3).collect::<Vec<_>>(),
        "cases": cs.len(), "executed": ran, "skipped_typed_text_not_the_formula": skipped,
    });
    run.exhaustive = true;
    run.assume("the paste zone (rows 2..6, columns B..F) holds nothing but the source block; data lives in G1:H2, observers in row 8");
    run.assume("under cut, values of observers reading a range that is only partly inside the cut area may change and are not compared; under copy, observer values are compared only when the target does not touch B3:D3");
    run.assume("the statement does not say what remains in the vacated source cells; not compared");
}

pub fn replay(case: &Value) -> Vec<Disagreement> {
    let mut env = c09::Env::new();
    let c = Case {
        cfg: case["cfg"].as_u64().unwrap_or(0) as usize % CFGS.len(),
        formula: case["formula"].as_str().unwrap_or("").to_string(),
        is_const: case["const"].as_bool().unwrap_or(false),
        h: case["h"].as_i64().unwrap_or(1) as i32,
        w: case["w"].as_i64().unwrap_or(1) as i32,
        ts: case["ts"].as_u64().unwrap_or(0) as u32,
        dr: case["dr"].as_i64().unwrap_or(0) as i32,
        dc: case["dc"].as_i64().unwrap_or(0) as i32,
        cut: case["cut"].as_bool().unwrap_or(false),
        qs: case["qs"].as_bool().unwrap_or(false),
    };
    check(&mut env, &c).1
}

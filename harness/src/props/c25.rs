//! C25 xlsx import never crashes: every single structural mutation (and, thorough, pairs inside three
//! named parts) of every XML part of a set of seed packages, plus zip-level damage, is imported with
//! `load_from_xlsx_bytes`; on Ok the workbook goes through `Model::from_workbook` and `evaluate`.
//! Oracle: no panic, no abort, termination. Cases run in worker subprocesses (`crate::isolate`).

use crate::isolate::{self, CaseOut, Job};
use crate::report::{Disagreement, Run, Tier};
use crate::xmlmut::{self, Layout, Mutation};
use ironcalc::import::load_from_xlsx_bytes;
use ironcalc_base::Model;
use serde_json::{json, Value};
use std::collections::BTreeMap;

pub const WATCHDOG_S: f64 = 30.0;

const QUICK_FILES: [&str; 6] = [
    "openpyxl_example.xlsx",
    "libreoffice_888_example.xlsx",
    "missing_r_on_row.xlsx",
    "shared_formula_volatile.xlsx",
    "dynamic_arrays.xlsx",
    "docs/CHOOSE.xlsx",
];

const THOROUGH_FILES: [&str; 24] = [
    "optional_xf_id.xlsx",
    "freeze.xlsx",
    "calc_test_no_export/tables.xlsx",
    "link_test.xlsx",
    "conditional_formatting/cf_tests.xlsx",
    "split.xlsx",
    "NoGrid.xlsx",
    "basic_text.xlsx",
    "DynamicArrays.xlsx",
    "gridlines_issue_1269.xlsx",
    "custom_theme_colors.xlsx",
    "crossword_ranges.xlsx",
    "docs/DATE.xlsx",
    "docs/SIN.xlsx",
    "templates/crossword.xlsx",
    "templates/invoice.xlsx",
    "calc_tests/LOOKUP_AND_REFERENCE/XMATCH_arrays.xlsx",
    "calc_tests/FINANCIAL/ACCRINTM.xlsx",
    "calc_tests/array_in_scalar_repro.xlsx",
    "calc_tests/escape_strings.xlsx",
    "calc_tests/defined_names_for_unit_test.xlsx",
    "calc_tests/LOGICAL/LET.xlsx",
    "calc_tests/quotes.xlsx",
    "calc_tests/simple_arrays.xlsx",
];

/// Parts of the exported seeds whose mutation pairs are enumerated in the thorough tier.
const PAIR_PARTS: [&str; 3] = ["xl/worksheets/sheet1.xml", "xl/workbook.xml", "xl/styles.xml"];
const PAIR_PKGS: [&str; 3] = ["export:basic", "feature:cf", "feature:structure"];

fn tests_dir() -> String {
    std::env::var("VERIF_XLSX_TESTS").unwrap_or_else(|_| "/repo/xlsx/tests".to_string())
}

pub struct Part {
    pub member: usize,
    pub layout: Layout,
    pub muts: Vec<Mutation>,
    /// subset of `muts` used for pairs
    pub pair_muts: Vec<usize>,
}

pub struct Pkg {
    pub name: String,
    pub raw: Vec<u8>,
    pub members: Vec<(String, Vec<u8>)>,
    pub parts: Vec<Part>,
    /// start of the central directory in `raw`
    pub cd_start: usize,
}

fn looks_like_xml(b: &[u8]) -> bool {
    let mut i = 0;
    if b.starts_with(&[0xEF, 0xBB, 0xBF]) {
        i = 3;
    }
    while i < b.len() && b[i].is_ascii_whitespace() {
        i += 1;
    }
    i < b.len() && b[i] == b'<'
}

fn pair_ok(m: &Mutation) -> bool {
    match m {
        Mutation::DelElem(_) | Mutation::DelChildren(_) | Mutation::DupElem(_) | Mutation::DelAttr(..) => true,
        Mutation::SetAttr(_, _, k) => matches!(xmlmut::ATTR_VALUES[*k], "" | "-1" | "x"),
        _ => false,
    }
}

pub fn package_bytes(name: &str) -> Result<Vec<u8>, String> {
    if let Some(seed) = name.strip_prefix("export:") {
        let um = crate::seeds::load(crate::hist::seed_name(seed));
        crate::xlsxutil::export_bytes(um.get_model())
    } else if let Some(f) = name.strip_prefix("feature:") {
        let um = crate::xfeat::feature_model(f);
        crate::xlsxutil::export_bytes(um.get_model())
    } else if let Some(f) = name.strip_prefix("file:") {
        std::fs::read(format!("{}/{}", tests_dir(), f)).map_err(|e| format!("cannot read {}: {}", f, e))
    } else {
        Err(format!("unknown package {}", name))
    }
}

pub fn load_pkg(name: &str) -> Result<Pkg, String> {
    let raw = package_bytes(name)?;
    let members = crate::xlsxutil::unpack(&raw)?;
    let mut parts = vec![];
    for (i, (_, b)) in members.iter().enumerate() {
        if looks_like_xml(b) {
            let layout = xmlmut::layout(b);
            let muts = xmlmut::all_mutations(&layout);
            let pair_muts = muts
                .iter()
                .enumerate()
                .filter(|(_, m)| pair_ok(m))
                .map(|(k, _)| k)
                .collect();
            parts.push(Part {
                member: i,
                layout,
                muts,
                pair_muts,
            });
        }
    }
    // end-of-central-directory record: last "PK\5\6"
    let mut cd_start = raw.len();
    if raw.len() >= 22 {
        for i in (0..=raw.len() - 22).rev() {
            if raw[i..].starts_with(b"PK\x05\x06") {
                let off = u32::from_le_bytes([raw[i + 16], raw[i + 17], raw[i + 18], raw[i + 19]]) as usize;
                cd_start = off.min(raw.len());
                break;
            }
        }
    }
    Ok(Pkg {
        name: name.to_string(),
        raw,
        members,
        parts,
        cd_start,
    })
}

#[derive(Clone, Copy, PartialEq, Debug)]
enum SegKind {
    /// single mutations of a part, then remove-part, then replace-part
    Part(usize),
    ZipTruncate,
    ZipDirByte,
    /// pairs (i<j) over `pair_muts` of a part
    Pairs(usize),
}

struct Segment {
    pkg: usize,
    kind: SegKind,
    start: usize,
    count: usize,
}

pub struct C25Job {
    pkgs: Vec<Pkg>,
    segs: Vec<Segment>,
    total: usize,
    pub load_errors: Vec<String>,
}

pub fn package_names(tier: Tier) -> Vec<String> {
    let mut v: Vec<String> = crate::seeds::SEEDS.iter().map(|s| format!("export:{}", s)).collect();
    v.extend(crate::xfeat::FEATURES.iter().map(|s| format!("feature:{}", s)));
    v.extend(QUICK_FILES.iter().map(|s| format!("file:{}", s)));
    if tier.thorough() {
        v.extend(THOROUGH_FILES.iter().map(|s| format!("file:{}", s)));
    }
    v
}

impl C25Job {
    pub fn new(tier: Tier) -> C25Job {
        let mut pkgs = vec![];
        let mut load_errors = vec![];
        for n in package_names(tier) {
            match load_pkg(&n) {
                Ok(p) => pkgs.push(p),
                Err(e) => load_errors.push(format!("package {}: {}", n, e)),
            }
        }
        let mut segs = vec![];
        let mut total = 0usize;
        let mut push = |segs: &mut Vec<Segment>, pkg: usize, kind: SegKind, count: usize| {
            if count > 0 {
                segs.push(Segment {
                    pkg,
                    kind,
                    start: total,
                    count,
                });
                total += count;
            }
        };
        for (pi, p) in pkgs.iter().enumerate() {
            for (k, part) in p.parts.iter().enumerate() {
                push(&mut segs, pi, SegKind::Part(k), part.muts.len() + 2);
            }
            push(&mut segs, pi, SegKind::ZipTruncate, p.raw.len().div_ceil(64));
            push(&mut segs, pi, SegKind::ZipDirByte, 2 * (p.raw.len() - p.cd_start));
        }
        if tier.thorough() {
            for (pi, p) in pkgs.iter().enumerate() {
                if !PAIR_PKGS.contains(&p.name.as_str()) {
                    continue;
                }
                for (k, part) in p.parts.iter().enumerate() {
                    if PAIR_PARTS.contains(&p.members[part.member].0.as_str()) {
                        let n = part.pair_muts.len();
                        push(&mut segs, pi, SegKind::Pairs(k), n * n.saturating_sub(1) / 2);
                    }
                }
            }
        }
        C25Job {
            pkgs,
            segs,
            total,
            load_errors,
        }
    }

    fn locate(&self, idx: usize) -> Option<(&Segment, usize)> {
        let k = self.segs.partition_point(|s| s.start + s.count <= idx);
        let s = self.segs.get(k)?;
        Some((s, idx - s.start))
    }

    fn pkg_by_name(&self, name: &str) -> Option<&Pkg> {
        self.pkgs.iter().find(|p| p.name == name)
    }

    pub fn stats(&self) -> Value {
        let mut per_kind: BTreeMap<String, u64> = BTreeMap::new();
        let mut elements = 0usize;
        let mut attrs = 0usize;
        let mut parts = 0usize;
        for p in &self.pkgs {
            for part in &p.parts {
                parts += 1;
                elements += part.layout.elements.len();
                attrs += part.layout.elements.iter().map(|e| e.attrs.len()).sum::<usize>();
                for m in &part.muts {
                    *per_kind.entry(m.kind().to_string()).or_default() += 1;
                }
                *per_kind.entry("remove-part".into()).or_default() += 1;
                *per_kind.entry("replace-part".into()).or_default() += 1;
            }
        }
        for s in &self.segs {
            match s.kind {
                SegKind::ZipTruncate => *per_kind.entry("zip-truncate".into()).or_default() += s.count as u64,
                SegKind::ZipDirByte => *per_kind.entry("zip-dir-byte".into()).or_default() += s.count as u64,
                SegKind::Pairs(_) => *per_kind.entry("pair".into()).or_default() += s.count as u64,
                _ => {}
            }
        }
        let mut per_pkg: BTreeMap<String, u64> = BTreeMap::new();
        for s in &self.segs {
            *per_pkg.entry(self.pkgs[s.pkg].name.clone()).or_default() += s.count as u64;
        }
        json!({"packages": self.pkgs.iter().map(|p| p.name.clone()).collect::<Vec<_>>(), "cases_per_package": per_pkg, "xml_parts": parts,
            "elements": elements, "attributes": attrs, "cases_by_mutation_kind": per_kind})
    }
}

/// (i, j) with i < j of the k-th pair in lexicographic order over n items.
fn unrank_pair(n: usize, mut k: usize) -> (usize, usize) {
    let mut i = 0;
    loop {
        let row = n - 1 - i;
        if k < row {
            return (i, i + 1 + k);
        }
        k -= row;
        i += 1;
    }
}

fn fnv64(s: &str) -> u64 {
    let mut h: u64 = 0xcbf29ce484222325;
    for b in s.bytes() {
        h ^= b as u64;
        h = h.wrapping_mul(0x100000001b3);
    }
    h
}

/// The oracle: import, build the model, evaluate. Returns (disagreements, outcome text, calls).
pub fn import_oracle(bytes: &[u8], case: &Value, what: &str, stage: &mut dyn FnMut(&str)) -> (Vec<Disagreement>, String, u64) {
    let mut ds = vec![];
    let mut calls = 1;
    let mk = |at: &str, entry: &str, p: &str| Disagreement {
        sig: format!("panic {}", at),
        case: case.clone(),
        detail: format!("{} panicked: {}\nmutation: {}", entry, p, what),
    };
    stage("load_from_xlsx_bytes");
    let outcome = match crate::env::guarded(|| load_from_xlsx_bytes(bytes, "imported", "en", "UTC")) {
        Err(p) => {
            ds.push(mk(&isolate::panic_sig(&p), "load_from_xlsx_bytes", &p));
            "panic".to_string()
        }
        Ok(Err(e)) => {
            let t: String = format!("{:?}", e).chars().filter(|c| !c.is_ascii_digit()).take(48).collect();
            format!("err {}", t)
        }
        Ok(Ok(wb)) => {
            let sheets = wb.worksheets.len();
            let cells: usize = wb
                .worksheets
                .iter()
                .map(|w| w.sheet_data.values().map(|r| r.len()).sum::<usize>())
                .sum();
            calls += 1;
            stage("Model::from_workbook");
            match crate::env::guarded(|| Model::from_workbook(wb, "en")) {
                Err(p) => {
                    ds.push(mk(&isolate::panic_sig(&p), "Model::from_workbook (after a successful import)", &p));
                    "panic".to_string()
                }
                Ok(Err(_)) => format!("ok-import sheets={} cells={} model-err", sheets, cells),
                Ok(Ok(mut m)) => {
                    calls += 1;
                    stage("Model::evaluate");
                    match crate::env::guarded(|| m.evaluate()) {
                        Err(p) => {
                            ds.push(mk(&isolate::panic_sig(&p), "Model::evaluate (after a successful import)", &p));
                            "panic".to_string()
                        }
                        Ok(()) => format!("ok sheets={} cells={}", sheets, cells),
                    }
                }
            }
        }
    };
    (ds, outcome, calls)
}

impl C25Job {
    /// Builds the mutated package of a case: (bytes, description, well-formed-and-changed).
    fn build(&self, case: &Value) -> Result<(Vec<u8>, String, bool), String> {
        let name = case["pkg"].as_str().ok_or("case without pkg")?;
        let owned;
        let pkg = match self.pkg_by_name(name) {
            Some(p) => p,
            None => {
                owned = load_pkg(name)?;
                &owned
            }
        };
        if let Some(off) = case["zip-truncate"].as_u64() {
            let off = (off as usize).min(pkg.raw.len());
            let b = pkg.raw[..off].to_vec();
            let opens = zip::ZipArchive::new(std::io::Cursor::new(&b[..])).is_ok();
            return Ok((b, format!("archive truncated to {} of {} bytes", off, pkg.raw.len()), opens));
        }
        if case["zip-byte"].is_object() {
            let off = case["zip-byte"]["offset"].as_u64().unwrap_or(0) as usize;
            let val = case["zip-byte"]["value"].as_u64().unwrap_or(0) as u8;
            let mut b = pkg.raw.clone();
            if off < b.len() {
                b[off] = val;
            }
            let changed = b != pkg.raw;
            let opens = changed && zip::ZipArchive::new(std::io::Cursor::new(&b[..])).is_ok();
            return Ok((
                b,
                format!("central-directory byte at offset {} of {} set to {:#04x}", off, pkg.raw.len(), val),
                opens,
            ));
        }
        let part_name = case["part"].as_str().ok_or("case without part")?;
        let part = pkg
            .parts
            .iter()
            .find(|p| pkg.members[p.member].0 == part_name)
            .ok_or_else(|| format!("no XML part {} in {}", part_name, name))?;
        let orig = &pkg.members[part.member].1;
        let mut members = pkg.members.clone();
        let (desc, nontrivial);
        if case["remove"].as_bool() == Some(true) {
            members.remove(part.member);
            desc = format!("part {} removed", part_name);
            nontrivial = true;
        } else if let Some(r) = case["replace"].as_str() {
            members[part.member].1 = r.as_bytes().to_vec();
            desc = format!("part {} replaced by `{}`", part_name, r);
            nontrivial = true;
        } else if case["pair"].is_array() {
            let m1 = Mutation::from_json(&case["pair"][0]).ok_or("bad mutation")?;
            let m2 = Mutation::from_json(&case["pair"][1]).ok_or("bad mutation")?;
            match xmlmut::apply_pair(&m1, &m2, orig, &part.layout) {
                Some(b) => {
                    nontrivial = well_formed(&b);
                    members[part.member].1 = b;
                    desc = format!(
                        "{}: {} AND {}",
                        part_name,
                        m1.describe(orig, &part.layout),
                        m2.describe(orig, &part.layout)
                    );
                }
                None => {
                    // overlapping edits: the second mutation is inside what the first removed; run the first alone
                    let b = m1.apply(orig, &part.layout).ok_or("mutation out of range")?;
                    nontrivial = false;
                    members[part.member].1 = b;
                    desc = format!("{}: {} (second edit overlaps)", part_name, m1.describe(orig, &part.layout));
                }
            }
        } else {
            let m = Mutation::from_json(&case["mut"]).ok_or("bad mutation")?;
            let b = m.apply(orig, &part.layout).ok_or("mutation out of range")?;
            nontrivial = &b != orig && well_formed(&b);
            members[part.member].1 = b;
            desc = format!("{}: {}", part_name, m.describe(orig, &part.layout));
        }
        Ok((crate::xlsxutil::pack(&members), format!("{} [{}]", desc, name), nontrivial))
    }
}

fn well_formed(b: &[u8]) -> bool {
    match std::str::from_utf8(b) {
        Ok(s) => roxmltree::Document::parse(s).is_ok(),
        Err(_) => false,
    }
}

impl Job for C25Job {
    fn n_cases(&self) -> usize {
        self.total
    }
    fn case_json(&self, idx: usize) -> Value {
        let (seg, k) = match self.locate(idx) {
            Some(x) => x,
            None => return Value::Null,
        };
        let pkg = &self.pkgs[seg.pkg];
        match seg.kind {
            SegKind::Part(pk) => {
                let part = &pkg.parts[pk];
                let pname = &pkg.members[part.member].0;
                if k < part.muts.len() {
                    json!({"pkg": pkg.name, "part": pname, "mut": part.muts[k].to_json()})
                } else if k == part.muts.len() {
                    json!({"pkg": pkg.name, "part": pname, "remove": true})
                } else {
                    json!({"pkg": pkg.name, "part": pname, "replace": "<a/>"})
                }
            }
            SegKind::ZipTruncate => json!({"pkg": pkg.name, "zip-truncate": k * 64}),
            SegKind::ZipDirByte => {
                json!({"pkg": pkg.name, "zip-byte": {"offset": pkg.cd_start + k / 2, "value": if k % 2 == 0 { 0 } else { 255 }}})
            }
            SegKind::Pairs(pk) => {
                let part = &pkg.parts[pk];
                let pname = &pkg.members[part.member].0;
                let (i, j) = unrank_pair(part.pair_muts.len(), k);
                json!({"pkg": pkg.name, "part": pname,
                    "pair": [part.muts[part.pair_muts[i]].to_json(), part.muts[part.pair_muts[j]].to_json()]})
            }
        }
    }
    fn run_case(&self, case: &Value, stage: &mut dyn FnMut(&str)) -> CaseOut {
        let mut out = CaseOut::default();
        match self.build(case) {
            Err(e) => out.ds.push(Disagreement {
                sig: "machinery: cannot build case".into(),
                case: case.clone(),
                detail: e,
            }),
            Ok((bytes, desc, nontrivial)) => {
                let (ds, outcome, calls) = import_oracle(&bytes, case, &desc, stage);
                out.ds = ds;
                out.nontrivial = nontrivial;
                out.outcome = fnv64(&outcome);
                out.calls = calls;
            }
        }
        out
    }
}

pub fn job(tier: Tier) -> Box<dyn Job> {
    Box::new(C25Job::new(tier))
}

pub fn run(run: &mut Run) {
    let job = C25Job::new(run.tier);
    for e in &job.load_errors {
        run.machinery_errors.push(e.clone());
    }
    let n = job.n_cases();
    // the unmutated packages must import cleanly, otherwise the seeds are not seeds
    for p in &job.pkgs {
        let mut st = |_: &str| {};
        let case = json!({"pkg": p.name, "unmutated": true});
        let (ds, outcome, _) = import_oracle(&p.raw, &case, "unmutated seed package", &mut st);
        if !ds.is_empty() || !outcome.starts_with("ok sheets") {
            run.machinery_errors
                .push(format!("seed package {} does not import cleanly: {}", p.name, outcome));
        }
    }
    // batch size does not depend on the machine, so that the grouping of cases into threads is reproducible
    let batch = if run.tier.thorough() { 16_384 } else { 4_096 };
    let sum = isolate::run_isolated(
        run,
        "C25",
        n,
        &|i| job.case_json(i),
        &isolate::Opts {
            watchdog_s: WATCHDOG_S,
            batch,
            wall_cap_s: if run.tier.thorough() { 900.0 } else { 120.0 },
        },
    );
    run.evaluations = sum.cases_run;
    run.states = sum.cases_run;
    run.traces = sum.cases_run;
    run.transitions = sum.calls;
    run.nontrivial = sum.nontrivial;
    run.distinct_outcomes = sum.outcomes.len() as u64;
    run.exhaustive = run.cap_hit.is_none();
    let mut b = job.stats();
    b["cases"] = json!(n);
    b["attribute_values"] = json!(xmlmut::ATTR_VALUES);
    b["text_values"] = json!(xmlmut::TEXT_VALUES);
    b["zip"] = json!("archive truncated at every 64th byte; every byte of the central directory and end record set to 0x00 and 0xFF");
    if run.tier.thorough() {
        b["pairs"] = json!({"packages": PAIR_PKGS, "parts": PAIR_PARTS,
            "operators": "del-elem, del-children, dup-elem, del-attr, set-attr in {\"\", \"-1\", \"x\"}; both located on the original text, overlapping pairs reduced to the first"});
    }
    b["isolation"] = json!({"worker_processes": sum.worker_processes, "deaths": sum.deaths, "hangs": sum.hangs, "transient_losses": sum.transient,
        "watchdog_s": WATCHDOG_S, "rlimit_as_gib": 4, "stack_mib": 8});
    run.bound = b;
    run.rule = "every single structural mutation of every XML part of every seed package (delete element / all children / attribute, duplicate element, 12 attribute values, 4 text values, truncation at every tag boundary, part removed, part replaced), zip truncation at every 64th byte and every central-directory byte zeroed / set to 0xFF; each mutated package goes through load_from_xlsx_bytes and, on Ok, Model::from_workbook and evaluate. non-trivial = the mutated part differs from the original and is still well-formed XML (so the damage reaches the importer's own logic), or the damaged archive still opens".into();
    for i in [0, n / 2, n.saturating_sub(1)] {
        if n > 0 {
            run.sample(job.case_json(i));
        }
    }
    run.assume("seed packages: exports of the three seed workbooks and three feature workbooks, plus the listed .xlsx files read from /repo/xlsx/tests at run time");
    run.assume("byte strings that are not within one mutation (thorough: two inside three named parts) of a seed package are not covered");
    run.assume("termination = each case finishes within the per-case watchdog in a worker with RLIMIT_AS 4 GiB and an 8 MiB stack");
}

pub fn replay(case: &Value) -> Vec<Disagreement> {
    isolate::replay_isolated("C25", case, WATCHDOG_S)
}

//! C08 No cell ever stores a non-finite number.
//!
//! (a) every built-in function x every argument tuple of arity 0..2 (thorough: 0..3) over the extreme-value alphabet E
//!     x result shape {scalar cell, 2x2 CSE array, forced dynamic array}; (b) every operator over E (same shapes);
//!     both run in worker subprocesses (RLIMIT_AS, watchdog) because some tuples allocate without bound;
//! (c) every string of length <= L over a number-ish character alphabet, typed into a cell, plus special spellings;
//! (d) non-finite spellings as <v> of a numeric cell and as cached value of formula cells in an imported package.
//! Oracle: scan of the whole workbook: every NumberCell, every formula / array anchor value, every spill value is finite and
//! the formatted text of numeric cells shows neither "inf" nor "NaN".

use crate::cellval::{a1, all_cells};
use crate::env::guarded;
use crate::report::{Disagreement, Run};
use ironcalc_base::language::get_language;
use ironcalc_base::types::{ArrayKind, Cell, FormulaValue, SpillValue};
use ironcalc_base::{Function, Model};
use serde_json::{json, Value};
use std::collections::{BTreeMap, BTreeSet};
use std::io::Write;
use std::os::unix::fs::FileExt;
use std::time::{Duration, Instant};

/// the extreme-value alphabet, as formula text
pub const E: [&str; 17] = [
    "1E-320",
    "0",
    "-0",
    "1",
    "-1",
    "0.5",
    "170",
    "TRUE",
    "\"\"",
    "\"a\"",
    "#N/A",
    "Sheet2!C9",
    "Sheet2!A1:A3",
    "{1E308,1}",
    "1E15",
    "1E308",
    "-1E308",
];
/// indices of the values that carry huge numbers (the range of extremes, the array literal, 1E15, 1E308, -1E308): an argument position holding one of them may be "poisoned" for a block, see `sweep`
const HUGE: [usize; 5] = [12, 13, 14, 15, 16];
/// Sheet2!A1:A3, the "range of extremes"
const DATA: [&str; 3] = ["1E308", "1E308", "-1E308"];

pub const SHAPES: [&str; 3] = ["scalar", "cse", "dyn"];

const BIN_OPS: [&str; 12] = ["+", "-", "*", "/", "^", "&", "=", "<>", "<", ">", "<=", ">="];
const UN_OPS: [&str; 3] = ["-", "+", "%"];

#[derive(Clone, Debug)]
enum Producer {
    Func(Function),
    Bin(&'static str),
    Un(&'static str),
}

fn producers() -> Vec<Producer> {
    let mut v: Vec<Producer> = Function::into_iter().map(Producer::Func).collect();
    v.extend(BIN_OPS.iter().map(|o| Producer::Bin(o)));
    v.extend(UN_OPS.iter().map(|o| Producer::Un(o)));
    v
}

impl Producer {
    fn name(&self) -> String {
        match self {
            Producer::Func(f) => f.to_localized_name(get_language("en").expect("en")),
            Producer::Bin(o) => format!("operator {}", o),
            Producer::Un(o) => format!("unary {}", o),
        }
    }
    /// number of argument tuples for this producer at the given maximal arity
    fn tuples(&self, max_arity: usize) -> usize {
        let n = E.len();
        match self {
            Producer::Func(_) => (0..=max_arity).map(|a| n.pow(a as u32)).sum(),
            Producer::Bin(_) => n * n,
            Producer::Un(_) => n,
        }
    }
    fn args_of(&self, mut t: usize) -> Vec<usize> {
        let n = E.len();
        match self {
            Producer::Func(_) => {
                let mut arity = 0;
                loop {
                    let c = n.pow(arity as u32);
                    if t < c {
                        break;
                    }
                    t -= c;
                    arity += 1;
                }
                let mut v = vec![];
                for _ in 0..arity {
                    v.push(t % n);
                    t /= n;
                }
                v
            }
            Producer::Bin(_) => vec![t % n, t / n],
            Producer::Un(_) => vec![t],
        }
    }
    fn formula(&self, args: &[usize]) -> String {
        let a: Vec<&str> = args.iter().map(|i| E[*i]).collect();
        match self {
            Producer::Func(_) => format!("{}({})", self.name(), a.join(",")),
            Producer::Bin(o) => format!("{}{}{}", a[0], o, a[1]),
            Producer::Un("%") => format!("{}%", a[0]),
            Producer::Un(o) => format!("{}{}", o, a[0]),
        }
    }
}

// ---------------- the oracle: scan of the whole workbook ----------------

pub struct Bad {
    pub role: String,
    pub at: String,
    pub what: String,
}

fn bad_text(t: &str) -> bool {
    let l = t.to_lowercase();
    l.contains("inf") || l.contains("nan")
}

/// Every stored number must be finite; formatted text of numeric cells must not read inf / NaN.
pub fn scan(m: &Model) -> Vec<Bad> {
    let mut out = vec![];
    let mut formatted_budget = 64;
    for (s, r, c, cell) in all_cells(m) {
        let (num, role): (Option<f64>, String) = match cell {
            Cell::NumberCell { v, .. } => (Some(*v), "number-cell".into()),
            Cell::CellFormula { v: FormulaValue::Number(n), .. } => (Some(*n), "scalar-formula".into()),
            Cell::ArrayFormula { v: FormulaValue::Number(n), kind, .. } => {
                (Some(*n), if *kind == ArrayKind::Cse { "cse-anchor".into() } else { "dyn-anchor".into() })
            }
            Cell::SpillCell { v: SpillValue::Number(n), a, .. } => {
                let anchor = m.workbook.worksheets[s as usize].cell(a.0, a.1);
                let k = match anchor {
                    Some(Cell::ArrayFormula { kind: ArrayKind::Cse, .. }) => "spill-of-cse",
                    Some(Cell::ArrayFormula { kind: ArrayKind::Dynamic, .. }) => "spill-of-dyn",
                    _ => "spill-orphan",
                };
                (Some(*n), k.into())
            }
            _ => (None, String::new()),
        };
        if let Some(n) = num {
            let at = format!("Sheet{}!{}", s + 1, a1(r, c));
            if !n.is_finite() {
                out.push(Bad { role, at, what: format!("holds {:?}", n) });
            } else if formatted_budget > 0 {
                formatted_budget -= 1;
                if let Ok(t) = m.get_formatted_cell_value(s, r, c) {
                    if bad_text(&t) {
                        out.push(Bad { role: format!("{}-formatted", role), at, what: format!("holds {:?} but displays `{}`", n, t) });
                    }
                }
            }
        }
    }
    out
}

fn base_model() -> Result<Model<'static>, String> {
    let mut m = Model::new_empty("m", "en", "UTC", "en")?;
    m.add_sheet("Sheet2")?;
    for (i, d) in DATA.iter().enumerate() {
        m.set_user_input(1, i as i32 + 1, 1, d.to_string())?;
    }
    Ok(m)
}

fn enter(m: &mut Model, shape: usize, formula: &str) -> Result<(), String> {
    match shape {
        0 => m.set_user_input(0, 1, 1, format!("={}", formula)),
        1 => m.set_user_array_formula(0, 1, 1, 2, 2, &format!("={}", formula)),
        _ => m.set_user_input(0, 1, 1, format!("=({})+{{0,0}}", formula)),
    }
}

/// Runs one formula in one shape. Ok((bads, result kind of the anchor)) or Err(panic text).
fn run_formula(shape: usize, formula: &str) -> Result<(Vec<Bad>, String), String> {
    guarded(|| {
        let mut m = match base_model() {
            Ok(m) => m,
            Err(e) => return (vec![], format!("harness:{}", e)),
        };
        if let Err(e) = enter(&mut m, shape, formula) {
            return (vec![], format!("rejected:{}", e.chars().take(24).collect::<String>()));
        }
        m.evaluate();
        let kind = crate::cellval::cell_val(&m, 0, 1, 1).kind();
        (scan(&m), kind)
    })
}

fn disagreement(via: &str, case: Value, formula: &str, bads: &[Bad]) -> Vec<Disagreement> {
    let mut roles: BTreeSet<&str> = BTreeSet::new();
    let mut out = vec![];
    for b in bads {
        if roles.insert(b.role.as_str()) {
            out.push(Disagreement {
                sig: format!("non-finite number stored role={} via={}", b.role, via),
                case: case.clone(),
                detail: format!("after entering `{}` and evaluating, {} ({}) {}", formula, b.at, b.role, b.what),
            });
        }
    }
    out
}

// ---------------- worker subprocess ----------------

/// `icverif c08-worker <max_arity> <out> <prog> <block_lo> <block_hi> <resume_tuple>`
pub fn worker_main(args: &[String]) -> i32 {
    if args.len() < 6 {
        eprintln!("c08-worker: bad arguments");
        return 2;
    }
    let max_arity: usize = args[0].parse().unwrap_or(2);
    let lo: usize = args[3].parse().unwrap_or(0);
    let hi: usize = args[4].parse().unwrap_or(0);
    let resume: usize = args[5].parse().unwrap_or(0);
    // (position, value index) pairs assumed to exhaust resources in the resume block (found by the parent)
    let poison: Vec<(usize, usize)> = args
        .get(6)
        .map(|s| s.split(';').filter_map(|x| x.split_once(':').and_then(|(a, b)| Some((a.parse().ok()?, b.parse().ok()?)))).collect())
        .unwrap_or_default();
    let limit: u64 = std::env::var("VERIF_C08_AS_MB").ok().and_then(|s| s.parse().ok()).unwrap_or(4096) << 20;
    unsafe {
        let rl = libc::rlimit { rlim_cur: limit, rlim_max: limit };
        libc::setrlimit(libc::RLIMIT_AS, &rl);
    }
    let mut out = match std::fs::OpenOptions::new().create(true).append(true).open(&args[1]) {
        Ok(f) => f,
        Err(_) => return 2,
    };
    let prog = match std::fs::OpenOptions::new().create(true).write(true).open(&args[2]) {
        Ok(f) => f,
        Err(_) => return 2,
    };
    let prods = producers();
    let r = crate::env::fresh(|| {
        for b in lo..hi {
            let p = &prods[b / SHAPES.len()];
            let shape = b % SHAPES.len();
            let name = p.name();
            let n = p.tuples(max_arity);
            let mut kinds: BTreeMap<String, u64> = BTreeMap::new();
            let mut panics = 0u64;
            let mut first_panic: Option<(String, String)> = None;
            let mut nonfinite = 0u64;
            let start = if b == lo { resume } else { 0 };
            let mut skipped = 0u64;
            for t in start..n {
                if b == lo && !poison.is_empty() {
                    let a = p.args_of(t);
                    if a.iter().enumerate().any(|(i, v)| poison.contains(&(i, *v))) {
                        skipped += 1;
                        continue;
                    }
                }
                let mut buf = [0u8; 24];
                buf[..8].copy_from_slice(&(b as u64).to_le_bytes());
                buf[8..16].copy_from_slice(&(t as u64).to_le_bytes());
                buf[16..].copy_from_slice(&1u64.to_le_bytes());
                let _ = prog.write_at(&buf, 0);
                let targs = p.args_of(t);
                let formula = p.formula(&targs);
                match run_formula(shape, &formula) {
                    Ok((bads, kind)) => {
                        *kinds.entry(kind).or_default() += 1;
                        if !bads.is_empty() {
                            nonfinite += 1;
                            let case = json!({"kind": "formula", "formula": formula, "shape": SHAPES[shape], "via": name});
                            for d in disagreement(&name, case, &formula, &bads) {
                                let _ = writeln!(out, "{}", json!({"k": "d", "sig": d.sig, "case": d.case, "detail": d.detail}));
                            }
                        }
                    }
                    Err(pn) => {
                        panics += 1;
                        if first_panic.is_none() {
                            first_panic = Some((formula.clone(), pn));
                        }
                    }
                }
            }
            let _ = writeln!(
                out,
                "{}",
                json!({"k": "block", "b": b, "name": name, "shape": SHAPES[shape], "from": start, "cases": n - start.min(n), "kinds": kinds,
                       "panics": panics, "first_panic": first_panic, "nonfinite": nonfinite, "skipped": skipped})
            );
        }
    });
    let mut buf = [0u8; 24];
    buf[..8].copy_from_slice(&u64::MAX.to_le_bytes());
    buf[16..].copy_from_slice(&1u64.to_le_bytes());
    let _ = prog.write_at(&buf, 0);
    match r {
        Ok(()) => 0,
        Err(_) => 3,
    }
}

struct Slot {
    child: std::process::Child,
    lo: usize,
    hi: usize,
    out: String,
    prog: String,
    last: Option<(u64, u64)>,
    since: Instant,
    cpu_at: u64,
}

/// CPU time (user + system) consumed so far by process `pid`, in milliseconds (Linux /proc; clock tick 100 Hz)
fn cpu_ms(pid: u32) -> Option<u64> {
    let t = std::fs::read_to_string(format!("/proc/{}/stat", pid)).ok()?;
    let rest = &t[t.rfind(')')? + 2..];
    let f: Vec<&str> = rest.split(' ').collect();
    let ut: u64 = f.get(11)?.parse().ok()?;
    let st: u64 = f.get(12)?.parse().ok()?;
    Some((ut + st) * 10)
}

fn read_prog(path: &str) -> Option<(u64, u64)> {
    let b = std::fs::read(path).ok()?;
    if b.len() < 24 || b[16] == 0 {
        return None; // the worker has not started its first case yet
    }
    Some((u64::from_le_bytes(b[..8].try_into().ok()?), u64::from_le_bytes(b[8..16].try_into().ok()?)))
}

struct SweepOut {
    ds: Vec<Disagreement>,
    cases: u64,
    kinds: BTreeMap<String, u64>,
    outcome_pairs: BTreeSet<String>,
    panics: u64,
    skipped: u64,
    panic_examples: Vec<Value>,
    exhausted: Vec<Value>,
    errors: Vec<String>,
}

fn sweep(max_arity: usize) -> SweepOut {
    let prods = producers();
    let n_blocks = prods.len() * SHAPES.len();
    let dir = format!("{}/target/c08-work-{}", crate::env::root(), std::process::id());
    let _ = std::fs::remove_dir_all(&dir);
    let _ = std::fs::create_dir_all(&dir);
    let exe = std::env::current_exe().expect("current_exe");
    let watchdog = Duration::from_millis(std::env::var("VERIF_C08_WATCHDOG_MS").ok().and_then(|s| s.parse().ok()).unwrap_or(if max_arity >= 3 { 1000 } else { 300 }));
    let per_chunk = 6; // two producers (three shapes each) per worker process
    let mut next_block = 0usize;
    let mut chunk_id = 0usize;
    let mut slots: Vec<Option<Slot>> = (0..crate::env::workers()).map(|_| None).collect();
    let mut res = SweepOut { ds: vec![], cases: 0, kinds: BTreeMap::new(), outcome_pairs: BTreeSet::new(), panics: 0, skipped: 0, panic_examples: vec![], exhausted: vec![], errors: vec![] };
    let mut out_files: Vec<String> = vec![];
    let spawn = |lo: usize, hi: usize, resume: usize, out: &str, prog: &str, poison: &str| -> std::io::Result<std::process::Child> {
        let _ = std::fs::write(prog, [0u8; 24]);
        std::process::Command::new(&exe)
            .arg("c08-worker")
            .arg(max_arity.to_string())
            .arg(out)
            .arg(prog)
            .arg(lo.to_string())
            .arg(hi.to_string())
            .arg(resume.to_string())
            .arg(poison)
            .stdin(std::process::Stdio::null())
            .stdout(std::process::Stdio::null())
            .stderr(std::process::Stdio::null())
            .spawn()
    };
    let mut respawns = 0usize;
    let mut poisoned: BTreeMap<usize, Vec<(usize, usize)>> = BTreeMap::new();
    loop {
        let mut busy = false;
        for slot in slots.iter_mut() {
            // reap / watchdog
            let mut restart: Option<(usize, usize, usize, String, String, String)> = None;
            let mut clear = false;
            if let Some(sl) = slot.as_mut() {
                busy = true;
                match sl.child.try_wait() {
                    Ok(Some(st)) => {
                        if st.success() {
                            clear = true;
                        } else {
                            let how = format!("worker died: {}", st);
                            match read_prog(&sl.prog) {
                                Some((b, t)) if b != u64::MAX => restart = Some((b as usize, t as usize, sl.hi, sl.out.clone(), sl.prog.clone(), how)),
                                _ => {
                                    res.errors.push(format!("worker for blocks {}..{} failed without progress record: {}", sl.lo, sl.hi, st));
                                    clear = true;
                                }
                            }
                        }
                    }
                    Ok(None) => match read_prog(&sl.prog) {
                        None => {
                            if sl.since.elapsed() > Duration::from_secs(120) {
                                let _ = sl.child.kill();
                                let _ = sl.child.wait();
                                res.errors.push(format!("worker for blocks {}..{} did not start within 120 s", sl.lo, sl.hi));
                                clear = true;
                            }
                        }
                        Some(cur) => {
                            let cpu = cpu_ms(sl.child.id()).unwrap_or(0);
                            if Some(cur) != sl.last {
                                sl.last = Some(cur);
                                sl.since = Instant::now();
                                sl.cpu_at = cpu;
                            } else if cur.0 != u64::MAX
                                && (cpu.saturating_sub(sl.cpu_at) > watchdog.as_millis() as u64 || sl.since.elapsed() > watchdog * 20)
                            {
                                let _ = sl.child.kill();
                                let _ = sl.child.wait();
                                restart = Some((cur.0 as usize, cur.1 as usize, sl.hi, sl.out.clone(), sl.prog.clone(), format!("watchdog: one case used more than {} ms of CPU", watchdog.as_millis())));
                            }
                        }
                    },
                    Err(e) => {
                        res.errors.push(format!("try_wait: {}", e));
                        clear = true;
                    }
                }
            }
            if let Some((b, t, hi, out, prog, how)) = restart {
                let p = &prods[(b / SHAPES.len()).min(prods.len() - 1)];
                let formula = if t < p.tuples(max_arity) { p.formula(&p.args_of(t)) } else { String::new() };
                res.exhausted.push(json!({"producer": p.name(), "shape": SHAPES[b % SHAPES.len()], "formula": formula, "how": how}));
                if t < p.tuples(max_arity) {
                    let targs = p.args_of(t);
                    let pz = poisoned.entry(b).or_default();
                    let cand: Vec<(usize, usize)> = targs.iter().enumerate().filter(|(i, v)| HUGE.contains(v) && !pz.contains(&(*i, **v))).map(|(i, v)| (i, *v)).collect();
                    if cand.len() == 1 {
                        pz.push(cand[0]);
                    }
                }
                let ptxt = poisoned.get(&b).map(|v| v.iter().map(|(i, v)| format!("{}:{}", i, v)).collect::<Vec<_>>().join(";")).unwrap_or_default();
                respawns += 1;
                if respawns > 20000 {
                    res.errors.push("too many worker respawns".into());
                    *slot = None;
                } else {
                    match spawn(b, hi, t + 1, &out, &prog, &ptxt) {
                        Ok(child) => *slot = Some(Slot { child, lo: b, hi, out, prog, last: None, since: Instant::now(), cpu_at: 0 }),
                        Err(e) => {
                            res.errors.push(format!("respawn failed: {}", e));
                            *slot = None;
                        }
                    }
                }
            } else if clear {
                *slot = None;
            }
            if slot.is_none() && next_block < n_blocks {
                let lo = next_block;
                let hi = (lo + per_chunk).min(n_blocks);
                next_block = hi;
                let out = format!("{}/c{}.out", dir, chunk_id);
                let prog = format!("{}/c{}.prog", dir, chunk_id);
                chunk_id += 1;
                out_files.push(out.clone());
                match spawn(lo, hi, 0, &out, &prog, "") {
                    Ok(child) => {
                        *slot = Some(Slot { child, lo, hi, out, prog, last: None, since: Instant::now(), cpu_at: 0 });
                        busy = true;
                    }
                    Err(e) => res.errors.push(format!("spawn failed: {}", e)),
                }
            }
        }
        if !busy && next_block >= n_blocks {
            break;
        }
        std::thread::sleep(Duration::from_millis(5));
    }
    // collect
    let mut blocks_seen: BTreeMap<u64, u64> = BTreeMap::new();
    for f in &out_files {
        let txt = std::fs::read_to_string(f).unwrap_or_default();
        for line in txt.lines() {
            let v: Value = match serde_json::from_str(line) {
                Ok(v) => v,
                Err(_) => continue, // a line cut by a dying worker
            };
            match v["k"].as_str() {
                Some("d") => res.ds.push(Disagreement {
                    sig: v["sig"].as_str().unwrap_or("").to_string(),
                    case: v["case"].clone(),
                    detail: v["detail"].as_str().unwrap_or("").to_string(),
                }),
                Some("block") => {
                    res.cases += v["cases"].as_u64().unwrap_or(0);
                    *blocks_seen.entry(v["b"].as_u64().unwrap_or(0)).or_default() += 1;
                    res.panics += v["panics"].as_u64().unwrap_or(0);
                    res.skipped += v["skipped"].as_u64().unwrap_or(0);
                    if !v["first_panic"].is_null() && res.panic_examples.len() < 40 {
                        res.panic_examples.push(json!({"producer": v["name"], "shape": v["shape"], "formula": v["first_panic"][0], "panic": v["first_panic"][1]}));
                    }
                    if let Some(k) = v["kinds"].as_object() {
                        for (kind, n) in k {
                            *res.kinds.entry(kind.clone()).or_default() += n.as_u64().unwrap_or(0);
                            res.outcome_pairs.insert(format!("{}|{}|{}", v["name"], v["shape"], kind));
                        }
                    }
                }
                _ => {}
            }
        }
    }
    for b in 0..n_blocks as u64 {
        if !blocks_seen.contains_key(&b) {
            res.errors.push(format!("block {} ({} / {}) has no completion record", b, prods[b as usize / 3].name(), SHAPES[b as usize % 3]));
        }
    }
    let _ = std::fs::remove_dir_all(&dir);
    res
}

// ---------------- typed inputs ----------------

const TYPED_ALPHABET: [char; 9] = ['1', '9', 'e', 'E', '+', '-', '.', '%', '$'];
const TYPED_SPECIAL: [&str; 28] = [
    "inf", "-inf", "+inf", "Inf", "INF", "infinity", "-infinity", "Infinity", "NaN", "nan", "-nan", "NAN", "1e999", "-1e999", "1E999",
    "1e+999", "1.7976931348623157e308", "1.7976931348623159e308", "1.8e308", "-1.8e308", "2e308", "1e309", "1e308%", "$1e999",
    "1e999$", "1e999€", "1,000e999", "9999999999999999999e999",
];

fn typed_string(mut k: usize, len: usize) -> String {
    let mut s = String::new();
    for _ in 0..len {
        s.push(TYPED_ALPHABET[k % TYPED_ALPHABET.len()]);
        k /= TYPED_ALPHABET.len();
    }
    s
}

fn check_typed(m: &mut Model, text: &str) -> (Vec<Disagreement>, bool) {
    let case = json!({"kind": "typed", "text": text});
    // styles pile up when one model is reused: start the cell from scratch
    let r = guarded(|| {
        let _ = m.set_user_input(0, 1, 1, String::new());
        if m.set_user_input(0, 1, 1, text.to_string()).is_err() {
            return (vec![], false);
        }
        let is_num = matches!(m.workbook.worksheets[0].cell(1, 1), Some(Cell::NumberCell { .. }));
        (scan(m), is_num)
    });
    match r {
        Ok((bads, is_num)) => {
            let via = if text.starts_with('=') { "typed formula" } else { "typed input" };
            (disagreement(via, case, text, &bads), is_num)
        }
        Err(_) => (vec![], false), // crashes on typed text are C11's subject
    }
}

// ---------------- imported files ----------------

const IMPORT_SPELLINGS: [&str; 14] = [
    "1e999", "-1e999", "inf", "-inf", "+inf", "Infinity", "infinity", "NaN", "nan", "-NaN", "1E+400", "1e308", "1.7976931348623159e308", "1e-400",
];

fn import_template() -> Result<Vec<(String, Vec<u8>)>, String> {
    let mut m = Model::new_empty("m", "en", "UTC", "en")?;
    m.set_user_input(0, 1, 1, "11".to_string())?; // A1 number
    m.set_user_input(0, 1, 2, "=A1*2".to_string())?; // B1 formula with cached number 22
    m.set_user_input(0, 2, 1, "=SEQUENCE(2)*3".to_string())?; // A2 dynamic, spills 3 / 6
    m.evaluate();
    let bytes = crate::xlsxutil::export_bytes(&m)?;
    crate::xlsxutil::unpack(&bytes)
}

/// replaces the n-th `<v>old</v>` whose text equals `old` in sheet1.xml
fn patch_v(members: &[(String, Vec<u8>)], old: &str, new: &str) -> Option<Vec<u8>> {
    let mut ms = members.to_vec();
    let mut done = false;
    for (n, b) in ms.iter_mut() {
        if n == "xl/worksheets/sheet1.xml" {
            let s = String::from_utf8_lossy(b).to_string();
            let pat = format!("<v>{}</v>", old);
            if let Some(i) = s.find(&pat) {
                *b = format!("{}<v>{}</v>{}", &s[..i], new, &s[i + pat.len()..]).into_bytes();
                done = true;
            }
        }
    }
    if done {
        Some(crate::xlsxutil::pack(&ms))
    } else {
        None
    }
}

const IMPORT_TARGETS: [(&str, &str); 4] = [("number cell", "11"), ("cached formula value", "22"), ("cached dynamic-array anchor value", "3"), ("cached spill value", "6")];

fn check_import(target: usize, spelling: &str, members: &[(String, Vec<u8>)]) -> Result<Vec<Disagreement>, String> {
    let (tname, old) = IMPORT_TARGETS[target];
    let case = json!({"kind": "import", "target": target, "spelling": spelling});
    let bytes = patch_v(members, old, spelling).ok_or_else(|| format!("template has no <v>{}</v>", old))?;
    let r = guarded(|| -> Result<Vec<Disagreement>, String> {
        let mut ds = vec![];
        let m = match crate::xlsxutil::import_model(&bytes, "en") {
            Ok(m) => m,
            Err(_) => return Ok(ds), // a rejected file stores nothing
        };
        let bads = scan(&m);
        if let Some(b) = bads.first() {
            ds.push(Disagreement {
                sig: format!("non-finite number stored by import: <v> of {}", tname),
                case: case.clone(),
                detail: format!("a package whose {} is <v>{}</v> imports with {} ({}) {}", tname, spelling, b.at, b.role, b.what),
            });
        } else {
            let mut m = m;
            m.evaluate();
            let bads = scan(&m);
            if let Some(b) = bads.first() {
                ds.push(Disagreement {
                    sig: format!("non-finite number stored after import and evaluate: <v> of {}", tname),
                    case: case.clone(),
                    detail: format!("a package whose {} is <v>{}</v>, imported and evaluated: {} ({}) {}", tname, spelling, b.at, b.role, b.what),
                });
            }
        }
        Ok(ds)
    });
    match r {
        Ok(x) => x,
        Err(_) => Ok(vec![]), // import crashes are C25's subject
    }
}

// ---------------- run / replay ----------------

pub fn run(run: &mut Run) {
    let thorough = run.tier.thorough();
    let max_arity = if thorough { 3 } else { 2 };
    // (a)+(b) in subprocesses
    let sw = sweep(max_arity);
    run.add_all(sw.ds);
    for e in sw.errors {
        run.machinery_errors.push(e);
    }
    // (c) typed inputs
    let max_len = if thorough { 7 } else { 6 };
    let mut typed_total = 0u64;
    let mut counts = vec![];
    for l in 1..=max_len {
        counts.push(TYPED_ALPHABET.len().pow(l as u32));
    }
    let total: usize = counts.iter().sum();
    let chunk = 20000;
    let n_units = total.div_ceil(chunk) + 1;
    let res = crate::env::par_units(n_units, |u| {
        let mut ds = vec![];
        let mut nums = 0u64;
        let mut n = 0u64;
        let mut m = Model::new_empty("m", "en", "UTC", "en").expect("model");
        let mut one = |text: &str, ds: &mut Vec<Disagreement>| {
            let (d, is_num) = check_typed(&mut m, text);
            ds.extend(d);
            nums += is_num as u64;
            n += 1;
        };
        if u == n_units - 1 {
            for s in TYPED_SPECIAL {
                one(s, &mut ds);
                one(&format!("={}", s), &mut ds);
                one(&format!("=-{}", s), &mut ds);
                one(&format!("={{{}}}", s), &mut ds);
            }
        } else {
            for k in u * chunk..((u + 1) * chunk).min(total) {
                let mut kk = k;
                let mut len = 1;
                for c in &counts {
                    if kk < *c {
                        break;
                    }
                    kk -= c;
                    len += 1;
                }
                one(&typed_string(kk, len), &mut ds);
            }
        }
        (ds, n, nums)
    });
    let mut typed_numbers = 0u64;
    for r in res {
        match r {
            Ok((ds, n, nums)) => {
                run.add_all(ds);
                typed_total += n;
                typed_numbers += nums;
            }
            Err(e) => run.machinery_errors.push(format!("typed unit: {}", e)),
        }
    }
    // (d) imports
    let mut import_cases = 0u64;
    match import_template() {
        Ok(members) => {
            for t in 0..IMPORT_TARGETS.len() {
                for s in IMPORT_SPELLINGS {
                    import_cases += 1;
                    match check_import(t, s, &members) {
                        Ok(ds) => run.add_all(ds),
                        Err(e) => run.machinery_errors.push(format!("import template: {}", e)),
                    }
                }
            }
        }
        Err(e) => run.machinery_errors.push(format!("import template: {}", e)),
    }

    let n_funcs = Function::into_iter().count();
    run.evaluations = sw.cases + typed_total + import_cases;
    run.traces = run.evaluations;
    run.states = run.evaluations;
    run.transitions = sw.cases * 2 + typed_total + import_cases * 2;
    let numeric = sw.kinds.get("num").copied().unwrap_or(0);
    run.nontrivial = numeric + typed_numbers;
    run.distinct_outcomes = sw.outcome_pairs.len() as u64;
    run.rule = "a case is non-trivial when the computation reaches a numeric result (anchor value is a number) or the typed text is stored as a number".into();
    run.bound = json!({"functions": n_funcs, "binary_operators": BIN_OPS, "unary_operators": UN_OPS, "argument_alphabet": E,
        "range_of_extremes_Sheet2!A1:A3": DATA, "max_arity": max_arity, "shapes": SHAPES,
        "typed": {"alphabet": TYPED_ALPHABET.iter().collect::<String>(), "max_length": max_len, "special_spellings": TYPED_SPECIAL.len() * 4},
        "import": {"spellings": IMPORT_SPELLINGS, "targets": IMPORT_TARGETS.iter().map(|x| x.0).collect::<Vec<_>>()}});
    run.extra.insert("sweep_cases".into(), json!(sw.cases));
    run.extra.insert("sweep_result_kinds".into(), json!(sw.kinds));
    run.extra.insert("typed_cases".into(), json!(typed_total));
    run.extra.insert("typed_stored_as_number".into(), json!(typed_numbers));
    run.extra.insert("import_cases".into(), json!(import_cases));
    run.extra.insert("resource_exhausted_count".into(), json!(sw.exhausted.len()));
    run.extra.insert("skipped_assumed_exhausting".into(), json!(sw.skipped));
    run.extra.insert("resource_exhausted".into(), json!(sw.exhausted.iter().take(60).collect::<Vec<_>>()));
    let mut by: BTreeMap<String, u64> = BTreeMap::new();
    for x in &sw.exhausted {
        let how = if x["how"].as_str().unwrap_or("").starts_with("watchdog") { "watchdog" } else { "died" };
        *by.entry(format!("{} {}", x["producer"].as_str().unwrap_or(""), how)).or_default() += 1;
    }
    run.extra.insert("resource_exhausted_by_producer".into(), json!(by));
    run.extra.insert("panics_not_judged_here_count".into(), json!(sw.panics));
    run.extra.insert("panics_not_judged_here_examples".into(), json!(sw.panic_examples));
    run.sample(json!({"kind": "formula", "formula": "SUM(1E308,Sheet2!A1:A3)", "shape": "scalar"}));
    run.sample(json!({"kind": "formula", "formula": "{1E308,1}*170", "shape": "dyn", "via": "operator *"}));
    run.sample(json!({"kind": "typed", "text": "-1e999%"}));
    run.sample(json!({"kind": "import", "target": 1, "spelling": "NaN"}));
    run.exhaustive = true;
    run.assume("a case that exhausts memory (RLIMIT_AS 4 GiB), overflows the stack or runs longer than the watchdog is recorded as resource_exhausted and not judged here (C11 judges crashes)");
    run.assume("after a tuple with exactly one not-yet-poisoned huge argument (1E15, 1E308, -1E308, the array {1E308,1}, the range of extremes) exhausts resources, later tuples of the same function and shape with that value at that position are assumed to exhaust them too and are skipped (skipped_assumed_exhausting); all other tuples run");
    run.assume("a panic inside evaluation is counted (panics_not_judged_here) but not judged by this property");
    run.assume("each case runs in a fresh two-sheet model; the formula is entered in Sheet1!A1 (CSE: A1:B2; dynamic: `(f)+{0,0}`)");
    run.assume("formatted text is checked for the first 64 numeric cells of a workbook; stored values for all cells");
}

pub fn replay(case: &Value) -> Vec<Disagreement> {
    match case["kind"].as_str().unwrap_or("") {
        "formula" => {
            let formula = case["formula"].as_str().unwrap_or("");
            let shape = SHAPES.iter().position(|s| Some(*s) == case["shape"].as_str()).unwrap_or(0);
            let via = case["via"].as_str().map(|s| s.to_string()).unwrap_or_else(|| via_of(formula));
            match run_formula(shape, formula) {
                Ok((bads, _)) => disagreement(&via, case.clone(), formula, &bads),
                Err(_) => vec![],
            }
        }
        "typed" => {
            let mut m = Model::new_empty("m", "en", "UTC", "en").expect("model");
            check_typed(&mut m, case["text"].as_str().unwrap_or("")).0
        }
        "import" => match import_template() {
            Ok(members) => check_import(case["target"].as_u64().unwrap_or(0) as usize, case["spelling"].as_str().unwrap_or(""), &members).unwrap_or_default(),
            Err(_) => vec![],
        },
        _ => vec![],
    }
}

/// recovers the producer name of a swept formula (for the sig of a replay)
fn via_of(formula: &str) -> String {
    for p in producers() {
        let t = p.tuples(3);
        if let Producer::Func(_) = p {
            if formula.starts_with(&format!("{}(", p.name())) {
                return p.name();
            }
        } else {
            for k in 0..t {
                if p.formula(&p.args_of(k)) == formula {
                    return p.name();
                }
            }
        }
    }
    "formula".into()
}

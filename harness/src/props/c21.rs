//! C21 Date serial numbers and calendar dates correspond one-to-one (complete sweep of all serials).
//!
//! Space: every serial 1..=2_958_465 (quick: every 97th serial, the first and last day of every month of every
//! year 1899..=9999, the first/last 1000 serials) plus serials outside the range.
//! Oracle: a proleptic-Gregorian reference calendar written in the harness (fnum.rs, civil-from-days, no chrono),
//! epoch taken from the engine's own convention serial 1 = 1899-12-31 (no phantom 1900-02-29).

use crate::fnum::{civil_from_days, days_from_civil, days_in_month, weekday_mon0};
use crate::report::{Disagreement, Run};
use ironcalc_base::cell::CellValue;
use ironcalc_base::expressions::types::Area;
use ironcalc_base::formatter::dates::{date_to_serial_number, from_excel_date};
use ironcalc_base::formatter::format::format_number;
use ironcalc_base::formatter::lexer::is_likely_date_number_format;
use ironcalc_base::locale::get_locale;
use ironcalc_base::Model;
use serde_json::{json, Value};

pub const MIN_SERIAL: i64 = 1;
pub const MAX_SERIAL: i64 = 2_958_465;

/// days since 1970-01-01 of serial 0 (1899-12-30): serial 1 = 1899-12-31
fn base_days() -> i64 {
    days_from_civil(1899, 12, 30)
}

pub fn ref_date(serial: i64) -> (i64, i64, i64) {
    civil_from_days(base_days() + serial)
}

fn iso(y: i64, m: i64, d: i64) -> String {
    format!("{:04}-{:02}-{:02}", y, m, d)
}

struct Ctx {
    model: Model<'static>,
}

const FORMULAS: [(&str, &str); 9] = [
    ("YEAR", "=YEAR(A1)"),
    ("MONTH", "=MONTH(A1)"),
    ("DAY", "=DAY(A1)"),
    ("WEEKDAY(,default)", "=WEEKDAY(A1)"),
    ("WEEKDAY(,1)", "=WEEKDAY(A1,1)"),
    ("WEEKDAY(,2)", "=WEEKDAY(A1,2)"),
    ("WEEKDAY(,3)", "=WEEKDAY(A1,3)"),
    ("DATE(y,m,d)", "=DATE(A2,B2,C2)"),
    ("DATE(YEAR,MONTH,DAY)", "=DATE(YEAR(A1),MONTH(A1),DAY(A1))"),
];

impl Ctx {
    fn new() -> Ctx {
        let mut model = Model::new_empty("c21", "en", "UTC", "en").expect("model");
        for (i, (_, f)) in FORMULAS.iter().enumerate() {
            model
                .set_user_input(0, 5, 1 + i as i32, f.to_string())
                .expect("formula");
        }
        Ctx { model }
    }
}

fn cell_text(v: &Result<CellValue, String>) -> String {
    match v {
        Ok(CellValue::Number(f)) => format!("{}", f),
        Ok(CellValue::String(s)) => format!("\"{}\"", s),
        Ok(CellValue::Boolean(b)) => format!("{}", b),
        Ok(CellValue::None) => "<empty>".into(),
        Err(e) => format!("Err({})", e),
    }
}

fn class_of(serial: i64) -> &'static str {
    if !(MIN_SERIAL..=MAX_SERIAL).contains(&serial) {
        return "outside";
    }
    let (y, m, d) = ref_date(serial);
    if m == 2 && d == 29 {
        "leap-day"
    } else if d == 1 || d == days_in_month(y, m) {
        "month-boundary"
    } else {
        "inner"
    }
}

fn check_inside(ctx: &mut Ctx, n: i64, case: &Value) -> (Vec<Disagreement>, bool) {
    let mut out = vec![];
    let (y, m, d) = ref_date(n);
    let want_iso = iso(y, m, d);
    let cls = class_of(n);
    let mut mk = |what: &str, shape: &str, detail: String| {
        out.push(Disagreement {
            sig: format!("{} {} class={}", what, shape, cls),
            case: case.clone(),
            detail: format!("serial {} is {} by the reference calendar; {}", n, want_iso, detail),
        })
    };
    let mut engine_date_ok = false;
    // 1. from_excel_date
    match from_excel_date(n) {
        Ok(date) => {
            let got = format!("{}", date);
            if got != want_iso {
                mk("from_excel_date", "wrong-date", format!("from_excel_date gives {}", got));
            } else {
                engine_date_ok = true;
            }
        }
        Err(e) => mk("from_excel_date", "rejected", format!("from_excel_date fails: {}", e)),
    }
    // 2. date_to_serial_number
    match date_to_serial_number(d as u32, m as u32, y as i32) {
        Ok(s) => {
            if s as i64 != n {
                mk(
                    "date_to_serial_number",
                    "wrong-serial",
                    format!("date_to_serial_number({},{},{}) gives {}", d, m, y, s),
                );
            }
        }
        Err(e) => mk(
            "date_to_serial_number",
            "rejected",
            format!("date_to_serial_number({},{},{}) fails: {}", d, m, y, e),
        ),
    }
    // 3. functions through the model
    let md = &mut ctx.model;
    let _ = md.update_cell_with_number(0, 1, 1, n as f64);
    let _ = md.update_cell_with_number(0, 2, 1, y as f64);
    let _ = md.update_cell_with_number(0, 2, 2, m as f64);
    let _ = md.update_cell_with_number(0, 2, 3, d as f64);
    md.evaluate();
    let wd = weekday_mon0(base_days() + n);
    let sunday1 = (wd + 1) % 7 + 1;
    let expect: [i64; 9] = [y, m, d, sunday1, sunday1, wd + 1, wd, n, n];
    for (i, (name, _)) in FORMULAS.iter().enumerate() {
        let v = md.get_cell_value_by_index(0, 5, 1 + i as i32);
        let ok = matches!(&v, Ok(CellValue::Number(f)) if *f == expect[i] as f64);
        if !ok {
            let shape = match &v {
                Ok(CellValue::Number(_)) => "wrong-value",
                Ok(CellValue::String(s)) if s.starts_with('#') => "error",
                _ => "wrong-kind",
            };
            mk(
                name,
                shape,
                format!("{} gives {} (expected {})", name, cell_text(&v), expect[i]),
            );
        }
    }
    // 4. date number formats
    let locale = get_locale("en").expect("locale");
    let f = format_number(n as f64, "yyyy-mm-dd", locale);
    if f.error.is_some() || f.text != want_iso {
        mk(
            "format yyyy-mm-dd",
            if f.error.is_some() { "error" } else { "wrong-text" },
            format!("format_number(n,\"yyyy-mm-dd\") gives `{}` error={:?}", f.text, f.error),
        );
    }
    let f = format_number(n as f64, "d/m/yy", locale);
    let want = format!("{}/{}/{:02}", d, m, y % 100);
    if f.error.is_some() || f.text != want {
        mk(
            "format d/m/yy",
            if f.error.is_some() { "error" } else { "wrong-text" },
            format!("format_number(n,\"d/m/yy\") gives `{}` error={:?} (expected `{}`)", f.text, f.error, want),
        );
    }
    let f = format_number(n as f64, "dddd", locale);
    // day_names of the locale start on Sunday
    let want = locale.dates.day_names[((wd + 1) % 7) as usize].clone();
    if f.error.is_some() || f.text != want {
        mk(
            "format dddd",
            if f.error.is_some() { "error" } else { "wrong-text" },
            format!("format_number(n,\"dddd\") gives `{}` error={:?} (expected `{}`)", f.text, f.error, want),
        );
    }
    // 5. typing the ISO text
    let _ = md.range_clear_all(&Area { sheet: 0, row: 3, column: 1, width: 1, height: 1 });
    match md.set_user_input(0, 3, 1, want_iso.clone()) {
        Ok(()) => {
            let v = md.get_cell_value_by_index(0, 3, 1);
            let is_num_cell = matches!(crate::fnum::cell_kind(md, 0, 3, 1), crate::fnum::Kind::Number(_));
            match &v {
                Ok(CellValue::Number(x)) if is_num_cell => {
                    if *x != n as f64 {
                        mk("typed-iso", "wrong-serial", format!("typing `{}` stores {}", want_iso, x));
                    }
                    let fmt = md
                        .get_style_for_cell(0, 3, 1)
                        .map(|s| s.num_fmt)
                        .unwrap_or_default();
                    if !is_likely_date_number_format(&fmt) {
                        mk(
                            "typed-iso",
                            "no-date-format",
                            format!("typing `{}` leaves number format `{}`", want_iso, fmt),
                        );
                    } else if *x == n as f64 {
                        let shown = md.get_formatted_cell_value(0, 3, 1).unwrap_or_default();
                        if shown != want_iso {
                            mk(
                                "typed-iso",
                                "displays-differently",
                                format!("typing `{}` displays `{}` (format `{}`)", want_iso, shown, fmt),
                            );
                        }
                    }
                }
                other => mk(
                    "typed-iso",
                    "not-a-number",
                    format!("typing `{}` stores {}", want_iso, cell_text(other)),
                ),
            }
        }
        Err(e) => mk("typed-iso", "input-rejected", format!("set_user_input(`{}`) fails: {}", want_iso, e)),
    }
    (out, engine_date_ok)
}

fn check_outside(ctx: &mut Ctx, n: i64, case: &Value) -> Vec<Disagreement> {
    let mut out = vec![];
    let side = if n < MIN_SERIAL { "below" } else { "above" };
    let mut mk = |what: &str, detail: String| {
        out.push(Disagreement {
            sig: format!("{} accepts-outside side={}", what, side),
            case: case.clone(),
            detail: format!("serial {} is outside {}..={}; {}", n, MIN_SERIAL, MAX_SERIAL, detail),
        })
    };
    if let Ok(date) = from_excel_date(n) {
        mk("from_excel_date", format!("from_excel_date gives {}", date));
    }
    let md = &mut ctx.model;
    let _ = md.update_cell_with_number(0, 1, 1, n as f64);
    let (y, m, d) = ref_date(n);
    let _ = md.update_cell_with_number(0, 2, 1, y as f64);
    let _ = md.update_cell_with_number(0, 2, 2, m as f64);
    let _ = md.update_cell_with_number(0, 2, 3, d as f64);
    md.evaluate();
    // every function must answer with an error value (the last one, DATE(YEAR..), is an error by propagation)
    for (i, (name, _)) in FORMULAS.iter().enumerate() {
        let v = md.get_cell_value_by_index(0, 5, 1 + i as i32);
        let is_err = matches!(md.get_cell_type(0, 5, 1 + i as i32), Ok(ironcalc_base::types::CellType::ErrorValue));
        if !is_err {
            mk(name, format!("{} gives {} instead of an error", name, cell_text(&v)));
        }
    }
    let locale = get_locale("en").expect("locale");
    let f = format_number(n as f64, "yyyy-mm-dd", locale);
    if f.error.is_none() {
        mk("format yyyy-mm-dd", format!("format_number gives `{}` without error", f.text));
    }
    // typing the ISO text of a date outside the range must not produce a date
    if (0..=9999).contains(&y) {
        let text = iso(y, m, d);
        let _ = md.range_clear_all(&Area { sheet: 0, row: 3, column: 1, width: 1, height: 1 });
        if md.set_user_input(0, 3, 1, text.clone()).is_ok() {
            if let crate::fnum::Kind::Number(x) = crate::fnum::cell_kind(md, 0, 3, 1) {
                let fmt = md.get_style_for_cell(0, 3, 1).map(|s| s.num_fmt).unwrap_or_default();
                let what = if (MIN_SERIAL as f64..=MAX_SERIAL as f64).contains(&x) {
                    "typed-iso stored=another-date"
                } else {
                    "typed-iso stored=out-of-range-serial"
                };
                mk(
                    what,
                    format!("typing `{}` stores the number {} with format `{}`", text, x, fmt),
                );
            }
        }
    }
    out
}

fn check_serial(ctx: &mut Ctx, n: i64) -> (Vec<Disagreement>, bool) {
    let case = json!({"serial": n});
    if (MIN_SERIAL..=MAX_SERIAL).contains(&n) {
        check_inside(ctx, n, &case)
    } else {
        (check_outside(ctx, n, &case), false)
    }
}

/// Invalid calendar dates must be rejected by date_to_serial_number and by typing.
fn check_invalid_date(ctx: &mut Ctx, y: i64, m: i64, d: i64) -> Vec<Disagreement> {
    let case = json!({"invalid": [y, m, d]});
    let mut out = vec![];
    if let Ok(s) = date_to_serial_number(d as u32, m as u32, y as i32) {
        out.push(Disagreement {
            sig: "date_to_serial_number accepts-invalid-date".into(),
            case: case.clone(),
            detail: format!("{}-{}-{} is not a calendar date but maps to serial {}", y, m, d, s),
        });
    }
    let text = iso(y, m, d);
    let md = &mut ctx.model;
    let _ = md.range_clear_all(&Area { sheet: 0, row: 3, column: 1, width: 1, height: 1 });
    if md.set_user_input(0, 3, 1, text.clone()).is_ok() {
        if let crate::fnum::Kind::Number(x) = crate::fnum::cell_kind(md, 0, 3, 1) {
            out.push(Disagreement {
                sig: "typed-iso accepts-invalid-date".into(),
                case,
                detail: format!("typing `{}` (not a calendar date) stores the number {}", text, x),
            });
        }
    }
    out
}

fn outside_serials() -> Vec<i64> {
    vec![
        0,
        -1,
        -2,
        -366,
        -693_593,
        -693_594,
        MAX_SERIAL + 1,
        MAX_SERIAL + 2,
        MAX_SERIAL + 366,
        10_000_000,
    ]
}

fn invalid_dates() -> Vec<(i64, i64, i64)> {
    let mut v = vec![];
    for y in [1900, 1999, 2000, 2023, 2024, 2100, 2400, 9999] {
        for m in 1..=12 {
            v.push((y, m, days_in_month(y, m) + 1));
            v.push((y, m, 0));
        }
        v.push((y, 0, 1));
        v.push((y, 13, 1));
    }
    v
}

fn serial_list(thorough: bool) -> Vec<i64> {
    if thorough {
        return (MIN_SERIAL..=MAX_SERIAL).collect();
    }
    let mut v: Vec<i64> = (MIN_SERIAL..=MAX_SERIAL).step_by(97).collect();
    v.extend(MIN_SERIAL..MIN_SERIAL + 1000);
    v.extend(MAX_SERIAL - 999..=MAX_SERIAL);
    let base = base_days();
    for y in 1899..=9999i64 {
        for m in 1..=12i64 {
            for d in [1, 2, days_in_month(y, m) - 1, days_in_month(y, m)] {
                let s = days_from_civil(y, m, d) - base;
                if (MIN_SERIAL..=MAX_SERIAL).contains(&s) {
                    v.push(s);
                }
            }
        }
    }
    v.sort();
    v.dedup();
    v
}

/// The reference calendar is checked against an independent day-by-day walk before it is used as an oracle.
fn self_check_reference() -> Result<(), String> {
    let (mut y, mut m, mut d) = (1899i64, 12i64, 30i64);
    let base = base_days();
    for n in 0..=MAX_SERIAL + 400 {
        if civil_from_days(base + n) != (y, m, d) || days_from_civil(y, m, d) != base + n {
            return Err(format!("reference calendar disagrees with the day walk at offset {}", n));
        }
        d += 1;
        if d > days_in_month(y, m) {
            d = 1;
            m += 1;
            if m > 12 {
                m = 1;
                y += 1;
            }
        }
    }
    // 1970-01-01 was a Thursday, 2000-01-01 a Saturday, 2024-02-29 a Thursday
    if weekday_mon0(0) != 3 || weekday_mon0(days_from_civil(2000, 1, 1)) != 5 || weekday_mon0(days_from_civil(2024, 2, 29)) != 3 {
        return Err("reference weekday is wrong".into());
    }
    if ref_date(MIN_SERIAL) != (1899, 12, 31) || ref_date(MAX_SERIAL) != (9999, 12, 31) {
        return Err("reference epoch does not give 1899-12-31 .. 9999-12-31".into());
    }
    Ok(())
}

pub fn run(run: &mut Run) {
    if let Err(e) = self_check_reference() {
        run.machinery_errors.push(e);
        return;
    }
    let thorough = run.tier.thorough();
    let serials = serial_list(thorough);
    let outside = outside_serials();
    let invalid = invalid_dates();
    run.rule = "every serial is one case with 17 comparisons (2 conversion functions, 9 formulas through a model, 3 date formats, typing the ISO text: value, format, display); non-trivial = serials on the first/last day of a month or on a leap day, where the calendar arithmetic branches".into();
    run.bound = json!({
        "serials": if thorough { json!("all 1..=2958465") } else { json!("every 97th serial, days 1,2,last-1,last of every month 1899-12..9999-12, first and last 1000 serials") },
        "serial_count": serials.len(),
        "outside_serials": outside,
        "invalid_dates": invalid.len(),
        "entry_points": ["from_excel_date", "date_to_serial_number", "YEAR", "MONTH", "DAY", "WEEKDAY(,default|1|2|3)", "DATE", "format_number yyyy-mm-dd | d/m/yy | dddd", "set_user_input(ISO text)"],
    });
    let chunk = 4096usize;
    let n_units = serials.len().div_ceil(chunk);
    let res = crate::env::par_units(n_units, |u| {
        let mut ctx = Ctx::new();
        let mut ds = vec![];
        let mut ok_dates = 0u64;
        let mut nontrivial = 0u64;
        for &n in serials.iter().skip(u * chunk).take(chunk) {
            match crate::env::guarded(|| check_serial(&mut ctx, n)) {
                Ok((d, ok)) => {
                    ds.extend(d);
                    if ok {
                        ok_dates += 1;
                    }
                }
                Err(p) => {
                    ds.push(Disagreement {
                        sig: format!("panic at={}", p.rsplit(" @ ").next().unwrap_or("?")),
                        case: json!({"serial": n}),
                        detail: p,
                    });
                    ctx = Ctx::new();
                }
            }
            if class_of(n) != "inner" {
                nontrivial += 1;
            }
        }
        (ds, ok_dates, nontrivial)
    });
    let mut ok_total = 0;
    for r in res {
        match r {
            Ok((ds, ok, nt)) => {
                run.add_all(ds);
                ok_total += ok;
                run.nontrivial += nt;
            }
            Err(e) => run.machinery_errors.push(format!("unit panicked: {}", e)),
        }
    }
    // outside the range and invalid dates (one unit)
    let extra = crate::env::fresh(|| {
        let mut ctx = Ctx::new();
        let mut ds = vec![];
        for &n in &outside {
            match crate::env::guarded(|| check_serial(&mut ctx, n)) {
                Ok((d, _)) => ds.extend(d),
                Err(p) => {
                    ds.push(Disagreement {
                        sig: format!("panic at={}", p.rsplit(" @ ").next().unwrap_or("?")),
                        case: json!({"serial": n}),
                        detail: p,
                    });
                    ctx = Ctx::new();
                }
            }
        }
        for &(y, m, d) in &invalid {
            ds.extend(check_invalid_date(&mut ctx, y, m, d));
        }
        ds
    });
    match extra {
        Ok(ds) => run.add_all(ds),
        Err(e) => run.machinery_errors.push(format!("outside unit panicked: {}", e)),
    }
    let total = (serials.len() + outside.len() + invalid.len()) as u64;
    run.evaluations = total;
    run.states = total;
    run.transitions = serials.len() as u64 * 11 + (outside.len() + invalid.len()) as u64 * 6;
    run.traces = total;
    run.distinct_outcomes = ok_total;
    run.sample(json!({"serial": serials[0], "reference": iso(ref_date(serials[0]).0, ref_date(serials[0]).1, ref_date(serials[0]).2)}));
    let mid = serials[serials.len() / 2];
    run.sample(json!({"serial": mid, "reference": iso(ref_date(mid).0, ref_date(mid).1, ref_date(mid).2)}));
    let last = serials[serials.len() - 1];
    run.sample(json!({"serial": last, "reference": iso(ref_date(last).0, ref_date(last).1, ref_date(last).2)}));
    run.exhaustive = true;
    run.assume("epoch convention taken from the engine and the property text: serial 1 = 1899-12-31, serial 2 = 1900-01-01, no phantom 1900-02-29 (all of the engine's own entry points agree on it)");
    run.assume("the reference calendar (civil-from-days) is itself checked against a day-by-day walk over the whole range at start-up");
    run.assume("formulas are evaluated in one en/en model per unit of 4096 serials; only integer serials are swept (fractions of a day are not part of the statement)");
    run.assume("distinct_outcomes counts serials whose from_excel_date equals the (injective) reference date");
}

pub fn replay(case: &Value) -> Vec<Disagreement> {
    let mut ctx = Ctx::new();
    if let Some(n) = case["serial"].as_i64() {
        return check_serial(&mut ctx, n).0;
    }
    if let Some(a) = case["invalid"].as_array() {
        let g = |i: usize| a.get(i).and_then(|v| v.as_i64()).unwrap_or(0);
        return check_invalid_date(&mut ctx, g(0), g(1), g(2));
    }
    vec![]
}

//! C06 Computed values match reference spreadsheet semantics (core language).
//!
//! Space: every formula of nesting depth 1 over the leaf alphabet L (literals of every kind, references to a data block
//! D1:D7 holding one cell of every kind, ranges over it, an array literal) for 2 unary and 12 binary operators and the 20
//! core functions (ternary forms over a reduced alphabet), and every formula of depth 2 whose root has one depth-1 child
//! over a reduced alphabet. Oracle: the independent evaluator below, written from the spreadsheet rules (coercion in
//! arithmetic / concatenation / comparison position, blank as 0 / "" / FALSE, number < text < boolean, case-insensitive
//! text comparison, left operand's error wins, aggregates ignore text and booleans in references but coerce direct
//! arguments, element-wise broadcasting). Where the rules are not pinned the evaluator answers "unspecified" and nothing is
//! compared. Values compare by kind; numbers with relative tolerance 1e-12; arrays element-wise against the spilled block.

use crate::cellval::{cell_shape, cell_val, Val};
use crate::env::guarded;
use crate::report::{Disagreement, Run};
use ironcalc_base::Model;
use serde_json::{json, Value};
use std::collections::BTreeSet;

// ---------------------------------------------------------------- values

#[derive(Clone, Debug, PartialEq)]
pub enum V {
    Num(f64),
    Str(String),
    Bool(bool),
    /// a specific error, by its spelling
    Err(&'static str),
    /// some error, kind not pinned by the rules (e.g. overflow, domain error)
    ErrAny,
    Blank,
}

impl V {
    fn is_nonfinite(&self) -> bool {
        matches!(self, V::Num(n) if !n.is_finite())
    }
    fn is_err(&self) -> bool {
        matches!(self, V::Err(_) | V::ErrAny)
    }
    fn kind(&self) -> String {
        match self {
            V::Num(_) => "num".into(),
            V::Str(_) => "str".into(),
            V::Bool(_) => "bool".into(),
            V::Err(e) => (*e).into(),
            V::ErrAny => "error".into(),
            V::Blank => "blank".into(),
        }
    }
    fn show(&self) -> String {
        match self {
            V::Num(n) => format!("{:?}", n),
            V::Str(s) => format!("{:?}", s),
            V::Bool(b) => (if *b { "TRUE" } else { "FALSE" }).into(),
            V::Err(e) => (*e).into(),
            V::ErrAny => "<some error>".into(),
            V::Blank => "<blank>".into(),
        }
    }
}

/// what an expression denotes before it is used
#[derive(Clone, Debug)]
enum O {
    /// a computed or literal scalar
    S(V),
    /// a reference to one cell
    Cell(V),
    /// a reference to several cells
    Range(Vec<Vec<V>>),
    /// an array literal or a computed array
    Arr(Vec<Vec<V>>),
    /// a scalar that came out of IF / IFERROR whose chosen branch was a cell reference: whether the consumer treats it as
    /// a reference or as a value is not pinned
    Amb(V),
}

type Unspec = String;
type R<T> = Result<T, Unspec>;

fn unspec<T>(why: &str) -> R<T> {
    Err(why.to_string())
}

// ---------------------------------------------------------------- terms

#[derive(Clone, Debug)]
pub enum T {
    Leaf(usize),
    Un(&'static str, Box<T>),
    Bin(&'static str, Box<T>, Box<T>),
    Fn(&'static str, Vec<T>),
}

/// the data block: D1 number, D2 numeric text, D3 boolean, D4 blank, D5 error, D6 text, D7 zero
const DATA_INPUT: [&str; 7] = ["2", "'3", "TRUE", "", "#DIV/0!", "abc", "0"];
fn data(row: usize) -> V {
    match row {
        1 => V::Num(2.0),
        2 => V::Str("3".into()),
        3 => V::Bool(true),
        4 => V::Blank,
        5 => V::Err("#DIV/0!"),
        6 => V::Str("abc".into()),
        _ => V::Num(0.0),
    }
}

/// leaf alphabet L (text, class for the sig)
pub const LEAVES: [(&str, &str); 22] = [
    ("0", "num"),
    ("1", "num"),
    ("-1.5", "num"),
    ("\"\"", "str:empty"),
    ("\"a\"", "str:text"),
    ("\"1\"", "str:numeric"),
    ("\"TRUE\"", "str:bool"),
    ("TRUE", "bool"),
    ("FALSE", "bool"),
    ("#N/A", "err"),
    ("#DIV/0!", "err"),
    ("D1", "ref:num"),
    ("D2", "ref:numeric-text"),
    ("D3", "ref:bool"),
    ("D4", "ref:blank"),
    ("D5", "ref:err"),
    ("D6", "ref:text"),
    ("D7", "ref:zero"),
    ("D1:D3", "range"),
    ("D3:D4", "range"),
    ("D1:D7", "range:with-error"),
    ("{1,2}", "array"),
];
/// reduced alphabets (indices into LEAVES)
const L_THOROUGH: [usize; 9] = [1, 2, 5, 4, 7, 9, 14, 12, 18];
const L_QUICK: [usize; 6] = [1, 4, 7, 9, 14, 18];

fn leaf_operand(i: usize) -> O {
    match i {
        0 => O::S(V::Num(0.0)),
        1 => O::S(V::Num(1.0)),
        2 => O::S(V::Num(-1.5)),
        3 => O::S(V::Str("".into())),
        4 => O::S(V::Str("a".into())),
        5 => O::S(V::Str("1".into())),
        6 => O::S(V::Str("TRUE".into())),
        7 => O::S(V::Bool(true)),
        8 => O::S(V::Bool(false)),
        9 => O::S(V::Err("#N/A")),
        10 => O::S(V::Err("#DIV/0!")),
        11..=17 => O::Cell(data(i - 10)),
        18 => O::Range((1..=3).map(|r| vec![data(r)]).collect()),
        19 => O::Range((3..=4).map(|r| vec![data(r)]).collect()),
        20 => O::Range((1..=7).map(|r| vec![data(r)]).collect()),
        _ => O::Arr(vec![vec![V::Num(1.0), V::Num(2.0)]]),
    }
}

pub const UN_OPS: [&str; 2] = ["-", "%"];
pub const BIN_OPS: [&str; 12] = ["+", "-", "*", "/", "^", "&", "=", "<>", "<", ">", "<=", ">="];
/// (name, allowed arities)
pub const FUNCS: [(&str, &[usize]); 18] = [
    ("IF", &[2, 3]),
    ("AND", &[1, 2, 3]),
    ("OR", &[1, 2, 3]),
    ("NOT", &[1]),
    ("SUM", &[1, 2, 3]),
    ("MIN", &[1, 2]),
    ("MAX", &[1, 2]),
    ("COUNT", &[1, 2]),
    ("COUNTA", &[1, 2]),
    ("AVERAGE", &[1, 2]),
    ("ABS", &[1]),
    ("ROUND", &[2]),
    ("LEN", &[1]),
    ("CONCAT", &[1, 2]),
    ("ISNUMBER", &[1]),
    ("ISTEXT", &[1]),
    ("ISBLANK", &[1]),
    ("IFERROR", &[2]),
];

impl T {
    pub fn text(&self) -> String {
        match self {
            T::Leaf(i) => LEAVES[*i].0.to_string(),
            T::Un("%", x) => format!("{}%", x.paren()),
            T::Un(op, x) => format!("{}{}", op, x.paren()),
            T::Bin(op, l, r) => format!("{}{}{}", l.paren(), op, r.paren()),
            T::Fn(name, args) => format!("{}({})", name, args.iter().map(|a| a.text()).collect::<Vec<_>>().join(",")),
        }
    }
    fn paren(&self) -> String {
        match self {
            T::Leaf(i) if !LEAVES[*i].0.starts_with('-') => self.text(),
            T::Fn(..) => self.text(),
            _ => format!("({})", self.text()),
        }
    }
    fn to_json(&self) -> Value {
        match self {
            T::Leaf(i) => json!(i),
            T::Un(op, x) => json!({"un": op, "x": x.to_json()}),
            T::Bin(op, l, r) => json!({"bin": op, "l": l.to_json(), "r": r.to_json()}),
            T::Fn(n, a) => json!({"fn": n, "args": a.iter().map(|x| x.to_json()).collect::<Vec<_>>()}),
        }
    }
    fn from_json(v: &Value) -> Option<T> {
        if let Some(i) = v.as_u64() {
            return if (i as usize) < LEAVES.len() { Some(T::Leaf(i as usize)) } else { None };
        }
        if let Some(op) = v["un"].as_str() {
            let op = UN_OPS.iter().find(|o| **o == op)?;
            return Some(T::Un(op, Box::new(T::from_json(&v["x"])?)));
        }
        if let Some(op) = v["bin"].as_str() {
            let op = BIN_OPS.iter().find(|o| **o == op)?;
            return Some(T::Bin(op, Box::new(T::from_json(&v["l"])?), Box::new(T::from_json(&v["r"])?)));
        }
        if let Some(n) = v["fn"].as_str() {
            let f = FUNCS.iter().find(|f| f.0 == n)?;
            let args: Option<Vec<T>> = v["args"].as_array()?.iter().map(T::from_json).collect();
            return Some(T::Fn(f.0, args?));
        }
        None
    }
    fn children(&self) -> Vec<&T> {
        match self {
            T::Leaf(_) => vec![],
            T::Un(_, x) => vec![x],
            T::Bin(_, l, r) => vec![l, r],
            T::Fn(_, a) => a.iter().collect(),
        }
    }
    fn head(&self) -> String {
        match self {
            T::Leaf(i) => format!("leaf {}", LEAVES[*i].1),
            T::Un(op, _) => format!("unary {}", op),
            T::Bin(op, _, _) => format!("operator {}", op),
            T::Fn(n, _) => n.to_string(),
        }
    }
}

// ---------------------------------------------------------------- known deviations of the engine, as switches
//
// The reference evaluator below implements the spreadsheet rules. Each switch makes it imitate ONE specific way in which
// the engine is known to deviate; a disagreement that disappears when a minimal set of switches is on is reported under the
// names of those switches (a narrow, semantic signature), anything else under a generic signature.

const D_COLLAPSE: u32 = 1; // array (op) failing scalar -> one scalar error instead of an array of errors
const D_SHORT: u32 = 2; // AND / OR stop at the first deciding value: later errors are not propagated
const D_LOGTEXT: u32 = 4; // AND / OR ignore direct text that is not TRUE/FALSE instead of #VALUE!
const D_MINMAX: u32 = 8; // MIN / MAX ignore direct booleans and text (no coercion, no #VALUE!)
const D_CONCATARR: u32 = 16; // CONCAT of an array value is #N/IMPL!
const D_COUNTARR: u32 = 32; // COUNT ignores array values
const D_UNARR: u32 = 64; // unary minus / percent of a range or array is #N/IMPL!
const D_ARRINF: u32 = 128; // a non-finite arithmetic result stays a number; only a scalar cell result becomes #NUM! (see C08)
const D_TEXT17: u32 = 256; // number -> text uses the shortest round-trip digits instead of 15 significant digits
const D_NEGZERO: u32 = 512; // negative zero becomes the text "-0"
const D_CMPERR: u32 = 1024; // element-wise comparison orders error elements instead of propagating them
pub const DEVIATIONS: [(u32, &str); 11] = [
    (D_COLLAPSE, "array operation with a failing scalar operand gives one error instead of an array of errors"),
    (D_SHORT, "AND/OR short-circuit: errors after the deciding value are not propagated"),
    (D_LOGTEXT, "AND/OR ignore direct text that is not TRUE/FALSE instead of #VALUE!"),
    (D_MINMAX, "MIN/MAX ignore direct booleans and text instead of coercing them"),
    (D_CONCATARR, "CONCAT of an array value is #N/IMPL!"),
    (D_COUNTARR, "COUNT ignores array values"),
    (D_UNARR, "unary minus / percent of a range or array is #N/IMPL!"),
    (D_ARRINF, "a non-finite arithmetic result is used as a number (only a scalar cell result becomes #NUM!)"),
    (D_TEXT17, "number to text uses 17 significant digits instead of 15"),
    (D_NEGZERO, "negative zero becomes the text -0"),
    (D_CMPERR, "element-wise comparison orders error elements instead of propagating them"),
];

thread_local! {
    static DEV: std::cell::Cell<u32> = const { std::cell::Cell::new(0) };
}
fn dev(f: u32) -> bool {
    DEV.with(|d| d.get() & f != 0)
}

// ---------------------------------------------------------------- the reference evaluator

/// General-format text of a number, or None where the rendering is not pinned (very large / small magnitudes).
fn num_to_text(n: f64) -> R<String> {
    if n == 0.0 {
        return Ok(if dev(D_NEGZERO) && n.is_sign_negative() { "-0".into() } else { "0".into() });
    }
    if !n.is_finite() {
        if dev(D_ARRINF) {
            return Ok(format!("{}", n));
        }
        return unspec("text of a non-finite number");
    }
    let a = n.abs();
    if !(1e-4..1e11).contains(&a) {
        return unspec("text of a very large or very small number");
    }
    if dev(D_TEXT17) {
        return Ok(format!("{}", n));
    }
    // 15 significant digits, trailing zeros removed
    let exp = a.log10().floor() as i32;
    let decimals = (14 - exp).max(0) as usize;
    let mut s = format!("{:.*}", decimals, n);
    if s.contains('.') {
        while s.ends_with('0') {
            s.pop();
        }
        if s.ends_with('.') {
            s.pop();
        }
    }
    if s == "-0" {
        s = "0".into();
    }
    Ok(s)
}

/// Ok(Ok(number)) / Ok(Err(error value)) / Err(unspecified)
fn text_to_num(s: &str) -> R<Result<f64, V>> {
    let t = s.trim();
    if t.is_empty() {
        return Ok(Err(V::Err("#VALUE!")));
    }
    let plain = {
        let b = t.as_bytes();
        let mut i = 0;
        if i < b.len() && (b[i] == b'+' || b[i] == b'-') {
            i += 1;
        }
        let d0 = i;
        while i < b.len() && b[i].is_ascii_digit() {
            i += 1;
        }
        let mut digits = i - d0;
        if i < b.len() && b[i] == b'.' {
            i += 1;
            let f0 = i;
            while i < b.len() && b[i].is_ascii_digit() {
                i += 1;
            }
            digits += i - f0;
        }
        digits > 0 && i == b.len()
    };
    if plain && t == s {
        return match t.parse::<f64>() {
            Ok(f) => Ok(Ok(f)),
            Err(_) => unspec("number text"),
        };
    }
    if !t.chars().any(|c| c.is_ascii_digit()) && t.chars().all(|c| c.is_ascii_alphabetic()) {
        return Ok(Err(V::Err("#VALUE!")));
    }
    unspec("text that may or may not be read as a number (date, time, percent, currency, exponent ...)")
}

fn to_num(v: &V) -> R<Result<f64, V>> {
    Ok(match v {
        V::Num(n) => Ok(*n),
        V::Bool(b) => Ok(if *b { 1.0 } else { 0.0 }),
        V::Blank => Ok(0.0),
        V::Str(s) => return text_to_num(s),
        e => Err(e.clone()),
    })
}

fn to_text(v: &V) -> R<Result<String, V>> {
    Ok(match v {
        V::Num(n) => Ok(num_to_text(*n)?),
        V::Bool(b) => Ok((if *b { "TRUE" } else { "FALSE" }).to_string()),
        V::Blank => Ok(String::new()),
        V::Str(s) => Ok(s.clone()),
        e => Err(e.clone()),
    })
}

fn to_bool(v: &V) -> R<Result<bool, V>> {
    Ok(match v {
        V::Num(n) => Ok(*n != 0.0),
        V::Bool(b) => Ok(*b),
        V::Blank => Ok(false),
        V::Str(s) => {
            if s.eq_ignore_ascii_case("true") {
                Ok(true)
            } else if s.eq_ignore_ascii_case("false") {
                Ok(false)
            } else {
                Err(V::Err("#VALUE!"))
            }
        }
        e => Err(e.clone()),
    })
}

fn finite(n: f64) -> V {
    if n.is_finite() || dev(D_ARRINF) {
        V::Num(n)
    } else {
        V::ErrAny
    }
}

fn arith(op: &str, a: &V, b: &V) -> R<V> {
    let x = match to_num(a)? {
        Ok(x) => x,
        Err(e) => return Ok(e),
    };
    let y = match to_num(b)? {
        Ok(y) => y,
        Err(e) => return Ok(e),
    };
    Ok(match op {
        "+" => finite(x + y),
        "-" => finite(x - y),
        "*" => finite(x * y),
        "/" => {
            if y == 0.0 {
                V::Err("#DIV/0!")
            } else {
                finite(x / y)
            }
        }
        _ => {
            if x == 0.0 && y == 0.0 {
                return unspec("0^0");
            }
            if x == 0.0 && y < 0.0 {
                if dev(D_ARRINF) {
                    V::Num(x.powf(y))
                } else {
                    V::ErrAny
                }
            } else if x < 0.0 && y.fract() != 0.0 {
                return unspec("negative base with fractional exponent");
            } else {
                finite(x.powf(y))
            }
        }
    })
}

fn concat(a: &V, b: &V) -> R<V> {
    let x = match to_text(a)? {
        Ok(x) => x,
        Err(e) => return Ok(e),
    };
    let y = match to_text(b)? {
        Ok(y) => y,
        Err(e) => return Ok(e),
    };
    Ok(V::Str(format!("{}{}", x, y)))
}

/// -1 / 0 / 1 by the cross-type order number < text < boolean; blank adapts to the other side
fn order(a: &V, b: &V) -> R<i32> {
    let (a, b) = match (a, b) {
        (V::Blank, V::Blank) => return Ok(0),
        (V::Blank, V::Num(_)) => (V::Num(0.0), b.clone()),
        (V::Blank, V::Str(_)) => (V::Str(String::new()), b.clone()),
        (V::Blank, V::Bool(_)) => (V::Bool(false), b.clone()),
        (V::Num(_), V::Blank) => (a.clone(), V::Num(0.0)),
        (V::Str(_), V::Blank) => (a.clone(), V::Str(String::new())),
        (V::Bool(_), V::Blank) => (a.clone(), V::Bool(false)),
        _ => (a.clone(), b.clone()),
    };
    let rank = |v: &V| match v {
        V::Num(_) => 0,
        V::Str(_) => 1,
        _ => 2,
    };
    if rank(&a) != rank(&b) {
        return Ok(if rank(&a) < rank(&b) { -1 } else { 1 });
    }
    match (&a, &b) {
        (V::Num(x), V::Num(y)) => {
            if x == y {
                Ok(0)
            } else if x.is_finite() && y.is_finite() && (x - y).abs() <= 1e-12 * x.abs().max(y.abs()) {
                unspec("numbers equal within display precision")
            } else {
                Ok(if x < y { -1 } else { 1 })
            }
        }
        (V::Str(x), V::Str(y)) => {
            if !x.is_ascii() || !y.is_ascii() {
                return unspec("non-ASCII text comparison");
            }
            let (x, y) = (x.to_ascii_uppercase(), y.to_ascii_uppercase());
            if x != y && !(x.chars().all(|c| c.is_ascii_alphanumeric()) && y.chars().all(|c| c.is_ascii_alphanumeric())) {
                return unspec("collation of punctuation");
            }
            Ok(match x.cmp(&y) {
                std::cmp::Ordering::Less => -1,
                std::cmp::Ordering::Equal => 0,
                std::cmp::Ordering::Greater => 1,
            })
        }
        (V::Bool(x), V::Bool(y)) => Ok((*x as i32) - (*y as i32)),
        _ => unspec("comparison"),
    }
}

fn compare(op: &str, a: &V, b: &V) -> R<V> {
    if a.is_err() {
        return Ok(a.clone());
    }
    if b.is_err() {
        return Ok(b.clone());
    }
    let c = order(a, b)?;
    Ok(V::Bool(match op {
        "=" => c == 0,
        "<>" => c != 0,
        "<" => c < 0,
        ">" => c > 0,
        "<=" => c <= 0,
        _ => c >= 0,
    }))
}

/// imitation of D_CMPERR: an error element sorts after every value (two errors: only equal kinds are pinned here)
fn compare_ordering_errors(op: &str, a: &V, b: &V) -> R<V> {
    let c = match (a.is_err(), b.is_err()) {
        (false, false) => return compare(op, a, b),
        (true, true) => {
            if a == b && *a != V::ErrAny {
                0
            } else {
                return unspec("order of two different errors");
            }
        }
        (true, false) => 1,
        (false, true) => -1,
    };
    Ok(V::Bool(match op {
        "=" => c == 0,
        "<>" => c != 0,
        "<" => c < 0,
        ">" => c > 0,
        "<=" => c <= 0,
        _ => c >= 0,
    }))
}

fn binop(op: &str, a: &V, b: &V) -> R<V> {
    match op {
        "+" | "-" | "*" | "/" | "^" => arith(op, a, b),
        "&" => concat(a, b),
        _ => compare(op, a, b),
    }
}

fn unop(op: &str, a: &V) -> R<V> {
    let x = match to_num(a)? {
        Ok(x) => x,
        Err(e) => return Ok(e),
    };
    Ok(match op {
        "-" => V::Num(-x),
        _ => V::Num(x / 100.0),
    })
}

fn scalar(o: &O) -> Option<&V> {
    match o {
        O::S(v) | O::Cell(v) | O::Amb(v) => Some(v),
        _ => None,
    }
}

fn grid(o: &O) -> Option<&Vec<Vec<V>>> {
    match o {
        O::Range(g) | O::Arr(g) => Some(g),
        _ => None,
    }
}

fn lift2(a: &O, b: &O, f: &dyn Fn(&V, &V) -> R<V>) -> R<O> {
    match (scalar(a), scalar(b)) {
        (Some(x), Some(y)) => Ok(O::S(f(x, y)?)),
        _ => {
            let one = |o: &O| -> Vec<Vec<V>> {
                match grid(o) {
                    Some(g) => g.clone(),
                    None => vec![vec![scalar(o).cloned().unwrap_or(V::Blank)]],
                }
            };
            let (ga, gb) = (one(a), one(b));
            let (ra, ca, rb, cb) = (ga.len(), ga[0].len(), gb.len(), gb[0].len());
            if (ra != rb && ra != 1 && rb != 1) || (ca != cb && ca != 1 && cb != 1) {
                return unspec("array operands of different sizes");
            }
            let (rows, cols) = (ra.max(rb), ca.max(cb));
            let mut out = vec![];
            for i in 0..rows {
                let mut row = vec![];
                for j in 0..cols {
                    let x = &ga[if ra == 1 { 0 } else { i }][if ca == 1 { 0 } else { j }];
                    let y = &gb[if rb == 1 { 0 } else { i }][if cb == 1 { 0 } else { j }];
                    row.push(f(x, y)?);
                }
                out.push(row);
            }
            Ok(O::Arr(out))
        }
    }
}

fn lift1(a: &O, f: &dyn Fn(&V) -> R<V>) -> R<O> {
    match scalar(a) {
        Some(x) => Ok(O::S(f(x)?)),
        None => {
            let g = grid(a).cloned().unwrap_or_default();
            let mut out = vec![];
            for row in g {
                let mut r = vec![];
                for v in row {
                    r.push(f(&v)?);
                }
                out.push(r);
            }
            Ok(O::Arr(out))
        }
    }
}

/// items of an aggregate's argument list, in order
enum Item {
    Direct(V),
    Ref(V),
    ArrEl(V),
    Amb(V),
}

fn items(args: &[O]) -> Vec<Item> {
    let mut out = vec![];
    for a in args {
        match a {
            O::S(v) => out.push(Item::Direct(v.clone())),
            O::Cell(v) => out.push(Item::Ref(v.clone())),
            O::Amb(v) => out.push(Item::Amb(v.clone())),
            O::Range(g) => out.extend(g.iter().flatten().map(|v| Item::Ref(v.clone()))),
            O::Arr(g) => out.extend(g.iter().flatten().map(|v| Item::ArrEl(v.clone()))),
        }
    }
    out
}

/// numbers an aggregate (SUM, MIN, MAX, AVERAGE) sees, or the error it returns
fn numbers(name: &str, args: &[O]) -> R<Result<Vec<f64>, V>> {
    let lenient = dev(D_MINMAX) && (name == "MIN" || name == "MAX");
    let mut out = vec![];
    for it in items(args) {
        match it {
            // the documentation of AVERAGE contradicts itself about logical values and numeric text typed as arguments
            Item::Direct(V::Bool(_)) | Item::Direct(V::Str(_)) | Item::ArrEl(V::Bool(_)) if name == "AVERAGE" => {
                return unspec("AVERAGE over logical values or text given directly or inside an array")
            }
            Item::Direct(v) if lenient => match v {
                V::Num(n) => out.push(n),
                e if e.is_err() => return Ok(Err(e)),
                _ => {}
            },
            Item::Direct(v) => match v {
                V::Blank => out.push(0.0),
                V::Str(s) => match text_to_num(&s)? {
                    Ok(n) => out.push(n),
                    Err(e) => return Ok(Err(e)),
                },
                other => match to_num(&other)? {
                    Ok(n) => out.push(n),
                    Err(e) => return Ok(Err(e)),
                },
            },
            Item::Ref(v) | Item::ArrEl(v) => match v {
                V::Num(n) => out.push(n),
                e if e.is_err() => return Ok(Err(e)),
                _ => {}
            },
            Item::Amb(v) => match v {
                V::Num(n) => out.push(n),
                e if e.is_err() => return Ok(Err(e)),
                _ if lenient => {}
                _ => return unspec("IF/IFERROR result that may be a reference, used in an aggregate"),
            },
        }
    }
    Ok(Ok(out))
}

fn logicals(name: &str, args: &[O]) -> R<Result<Vec<bool>, V>> {
    let mut out = vec![];
    let mut pending: Option<V> = None;
    let short = dev(D_SHORT);
    for it in items(args) {
        let r: Result<Option<bool>, V> = match it {
            Item::Direct(v) => match v {
                V::Blank => return unspec("empty direct argument of AND/OR"),
                V::Str(s) if dev(D_LOGTEXT) => Ok(to_bool(&V::Str(s))?.ok()),
                other => to_bool(&other)?.map(Some),
            },
            Item::Ref(v) | Item::ArrEl(v) => match v {
                V::Num(n) => Ok(Some(n != 0.0)),
                V::Bool(b) => Ok(Some(b)),
                e if e.is_err() => Err(e),
                _ => Ok(None),
            },
            Item::Amb(v) => match v {
                V::Num(n) => Ok(Some(n != 0.0)),
                V::Bool(b) => Ok(Some(b)),
                e if e.is_err() => Err(e),
                _ => return unspec("IF/IFERROR result that may be a reference, used in AND/OR"),
            },
        };
        match r {
            Ok(Some(b)) => {
                out.push(b);
                if short && pending.is_none() && ((name == "AND" && !b) || (name == "OR" && b)) {
                    return Ok(Ok(out));
                }
            }
            Ok(None) => {}
            Err(e) => {
                if short {
                    return Ok(Err(e));
                }
                match &pending {
                    None => pending = Some(e),
                    Some(p) if *p == e => {}
                    // a coercion error mixed with a different propagated one: which wins is not pinned
                    Some(_) => pending = Some(V::ErrAny),
                }
            }
        }
    }
    if let Some(e) = pending {
        return Ok(Err(e));
    }
    if out.is_empty() {
        return Ok(Err(V::Err("#VALUE!")));
    }
    Ok(Ok(out))
}

fn round_half_away(x: f64, digits: f64) -> R<V> {
    let d = digits.trunc();
    if d.abs() > 12.0 {
        return unspec("ROUND with many digits");
    }
    let m = 10f64.powi(d as i32);
    let y = x * m;
    if !y.is_finite() {
        return unspec("ROUND overflow");
    }
    let frac = (y - y.trunc()).abs();
    if (frac - 0.5).abs() < 1e-7 && frac != 0.5 {
        return unspec("ROUND of a near tie");
    }
    let r = if frac >= 0.5 { y.trunc() + y.signum() } else { y.trunc() };
    Ok(V::Num(r / m))
}

fn eval(t: &T) -> R<O> {
    match t {
        T::Leaf(i) => Ok(leaf_operand(*i)),
        T::Un(op, x) => {
            let o = eval(x)?;
            if dev(D_UNARR) && grid(&o).is_some() {
                return Ok(O::S(V::Err("#N/IMPL!")));
            }
            lift1(&o, &|v| unop(op, v))
        }
        T::Bin(op, l, r) => {
            let a = eval(l)?;
            let b = eval(r)?;
            let array_ctx = grid(&a).is_some() || grid(&b).is_some();
            if array_ctx && dev(D_COLLAPSE) {
                for o in [&a, &b] {
                    if let Some(v) = scalar(o) {
                        let fail = match *op {
                            "+" | "-" | "*" | "/" | "^" => to_num(v)?.err(),
                            _ => if v.is_err() { Some(v.clone()) } else { None },
                        };
                        if let Some(e) = fail {
                            return Ok(O::S(e));
                        }
                    }
                }
            }
            let is_cmp = !matches!(*op, "+" | "-" | "*" | "/" | "^" | "&");
            if array_ctx && is_cmp && dev(D_CMPERR) {
                return lift2(&a, &b, &|x, y| compare_ordering_errors(op, x, y));
            }
            lift2(&a, &b, &|x, y| binop(op, x, y))
        }
        T::Fn(name, args) => eval_fn(name, args),
    }
}

fn scalar_arg(o: &O, what: &str) -> R<V> {
    match scalar(o) {
        Some(v) => Ok(v.clone()),
        None => unspec(&format!("{} with a range or array argument", what)),
    }
}

fn eval_fn(name: &str, args: &[T]) -> R<O> {
    match name {
        "IF" => {
            let c = scalar_arg(&eval(&args[0])?, "IF")?;
            let b = match to_bool(&c)? {
                Ok(b) => b,
                Err(e) => return Ok(O::S(e)),
            };
            let chosen = if b { args.get(1) } else { args.get(2) };
            match chosen {
                None => Ok(O::S(V::Bool(false))),
                Some(t) => match eval(t)? {
                    O::Cell(v) | O::Amb(v) => Ok(O::Amb(v)),
                    O::S(v) => Ok(O::S(v)),
                    // only while imitating a deviation (the condition is an error by the rules): the engine returns the range
                    other if DEV.with(|d| d.get()) != 0 => Ok(other),
                    _ => unspec("IF returning a range or array"),
                },
            }
        }
        "IFERROR" => {
            let x = eval(&args[0])?;
            let v = scalar_arg(&x, "IFERROR")?;
            let (res, was_ref) = if v.is_err() {
                let y = eval(&args[1])?;
                (scalar_arg(&y, "IFERROR")?, matches!(y, O::Cell(_) | O::Amb(_)))
            } else {
                (v, matches!(x, O::Cell(_) | O::Amb(_)))
            };
            if res == V::Blank {
                return unspec("IFERROR over an empty cell");
            }
            Ok(if was_ref { O::Amb(res) } else { O::S(res) })
        }
        "AND" | "OR" => {
            let os: Vec<O> = args.iter().map(eval).collect::<R<Vec<O>>>()?;
            Ok(O::S(match logicals(name, &os)? {
                Err(e) => e,
                Ok(bs) => V::Bool(if name == "AND" { bs.iter().all(|b| *b) } else { bs.iter().any(|b| *b) }),
            }))
        }
        "NOT" => {
            let v = scalar_arg(&eval(&args[0])?, "NOT")?;
            Ok(O::S(match to_bool(&v)? {
                Ok(b) => V::Bool(!b),
                Err(e) => e,
            }))
        }
        "SUM" | "MIN" | "MAX" | "AVERAGE" => {
            let os: Vec<O> = args.iter().map(eval).collect::<R<Vec<O>>>()?;
            Ok(O::S(match numbers(name, &os)? {
                Err(e) => e,
                Ok(ns) => match name {
                    "SUM" => finite(ns.iter().sum()),
                    // (the engine turns a non-finite MIN/MAX into 0: part of the non-finite deviation)
                    "MIN" => V::Num(ns.iter().cloned().fold(f64::INFINITY, f64::min)).pipe(|v| if ns.is_empty() || (dev(D_ARRINF) && v.is_nonfinite()) { V::Num(0.0) } else { v }),
                    "MAX" => V::Num(ns.iter().cloned().fold(f64::NEG_INFINITY, f64::max)).pipe(|v| if ns.is_empty() || (dev(D_ARRINF) && v.is_nonfinite()) { V::Num(0.0) } else { v }),
                    _ => {
                        if ns.is_empty() {
                            V::Err("#DIV/0!")
                        } else {
                            finite(ns.iter().sum::<f64>() / ns.len() as f64)
                        }
                    }
                },
            }))
        }
        "COUNT" => {
            let os: Vec<O> = args.iter().map(eval).collect::<R<Vec<O>>>()?;
            let mut n = 0;
            for it in items(&os) {
                match it {
                    Item::Direct(v) => match v {
                        V::Num(_) | V::Bool(_) => n += 1,
                        V::Str(s) => {
                            if let Ok(_) = text_to_num(&s)? {
                                n += 1
                            }
                        }
                        V::Blank => return unspec("empty direct argument of COUNT"),
                        _ => {}
                    },
                    Item::ArrEl(_) if dev(D_COUNTARR) => {}
                    Item::Ref(v) | Item::ArrEl(v) => {
                        if matches!(v, V::Num(_)) {
                            n += 1
                        }
                    }
                    Item::Amb(v) => match v {
                        V::Num(_) => n += 1,
                        V::Err(_) | V::ErrAny => {}
                        _ => return unspec("IF/IFERROR result that may be a reference, used in COUNT"),
                    },
                }
            }
            Ok(O::S(V::Num(n as f64)))
        }
        "COUNTA" => {
            let os: Vec<O> = args.iter().map(eval).collect::<R<Vec<O>>>()?;
            let mut n = 0;
            for it in items(&os) {
                match it {
                    Item::Direct(V::Blank) => return unspec("empty direct argument of COUNTA"),
                    Item::Direct(_) | Item::ArrEl(_) => n += 1,
                    Item::Ref(v) => {
                        if v != V::Blank {
                            n += 1
                        }
                    }
                    Item::Amb(v) => {
                        if v == V::Blank {
                            return unspec("IF/IFERROR result that may be an empty reference, used in COUNTA");
                        }
                        n += 1
                    }
                }
            }
            Ok(O::S(V::Num(n as f64)))
        }
        "ABS" => {
            let v = scalar_arg(&eval(&args[0])?, "ABS")?;
            Ok(O::S(match to_num(&v)? {
                Ok(n) => V::Num(n.abs()),
                Err(e) => e,
            }))
        }
        "ROUND" => {
            let x = scalar_arg(&eval(&args[0])?, "ROUND")?;
            let d = scalar_arg(&eval(&args[1])?, "ROUND")?;
            let xn = match to_num(&x)? {
                Ok(n) => n,
                Err(e) => return Ok(O::S(e)),
            };
            let dn = match to_num(&d)? {
                Ok(n) => n,
                Err(e) => return Ok(O::S(e)),
            };
            Ok(O::S(round_half_away(xn, dn)?))
        }
        "LEN" => {
            let v = scalar_arg(&eval(&args[0])?, "LEN")?;
            Ok(O::S(match to_text(&v)? {
                Ok(s) => V::Num(s.encode_utf16().count() as f64),
                Err(e) => e,
            }))
        }
        "CONCAT" => {
            let os: Vec<O> = args.iter().map(eval).collect::<R<Vec<O>>>()?;
            let mut s = String::new();
            if dev(D_CONCATARR) {
                // argument by argument: an error returns first, an array value is #N/IMPL!
                for o in &os {
                    match o {
                        O::Arr(_) => return Ok(O::S(V::Err("#N/IMPL!"))),
                        O::Range(g) => {
                            if let Some(e) = g.iter().flatten().find(|v| v.is_err()) {
                                return Ok(O::S(e.clone()));
                            }
                        }
                        other => {
                            if let Some(v) = scalar(other) {
                                if v.is_err() {
                                    return Ok(O::S(v.clone()));
                                }
                            }
                        }
                    }
                }
            }
            for it in items(&os) {
                let v = match it {
                    Item::Direct(v) | Item::Ref(v) | Item::ArrEl(v) | Item::Amb(v) => v,
                };
                match to_text(&v)? {
                    Ok(t) => s.push_str(&t),
                    Err(e) => return Ok(O::S(e)),
                }
            }
            Ok(O::S(V::Str(s)))
        }
        "ISNUMBER" | "ISTEXT" => {
            let v = scalar_arg(&eval(&args[0])?, name)?;
            Ok(O::S(V::Bool(if name == "ISNUMBER" { matches!(v, V::Num(_)) } else { matches!(v, V::Str(_)) })))
        }
        "ISBLANK" => match eval(&args[0])? {
            O::Cell(v) => Ok(O::S(V::Bool(v == V::Blank))),
            O::S(_) => Ok(O::S(V::Bool(false))),
            O::Amb(v) => {
                if v == V::Blank {
                    unspec("ISBLANK of an IF/IFERROR result that may be an empty reference")
                } else {
                    Ok(O::S(V::Bool(false)))
                }
            }
            _ => unspec("ISBLANK with a range or array argument"),
        },
        _ => unspec("function outside the core language"),
    }
}

trait Pipe: Sized {
    fn pipe<R>(self, f: impl FnOnce(Self) -> R) -> R {
        f(self)
    }
}
impl Pipe for V {}

/// what the cell(s) must show: a scalar or a block
enum Expect {
    One(V),
    Block(Vec<Vec<V>>),
}

fn settle(v: &V) -> V {
    if *v == V::Blank {
        V::Num(0.0)
    } else {
        v.clone()
    }
}

fn expectation(t: &T) -> R<Expect> {
    Ok(match eval(t)? {
        O::S(V::Num(n)) if !n.is_finite() => Expect::One(V::Err("#NUM!")),
        O::S(v) | O::Cell(v) | O::Amb(v) => Expect::One(settle(&v)),
        O::Range(g) | O::Arr(g) => {
            if g.len() == 1 && g[0].len() == 1 {
                Expect::One(settle(&g[0][0]))
            } else {
                Expect::Block(g.iter().map(|r| r.iter().map(settle).collect()).collect())
            }
        }
    })
}

// ---------------------------------------------------------------- running the real engine

const FR: i32 = 1;
const FC: i32 = 1;

fn model_with_data() -> Result<Model<'static>, String> {
    let mut m = Model::new_empty("m", "en", "UTC", "en")?;
    for (i, d) in DATA_INPUT.iter().enumerate() {
        if !d.is_empty() {
            m.set_user_input(0, i as i32 + 1, 4, d.to_string())?;
        }
    }
    Ok(m)
}

fn matches_val(exp: &V, got: &Val) -> bool {
    match (exp, got) {
        (V::Num(a), Val::Num(b)) => a == b || (a - b).abs() <= 1e-12 * a.abs().max(b.abs()),
        (V::Str(a), Val::Str(b)) => a == b,
        (V::Bool(a), Val::Bool(b)) => a == b,
        (V::Err(a), Val::Err(b)) => *a == format!("{}", b),
        (V::ErrAny, Val::Err(_)) => true,
        _ => false,
    }
}

/// what the engine shows for a formula: anchor role and the block A1:C8
struct Seen {
    text: String,
    rejected: Option<String>,
    shape: String,
    cells: Vec<Vec<Val>>,
}

fn run_engine(t: &T) -> Result<Seen, String> {
    let text = format!("={}", t.text());
    let mut m = model_with_data()?;
    if let Err(e) = m.set_user_input(0, FR, FC, text.clone()) {
        return Ok(Seen { text, rejected: Some(e), shape: String::new(), cells: vec![] });
    }
    m.evaluate();
    let shape = cell_shape(m.workbook.worksheets[0].cell(FR, FC));
    let cells = (0..8).map(|i| (0..3).map(|j| cell_val(&m, 0, FR + i, FC + j)).collect()).collect();
    Ok(Seen { text, rejected: None, shape, cells })
}

/// None = agrees, Some((expected kind, got kind, detail))
fn mismatch(exp: &Expect, seen: &Seen) -> Option<(String, String, String)> {
    let text = &seen.text;
    if let Some(e) = &seen.rejected {
        return Some(("accepted".into(), "input rejected".into(), e.clone()));
    }
    let anchor_shape = &seen.shape;
    let got = &seen.cells[0][0];
    match exp {
        Expect::One(v) => {
            let spilled = anchor_shape.starts_with("dyn") && anchor_shape != "dyn 1x1";
            if !matches_val(v, got) || spilled {
                return Some((
                    v.kind(),
                    if spilled { format!("array {}", &anchor_shape[4..]) } else { got.kind() },
                    format!("`{}` expected {} but the cell shows {} [{}]", text, v.show(), got.show(), anchor_shape),
                ));
            }
        }
        Expect::Block(g) => {
            let (h, w) = (g.len(), g[0].len());
            let want_shape = format!("dyn {}x{}", w, h);
            if *anchor_shape != want_shape || h > 8 || w > 3 {
                return Some((
                    format!("array {}x{}", w, h),
                    if anchor_shape.starts_with("dyn") { format!("array {}", &anchor_shape[4..]) } else { got.kind() },
                    format!("`{}` expected a {}x{} (columns x rows) array but the anchor is [{}] showing {}", text, w, h, anchor_shape, got.show()),
                ));
            }
            for (i, row) in g.iter().enumerate() {
                for (j, v) in row.iter().enumerate() {
                    let got = &seen.cells[i][j];
                    if !matches_val(v, got) {
                        return Some((
                            format!("element {}", v.kind()),
                            format!("element {}", got.kind()),
                            format!("`{}` element ({},{}) expected {} but the cell shows {}", text, i + 1, j + 1, v.show(), got.show()),
                        ));
                    }
                }
            }
        }
    }
    None
}

fn expectation_with(t: &T, flags: u32) -> R<Expect> {
    DEV.with(|d| d.set(flags));
    let r = expectation(t);
    DEV.with(|d| d.set(0));
    r
}

/// Ok(None) agrees / Err unspecified / Ok(Some(..)) disagrees
fn compare_with_engine(t: &T) -> Result<Option<(String, String, String, Seen)>, Unspec> {
    let exp = expectation_with(t, 0)?;
    let seen = run_engine(t).map_err(|e| format!("harness: {}", e))?;
    Ok(mismatch(&exp, &seen).map(|(a, b, c)| (a, b, c, seen)))
}

/// smallest set of known deviations under which the reference evaluator reproduces what the engine shows
fn explain(t: &T, seen: &Seen) -> Option<Vec<u32>> {
    let flags: Vec<u32> = DEVIATIONS.iter().map(|d| d.0).collect();
    let n = flags.len();
    let agrees = |f: u32| -> bool {
        match expectation_with(t, f) {
            Ok(e) => mismatch(&e, seen).is_none(),
            Err(_) => false,
        }
    };
    for i in 0..n {
        if agrees(flags[i]) {
            return Some(vec![flags[i]]);
        }
    }
    for i in 0..n {
        for j in i + 1..n {
            if agrees(flags[i] | flags[j]) {
                return Some(vec![flags[i], flags[j]]);
            }
        }
    }
    for i in 0..n {
        for j in i + 1..n {
            for k in j + 1..n {
                if agrees(flags[i] | flags[j] | flags[k]) {
                    return Some(vec![flags[i], flags[j], flags[k]]);
                }
            }
        }
    }
    None
}

fn arg_class(t: &T) -> String {
    match t {
        T::Leaf(i) => LEAVES[*i].1.to_string(),
        other => match eval(other) {
            Ok(O::S(v)) | Ok(O::Cell(v)) | Ok(O::Amb(v)) => format!("expr:{}", if v.is_err() { "err".to_string() } else { v.kind() }),
            Ok(_) => "expr:array".into(),
            Err(_) => "expr:unspecified".into(),
        },
    }
}

/// Judge one term; on disagreement blame the smallest disagreeing sub-term.
fn judge(t: &T) -> (Vec<Disagreement>, bool) {
    let r = guarded(|| compare_with_engine(t));
    match r {
        Err(p) => (
            vec![Disagreement {
                sig: format!("panic at={} head={}", p.rsplit(" @ ").next().unwrap_or(""), t.head()),
                case: json!({"term": t.to_json(), "text": t.text()}),
                detail: p,
            }],
            false,
        ),
        Ok(Err(_)) => (vec![], true),
        Ok(Ok(None)) => (vec![], false),
        Ok(Ok(Some((ek, gk, detail, seen)))) => {
            // smallest failing sub-term first
            for c in t.children() {
                if !matches!(c, T::Leaf(_)) {
                    if let Ok(Ok(Some(_))) = guarded(|| compare_with_engine(c)) {
                        return judge(c);
                    }
                }
            }
            let case = json!({"term": t.to_json(), "text": t.text()});
            if let Some(fs) = explain(t, &seen) {
                let names: Vec<&str> = fs.iter().map(|f| DEVIATIONS.iter().find(|d| d.0 == *f).map(|d| d.1).unwrap_or("?")).collect();
                return (
                    names
                        .iter()
                        .map(|n| Disagreement {
                            sig: format!("known deviation: {}", n),
                            case: case.clone(),
                            detail: format!("{}\nreproduced by the reference evaluator with the deviation(s): {}", detail, names.join(" + ")),
                        })
                        .collect(),
                    false,
                );
            }
            let classes: Vec<String> = t.children().iter().map(|c| arg_class(c)).collect();
            (vec![Disagreement { sig: format!("{} args=({}) expected={} got={}", t.head(), classes.join(","), ek, gk), case, detail }], false)
        }
    }
}

// ---------------------------------------------------------------- enumeration

fn depth1(leaves: &[usize], with_ternary: bool, ternary_leaves: &[usize]) -> Vec<T> {
    let mut out = vec![];
    let leaf = |i: &usize| T::Leaf(*i);
    for op in UN_OPS {
        for a in leaves {
            out.push(T::Un(op, Box::new(leaf(a))));
        }
    }
    for op in BIN_OPS {
        for a in leaves {
            for b in leaves {
                out.push(T::Bin(op, Box::new(leaf(a)), Box::new(leaf(b))));
            }
        }
    }
    for (name, arities) in FUNCS.iter() {
        for ar in arities.iter() {
            match ar {
                1 => {
                    for a in leaves {
                        out.push(T::Fn(name, vec![leaf(a)]));
                    }
                }
                2 => {
                    for a in leaves {
                        for b in leaves {
                            out.push(T::Fn(name, vec![leaf(a), leaf(b)]));
                        }
                    }
                }
                3 if with_ternary => {
                    for a in ternary_leaves {
                        for b in ternary_leaves {
                            for c in ternary_leaves {
                                out.push(T::Fn(name, vec![leaf(a), leaf(b), leaf(c)]));
                            }
                        }
                    }
                }
                _ => {}
            }
        }
    }
    out
}

/// depth-2 terms: a root whose one child is a depth-1 term over `leaves` and whose other children are leaves
fn depth2(leaves: &[usize]) -> Vec<T> {
    let inner = depth1(leaves, false, &[]);
    let mut out = vec![];
    let leaf = |i: &usize| T::Leaf(*i);
    for x in &inner {
        for op in UN_OPS {
            out.push(T::Un(op, Box::new(x.clone())));
        }
        for op in BIN_OPS {
            for b in leaves {
                out.push(T::Bin(op, Box::new(x.clone()), Box::new(leaf(b))));
                out.push(T::Bin(op, Box::new(leaf(b)), Box::new(x.clone())));
            }
        }
        for (name, arities) in FUNCS.iter() {
            if arities.contains(&1) {
                out.push(T::Fn(name, vec![x.clone()]));
            }
            if arities.contains(&2) {
                for b in leaves {
                    out.push(T::Fn(name, vec![x.clone(), leaf(b)]));
                    out.push(T::Fn(name, vec![leaf(b), x.clone()]));
                }
            }
        }
        for b in leaves {
            for c in leaves {
                out.push(T::Fn("IF", vec![x.clone(), leaf(b), leaf(c)]));
            }
        }
    }
    out
}


// ---------- aggregates over another sheet's whole columns / rows ----------
// The reference values are plain folds over the data written below; the sheet holding the formulas has fewer used
// rows and columns than the sheet read, so a range clamped to the wrong sheet's extent gives a different result.

const X_DATA: [(i32, i32, &str); 8] = [(1, 1, "1"), (3, 1, "2"), (5, 1, "x"), (6, 1, "TRUE"), (9, 1, "4"), (12, 1, "8"), (2, 2, "16"), (12, 2, "32")];

fn x_cases() -> Vec<(&'static str, f64)> {
    vec![
        ("SUM(Sheet2!A:A)", 15.0),
        ("SUM(Sheet2!A:B)", 63.0),
        ("SUM(Sheet2!B:B)", 48.0),
        ("SUM(Sheet2!1:1)", 1.0),
        ("SUM(Sheet2!12:12)", 40.0),
        ("SUM(Sheet2!2:12)", 62.0),
        ("SUM(Sheet2!A1:A12)", 15.0),
        ("SUM(Sheet2!A1:B12)", 63.0),
        ("COUNT(Sheet2!A:A)", 4.0),
        ("COUNTA(Sheet2!A:A)", 6.0),
        ("COUNT(Sheet2!A:B)", 6.0),
        ("MAX(Sheet2!A:B)", 32.0),
        ("MAX(Sheet2!A:A)", 8.0),
        ("MIN(Sheet2!A:A)", 1.0),
        ("MIN(Sheet2!9:12)", 4.0),
        ("AVERAGE(Sheet2!A:A)", 3.75),
        ("AVERAGE(Sheet2!B:B)", 24.0),
        ("SUM(Sheet2!A:A,Sheet2!B:B,1)", 64.0),
        ("SUM(Sheet2!A:A)+MAX(Sheet2!12:12)", 47.0),
        ("IF(COUNT(Sheet2!A:A)=4,SUM(Sheet2!B:B),0)", 48.0),
        ("SUM(Wide!1:1)", 21.0),
        ("SUM(Wide!1:2)", 31.0),
        ("SUM(Wide!2:2)", 10.0),
        ("COUNT(Wide!1:1)", 6.0),
        ("MAX(Wide!1:1)", 6.0),
        ("MIN(Wide!1:2)", 1.0),
        ("AVERAGE(Wide!1:1)", 3.5),
        ("SUM(Wide!A:F)", 31.0),
        ("SUM(Wide!F:F)", 6.0),
        ("SUM(Wide!A1:F2)", 31.0),
    ]
}

fn x_judge(formula: &str, want: f64) -> Vec<Disagreement> {
    let mut ds = vec![];
    let case = json!({"cross_sheet": formula, "want": want});
    let r = crate::env::guarded(|| -> Result<Vec<(String, String)>, String> {
        let mut out = vec![];
        // the formula lives on Sheet1 (one used row) and, second variant, on a third sheet with no cells but the formula
        let hosts: Vec<u32> = if formula.contains("Wide!") { vec![0, 2, 3] } else { vec![0, 2] };
        for host in hosts {
            let mut m = Model::new_empty("c06x", "en", "UTC", "en")?;
            m.add_sheet("Sheet2")?;
            m.add_sheet("Sheet3")?;
            m.add_sheet("Wide")?;
            for (r, c, v) in X_DATA {
                m.set_user_input(1, r, c, v.to_string())?;
            }
            // a sheet that is wider than it is tall: A1..F1 = 1..6, A2 = 10
            for c in 1..=6 {
                m.set_user_input(3, 1, c, format!("{}", c))?;
            }
            m.set_user_input(3, 2, 1, "10".to_string())?;
            m.set_user_input(0, 1, 1, "100".to_string())?;
            // on the Wide sheet itself the formula sits below the data (row 4) and is written without the sheet prefix
            let (hr, hc, text) = if host == 3 { (4, 9, formula.replace("Wide!", "")) } else { (1, 3, formula.to_string()) };
            m.set_user_input(host, hr, hc, format!("={}", text))?;
            m.evaluate();
            let got = m.get_cell_value_by_index(host, hr, hc)?;
            let ok = matches!(got, ironcalc_base::cell::CellValue::Number(n) if (n - want).abs() <= 1e-9 * want.abs().max(1.0));
            if !ok {
                out.push((match host { 0 => "host=sheet-with-few-rows".to_string(), 2 => "host=empty-sheet".to_string(), _ => "host=same-sheet".to_string() }, format!("{:?}", got)));
            }
        }
        Ok(out)
    });
    let head = formula.split('(').next().unwrap_or("");
    let shape = if formula.contains("!A:") || formula.contains("!B:") { "whole-column" } else if formula.contains("!A1:") { "bounded" } else { "whole-row" };
    match r {
        Err(p) => ds.push(Disagreement { sig: format!("cross-sheet aggregate panic at={}", p.rsplit(" @ ").next().unwrap_or("")), case, detail: p }),
        Ok(Err(e)) => ds.push(Disagreement { sig: "cross-sheet aggregate setup-error".into(), case, detail: e }),
        Ok(Ok(bad)) => {
            for (host, got) in bad {
                ds.push(Disagreement {
                    sig: format!("cross-sheet aggregate fn={} range={} {}", head, shape, host),
                    case: case.clone(),
                    detail: format!("`={}` over Sheet2 (A1=1 A3=2 A5=\"x\" A6=TRUE A9=4 A12=8 B2=16 B12=32): expected {} got {}", formula, want, got),
                });
            }
        }
    }
    ds
}

pub fn run(run: &mut Run) {
    crate::cellval::keep_freed_memory();
    let xc = x_cases();
    let xres = crate::env::par_units(xc.len(), |u| x_judge(xc[u].0, xc[u].1));
    for r in xres {
        match r {
            Ok(ds) => run.add_all(ds),
            Err(e) => run.machinery_errors.push(e),
        }
    }
    run.extra.insert("cross_sheet_aggregate_cases".into(), json!(xc.len() * 2));

    let thorough = run.tier.thorough();
    let all: Vec<usize> = (0..LEAVES.len()).collect();
    let reduced: &[usize] = if thorough { &L_THOROUGH } else { &L_QUICK };
    let mut terms = depth1(&all, true, &L_THOROUGH);
    let n1 = terms.len();
    terms.extend(depth2(reduced));
    let n2 = terms.len() - n1;
    let chunk = 512;
    let n_units = terms.len().div_ceil(chunk);
    let res = crate::env::par_units(n_units, |u| {
        let mut ds = vec![];
        let mut unspecified = 0u64;
        let mut kinds: BTreeSet<String> = BTreeSet::new();
        let mut nontrivial = 0u64;
        for t in terms.iter().skip(u * chunk).take(chunk) {
            let (d, un) = judge(t);
            ds.extend(d);
            if un {
                unspecified += 1;
            } else {
                // a case is non-trivial when a coercion, a cross-type comparison, an error or an array is involved
                let classes: Vec<String> = t.children().iter().map(|c| arg_class(c)).collect();
                if classes.iter().any(|c| c != "num") {
                    nontrivial += 1;
                }
                if let Ok(e) = expectation(t) {
                    kinds.insert(match e {
                        Expect::One(v) => format!("{}|{}", t.head(), v.kind()),
                        Expect::Block(g) => format!("{}|array{}x{}", t.head(), g[0].len(), g.len()),
                    });
                }
            }
        }
        (ds, unspecified, kinds, nontrivial)
    });
    let mut outcomes: BTreeSet<String> = BTreeSet::new();
    let mut unspecified = 0u64;
    for r in res {
        match r {
            Ok((ds, un, kinds, nt)) => {
                run.add_all(ds);
                unspecified += un;
                outcomes.extend(kinds);
                run.nontrivial += nt;
            }
            Err(e) => run.machinery_errors.push(format!("unit panicked: {}", e)),
        }
    }
    run.evaluations = terms.len() as u64;
    run.states = terms.len() as u64;
    run.traces = terms.len() as u64 - unspecified;
    run.transitions = (terms.len() as u64 - unspecified) * 2;
    run.distinct_outcomes = outcomes.len() as u64;
    run.extra.insert("unspecified_not_compared".into(), json!(unspecified));
    run.extra.insert("depth1_terms".into(), json!(n1));
    run.extra.insert("depth2_terms".into(), json!(n2));
    run.rule = "a compared formula is non-trivial when at least one operand is not a plain number (coercion, cross-type comparison, error, blank, reference, range or array involved)".into();
    run.bound = json!({"leaves": LEAVES.iter().map(|l| l.0).collect::<Vec<_>>(), "data_block_D1:D7": DATA_INPUT,
        "unary": UN_OPS, "binary": BIN_OPS, "functions": FUNCS.iter().filter(|f| !f.1.is_empty()).map(|f| json!({"name": f.0, "arities": f.1})).collect::<Vec<_>>(),
        "ternary_leaves": L_THOROUGH.iter().map(|i| LEAVES[*i].0).collect::<Vec<_>>(),
        "depth2_leaves": reduced.iter().map(|i| LEAVES[*i].0).collect::<Vec<_>>(),
        "depth2_shape": "root (unary, binary, function of arity 1-2, IF) with exactly one depth-1 child (unary, binary, function of arity 1-2) and leaf siblings"});
    for i in [7usize, n1 / 2, n1 + n2 / 3] {
        if let Some(t) = terms.get(i) {
            run.sample(json!({"term": t.to_json(), "text": t.text()}));
        }
    }
    run.exhaustive = true;
    run.assume("the reference evaluator encodes the spreadsheet rules named by the property; where a rule is not pinned (0^0, negative base with fractional exponent, text that may be a date or currency, numbers equal within display precision, arrays of different sizes, scalar functions over ranges, IF/IFERROR results that may be references, very large or small numbers as text) it answers unspecified and nothing is compared");
    run.assume("language and locale en; formula in A1, data block D1:D7; numbers compare with relative tolerance 1e-12");
}

pub fn replay(case: &Value) -> Vec<Disagreement> {
    if let Some(f) = case["cross_sheet"].as_str() {
        return x_judge(f, case["want"].as_f64().unwrap_or(0.0));
    }
    match T::from_json(&case["term"]) {
        Some(t) => judge(&t).0,
        None => vec![],
    }
}

//! C27 Workbook structure stays well-formed: invariant on every state of every explored history
//! (after Ok and Err results, undo and redo, with and without paused evaluation).

use crate::hist::{self, HistCfg};
use crate::invariants::wellformed;
use crate::ops::Op;
use crate::report::{Disagreement, Run};
use crate::seeds;
use serde_json::{json, Value};

pub struct Out {
    pub ds: Vec<Disagreement>,
    pub states: u64,
    pub key: u128,
    pub failed_ops: u64,
}

pub fn judge(seed: &'static str, word: &[Op]) -> Option<Out> {
    let case = hist::case_json(seed, word);
    let mut um = seeds::load(seed);
    let mut ds = vec![];
    let mut states = 0;
    let mut failed_ops = 0;
    let mut paused = false;
    let mut seen = std::collections::BTreeSet::new();
    let mut stale = false; // a structural change happened while evaluation was paused
    for (i, op) in word.iter().enumerate() {
        let r = crate::env::guarded(|| op.apply(&mut um));
        match (&r, op) {
            (_, Op::Pause) => paused = true,
            (_, Op::Resume) => {
                paused = false;
            }
            (_, Op::Evaluate) => stale = false,
            _ => {
                if paused {
                    stale = true;
                } else {
                    stale = false;
                }
            }
        }
        if let Err(p) = &r {
            ds.push(Disagreement {
                sig: format!("panic op={} at={}", op.kind(), p.split(" @ ").last().unwrap_or("")),
                case: case.clone(),
                detail: format!("operation {} ({:?}) panicked: {}", i, op, p),
            });
            break;
        }
        if matches!(r, Ok(Err(_))) {
            failed_ops += 1;
        }
        states += 1;
        for (class, text) in wellformed(um.get_model(), !stale) {
            // a broken invariant is inherited by later states: report each class once per history, keep checking
            if !seen.insert(class.clone()) {
                continue;
            }
            ds.push(Disagreement {
                sig: format!("invariant={} after={}{}", class, op.kind(), if matches!(r, Ok(Err(_))) { "(Err)" } else { "" }),
                case: case.clone(),
                detail: format!("after operation {} ({:?} -> {:?}): {}", i, op, r.as_ref().map(|x| x.is_ok()), text),
            });
        }
    }
    let key = crate::obs::state_key(um.get_model());
    Some(Out { ds, states, key, failed_ops })
}

pub fn run(run: &mut Run) {
    let thorough = run.tier.thorough();
    let mut full = seeds::alphabet_full();
    full.extend(crate::props::c04::invalid_catalogue().into_iter().step_by(if thorough { 1 } else { 3 }));
    full.extend(vec![Op::Undo, Op::Redo, Op::Pause, Op::Resume, Op::Evaluate]);
    let mut core = seeds::alphabet_core();
    core.extend(vec![Op::Undo, Op::Redo, Op::Pause, Op::Evaluate]);
    let all_seeds: Vec<&'static str> = seeds::SEEDS.to_vec();
    let mut plans: Vec<(HistCfg, usize, &str)> = vec![
        (HistCfg { seeds: all_seeds.clone(), alphabet: full.clone(), depth: 1 }, 1, "full+invalid+undo/redo/pause"),
        (HistCfg { seeds: if thorough { all_seeds.clone() } else { vec!["basic"] }, alphabet: full.clone(), depth: 2 }, 2, "full+invalid+undo/redo/pause"),
        (HistCfg { seeds: if thorough { all_seeds.clone() } else { vec!["basic"] }, alphabet: if thorough { core.clone() } else { core.iter().step_by(2).cloned().collect() }, depth: 3 }, 3, "core(/2)+undo/redo/pause"),
    ];
    if thorough {
        let small: Vec<Op> = core.iter().step_by(2).cloned().collect();
        plans.push((HistCfg { seeds: vec!["basic"], alphabet: small, depth: 4 }, 4, "core/2+undo/redo/pause"));
    }
    let mut keys = std::collections::HashSet::new();
    let mut bounds = vec![];
    let mut failed = 0u64;
    for (cfg, len, name) in &plans {
        // hist::explore requires Ok prefixes; here failed operations are part of the quantifier, so a
        // permissive variant is used: words are enumerated directly
        let a = cfg.alphabet.len();
        let prefixes = a.pow((*len - 1) as u32);
        let n_units = cfg.seeds.len() * prefixes;
        let res = crate::env::par_units(n_units, |u| {
            let seed = cfg.seeds[u / prefixes];
            let mut k = u % prefixes;
            let mut idx = vec![0usize; len - 1];
            for i in (0..len - 1).rev() {
                idx[i] = k % a;
                k /= a;
            }
            let mut word: Vec<Op> = idx.iter().map(|i| cfg.alphabet[*i].clone()).collect();
            word.push(cfg.alphabet[0].clone());
            let mut outs = vec![];
            for op in &cfg.alphabet {
                *word.last_mut().unwrap() = op.clone();
                if let Some(o) = judge(seed, &word) {
                    outs.push(o);
                }
            }
            outs
        });
        let mut words = 0u64;
        for r in res {
            match r {
                Ok(outs) => {
                    for o in outs {
                        words += 1;
                        run.evaluations += 1;
                        run.traces += 1;
                        run.transitions += o.states;
                        failed += o.failed_ops;
                        keys.insert(o.key);
                        run.add_all(o.ds);
                    }
                }
                Err(e) => run.machinery_errors.push(e),
            }
        }
        bounds.push(json!({"alphabet": name, "alphabet_size": a, "length": len, "seeds": cfg.seeds, "histories": words}));
        if run.elapsed() > if thorough { 3000.0 } else { 600.0 } {
            run.cap_hit = Some(format!("wall clock after plan {} len {}", name, len));
            break;
        }
    }
    run.states = keys.len() as u64;
    run.nontrivial = keys.len() as u64;
    run.distinct_outcomes = keys.len() as u64;
    run.bound = json!({"plans": bounds, "operations_that_returned_err": failed, "hash_seed": crate::env::hash_seed()});
    run.rule = "every word of the stated length over operations ∪ invalid calls ∪ {undo, redo, pause, resume, evaluate} from each seed (failed operations do NOT cut the history); the well-formedness invariant is evaluated after every step on the public Workbook structure. states / non-trivial = distinct canonical keys (hash of the whole Workbook) of final states".into();
    run.sample(hist::case_json("basic", &[full[5].clone(), Op::Undo]));
    run.sample(hist::case_json("imported", &[full[24].clone(), full[200.min(full.len() - 1)].clone()]));
    run.sample(hist::case_json("basic", &[Op::Pause, core[9].clone(), core[22].clone()]));
    run.assume("spill clauses are evaluated only when evaluation is current (not between pause_evaluation and the next evaluation)");
    run.assume("invariant clauses are exactly those of the property statement (names, ids, grid, style/string/formula indices, column/row descriptors, spill ownership/overlap, defined-name scopes)");
}

pub fn replay(case: &Value) -> Vec<Disagreement> {
    match hist::case_parse(case) {
        Some((seed, ops)) => judge(hist::seed_name(&seed), &ops).map(|w| w.ds).unwrap_or_default(),
        None => vec![],
    }
}

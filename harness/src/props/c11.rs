//! C11 Text inputs never crash the engine.
//!
//! Exhaustive families of strings (no sampling): (a) every string of length <= L over a tricky
//! 35-character alphabet, (b) the complete edit-distance-1 neighbourhood of a formula corpus, (c) towers
//! c^n and (cd)^n, (d) every number-format code of length <= L over the format alphabet and the
//! edit-distance-1 neighbourhood of the built-in formats. Every string goes through every text entry point
//! of the engine. Oracle: no panic, no abort, termination (worker subprocesses, `crate::isolate`).

use crate::isolate::{self, CaseOut, Job};
use crate::report::{Disagreement, Run, Tier};
use ironcalc_base::expressions::lexer::LexerMode;
use ironcalc_base::expressions::parser::{Node, Parser};
use ironcalc_base::expressions::types::CellReferenceRC;
use ironcalc_base::formatter::format::format_number;
use ironcalc_base::language::get_language;
use ironcalc_base::locale::get_locale;
use ironcalc_base::{Model, UserModel};
use serde_json::{json, Value};
use std::collections::{BTreeSet, HashMap};

pub const WATCHDOG_S: f64 = 60.0;

/// Σ_f: operators, brackets, punctuation the lexer treats specially, reference / number letters,
/// a two-byte character, an astral-plane character and NUL.
pub const SIGMA_F: [&str; 35] = [
    "+", "-", "*", "^", "&", "=", "<", "%", "(", ")", "{", "}", "[", "]", "!", ":", ";", ",", ".", "\"", "'",
    "#", "@", "$", "\\", " ", "A", "R", "C", "E", "1", "0", "\u{e9}", "\u{1d49c}", "\u{0}",
];

/// Σ_n: the number-format alphabet.
pub const SIGMA_N: [&str; 26] = [
    "0", "#", "?", ".", ",", "%", "E", "e", "+", "-", "\"", "\\", "_", "*", "@", "[", "]", ";", "/", ":", "d",
    "m", "y", "h", "s", " ",
];

/// (language, locale) pairs the formula entry points run in.
pub const PAIRS: [(&str, &str); 4] = [("en", "en"), ("de", "de"), ("fr", "fr"), ("es", "en-GB")];

pub const NUMBERS: [f64; 14] = [
    0.0,
    1.0,
    -1.0,
    0.5,
    1e15,
    1e-7,
    1e308,
    -1e308,
    f64::NAN,
    f64::INFINITY,
    f64::NEG_INFINITY,
    2_958_465.0,
    2_958_466.0,
    -0.0,
];

pub const TOWER_N: [usize; 5] = [10, 100, 1_000, 10_000, 100_000];

/// Entry-point groups; a tower case runs one of them, a short string runs all.
pub const ENTRIES: [&str; 7] = ["parse-a1", "parse-r1c1", "cursor", "cycle", "model", "usermodel", "format"];

pub fn corpus() -> Vec<&'static str> {
    vec![
        "A1+1",
        "$A$1*B$2-$C3",
        "SUM(A1:A3)",
        "IF(A1>1,\"x\",\"y\")",
        "Sheet2!A1",
        "'My Sheet'!$A$1:B2",
        "A:A",
        "1:1",
        "A1:B2 B2:C3",
        "A1#",
        "@A1",
        "R[1]C[-1]+R1C1",
        "1.5E+10",
        ".5%",
        "\"a\"\"b\"&\"c\"",
        "TRUE",
        "#N/A",
        "#REF!+#DIV/0!",
        "{1,2;3,4}",
        "-A1^2",
        "2^3^2",
        "A1<>B1",
        "A1<=B1",
        "(1+2)*3",
        "LET(x,1,x+1)",
        "LAMBDA(x,x+1)(2)",
        "Table1[[#This Row],[Col]]",
        "Table1[Col]",
        "name1+1",
        "SUM(Sheet1:Sheet2!A1)",
        "INDEX(A1:B2,1,2):C3",
        "IFERROR(1/0,)",
        "TEXT(A1,\"0.00\")",
        "[1]Sheet1!A1",
        "SUM(A1,,B1)",
        "10%%",
        "1e3",
        "'It''s'!A1",
        "A1.B2",
        "XFD1048576",
    ]
}

fn builtin_formats() -> Vec<String> {
    let mut v: BTreeSet<String> = BTreeSet::new();
    for id in 0..60 {
        v.insert(ironcalc_base::number_format::get_num_fmt(id, &[]));
    }
    for extra in [
        "dd/mm/yyyy hh:mm:ss",
        "[$-409]mmmm d, yyyy",
        "[>=100]0;[<0]-0;0",
        "0.0,,\"M\"",
        "yyyy-mm-dd;@",
    ] {
        v.insert(extra.to_string());
    }
    v.into_iter().collect()
}

/// All single-character deletions, insertions and replacements (from `sigma`) of `s`, deduplicated by the caller.
fn edits(s: &str, sigma: &[&str], out: &mut BTreeSet<String>) {
    let chars: Vec<char> = s.chars().collect();
    let n = chars.len();
    let build = |pre: &[char], mid: &str, post: &[char]| -> String {
        let mut t = String::with_capacity(s.len() + 4);
        t.extend(pre.iter());
        t.push_str(mid);
        t.extend(post.iter());
        t
    };
    for i in 0..n {
        out.insert(build(&chars[..i], "", &chars[i + 1..]));
        for c in sigma {
            out.insert(build(&chars[..i], c, &chars[i + 1..]));
        }
    }
    for i in 0..=n {
        for c in sigma {
            out.insert(build(&chars[..i], c, &chars[i..]));
        }
    }
}

/// The k-th string of length <= max over `sigma` in length-then-lexicographic order (k = 0 is the empty string).
fn short_string(sigma: &[&str], max: usize, mut k: usize) -> String {
    let a = sigma.len();
    let mut len = 0;
    let mut block = 1usize;
    while len <= max {
        if k < block {
            break;
        }
        k -= block;
        block *= a;
        len += 1;
    }
    let mut idx = vec![0usize; len];
    for i in (0..len).rev() {
        idx[i] = k % a;
        k /= a;
    }
    idx.iter().map(|i| sigma[*i]).collect()
}

fn count_short(a: usize, max: usize) -> usize {
    let mut t = 0;
    let mut b = 1;
    for _ in 0..=max {
        t += b;
        b *= a;
    }
    t
}

pub struct C11Job {
    len_f: usize,
    len_n: usize,
    n_short_f: usize,
    edits_f: Vec<String>,
    towers: Vec<(usize, usize, usize, usize)>, // (c, d or usize::MAX, n, entry)
    n_short_n: usize,
    edits_n: Vec<String>,
    pub corpus_used: usize,
    pub formats_used: usize,
}

impl C11Job {
    pub fn new(tier: Tier) -> C11Job {
        let thorough = tier.thorough();
        let len_f = if thorough { 4 } else { 3 };
        let len_n = if thorough { 4 } else { 3 };
        let corp = corpus();
        let corpus_used = if thorough { corp.len() } else { 8 };
        let mut ef = BTreeSet::new();
        for f in corp.iter().take(corpus_used) {
            edits(f, &SIGMA_F, &mut ef);
        }
        let fmts = builtin_formats();
        let mut en = BTreeSet::new();
        for f in &fmts {
            edits(f, &SIGMA_N, &mut en);
        }
        let mut towers = vec![];
        for (e, entry) in ENTRIES.iter().enumerate() {
            let sigma_len = if *entry == "format" { SIGMA_N.len() } else { SIGMA_F.len() };
            let (max_single, max_pair) = tower_bounds(entry, thorough);
            for &n in &TOWER_N {
                if n <= max_single {
                    for c in 0..sigma_len {
                        towers.push((c, usize::MAX, n, e));
                    }
                }
            }
            for &n in &TOWER_N {
                if n <= max_pair {
                    for c in 0..sigma_len {
                        for d in 0..sigma_len {
                            if c != d {
                                towers.push((c, d, n, e));
                            }
                        }
                    }
                }
            }
        }
        C11Job {
            len_f,
            len_n,
            n_short_f: count_short(SIGMA_F.len(), len_f),
            edits_f: ef.into_iter().collect(),
            towers,
            n_short_n: count_short(SIGMA_N.len(), len_n),
            edits_n: en.into_iter().collect(),
            corpus_used,
            formats_used: fmts.len(),
        }
    }
    pub fn sizes(&self) -> Value {
        json!({"short_formula_strings": self.n_short_f, "formula_edit_neighbours": self.edits_f.len(),
            "tower_cases": self.towers.len(), "short_format_codes": self.n_short_n, "format_edit_neighbours": self.edits_n.len()})
    }
}

/// Largest n of c^n and of (cd)^n per entry group. The parser entry points are linear in the input; F4 cycling and
/// the number formatter are (at least) quadratic on this tree (0.1 s for 2000 characters), so their towers stay
/// short enough that a legitimately slow answer stays far below the watchdog.
fn tower_bounds(entry: &str, thorough: bool) -> (usize, usize) {
    match entry {
        "cycle" | "format" => (1_000, 100),
        _ => (100_000, if thorough { 10_000 } else { 1_000 }),
    }
}

fn tower_string(case: &Value) -> String {
    let c = case["c"].as_str().unwrap_or("");
    let d = case["d"].as_str().unwrap_or("");
    let n = case["n"].as_u64().unwrap_or(0) as usize;
    let mut s = String::with_capacity((c.len() + d.len()) * n);
    for _ in 0..n {
        s.push_str(c);
        s.push_str(d);
    }
    s
}

struct Ctx<'a> {
    case: &'a Value,
    ds: Vec<Disagreement>,
    calls: u64,
    outcome: String,
    nontrivial: bool,
}

impl Ctx<'_> {
    /// Runs one call of the subject under a panic guard.
    fn guard<R>(&mut self, entry: &str, what: &str, f: impl FnOnce() -> R) -> Option<R> {
        self.calls += 1;
        match crate::env::guarded(f) {
            Ok(r) => Some(r),
            Err(p) => {
                let at = isolate::panic_sig(&p);
                self.ds.push(Disagreement {
                    sig: format!("panic entry={} {}", entry, at),
                    case: self.case.clone(),
                    detail: format!("{} panicked: {}\n{}", entry, p, what),
                });
                None
            }
        }
    }
}

fn node_kind(n: &Node) -> &'static str {
    match n {
        Node::ParseErrorKind { .. } => "parse-error",
        Node::ErrorKind(_) => "error-literal",
        Node::NumberKind(_) => "number",
        Node::StringKind(_) => "string",
        Node::BooleanKind(_) => "boolean",
        Node::ReferenceKind { .. } => "reference",
        Node::RangeKind { .. } => "range",
        Node::FunctionKind { .. } => "function",
        Node::OpSumKind { .. } | Node::OpProductKind { .. } | Node::OpPowerKind { .. } => "arith",
        Node::CompareKind { .. } => "compare",
        Node::UnaryKind { .. } => "unary",
        Node::ArrayKind(_) => "array",
        _ => "other",
    }
}

fn show(s: &str) -> String {
    let t: String = s.chars().take(60).flat_map(|c| c.escape_debug()).collect();
    if s.chars().count() > 60 {
        format!("`{}…` ({} chars)", t, s.chars().count())
    } else {
        format!("`{}`", t)
    }
}

fn cursors(len: usize, all: bool) -> Vec<usize> {
    if all {
        (0..=len + 1).collect()
    } else {
        let mut v = vec![0, 1, len / 2, len.saturating_sub(1), len, len + 1];
        v.sort_unstable();
        v.dedup();
        v
    }
}

fn run_parse(cx: &mut Ctx, s: &str, mode_r1c1: bool, stage: &mut dyn FnMut(&str)) {
    let entry = if mode_r1c1 { "Parser::parse[R1C1]" } else { "Parser::parse[A1]" };
    stage(entry);
    let ctx_cell = CellReferenceRC {
        sheet: "Sheet1".to_string(),
        row: 2,
        column: 2,
    };
    for (lang, loc) in PAIRS {
        let language = get_language(lang).expect("language");
        let locale = get_locale(loc).expect("locale");
        let what = format!("input {} language={} locale={}", show(s), lang, loc);
        let r = cx.guard(entry, &what, || {
            let mut p = Parser::new(
                vec!["Sheet1".to_string(), "Sheet2".to_string(), "My Sheet".to_string()],
                vec![("name1".to_string(), None, "Sheet1!$A$1".to_string())],
                HashMap::new(),
                locale,
                language,
            );
            if mode_r1c1 {
                p.set_lexer_mode(LexerMode::R1C1);
            }
            let n = p.parse(s, &ctx_cell);
            node_kind(&n)
        });
        if let Some(k) = r {
            if k != "parse-error" {
                cx.nontrivial = true;
            }
            cx.outcome.push_str(k);
            cx.outcome.push('|');
        }
    }
}

fn run_cursor(cx: &mut Ctx, s: &str, mode: u8, stage: &mut dyn FnMut(&str)) {
    let all = mode != 2;
    stage("Parser::parse_at_cursor");
    let ctx_cell = CellReferenceRC {
        sheet: "Sheet1".to_string(),
        row: 1,
        column: 1,
    };
    let len = s.chars().count();
    let pairs: &[(&str, &str)] = if mode == 2 { &PAIRS[..1] } else { &PAIRS[..2] };
    for (lang, loc) in pairs {
        let language = get_language(lang).expect("language");
        let locale = get_locale(loc).expect("locale");
        let mut p = Parser::new(
            vec!["Sheet1".to_string()],
            vec![],
            HashMap::new(),
            locale,
            language,
        );
        for cur in cursors(len, all) {
            let what = format!("input {} cursor={} language={}", show(s), cur, lang);
            let r = cx.guard("Parser::parse_at_cursor", &what, || {
                let c = p.parse_at_cursor(s, cur, &ctx_cell);
                c.expecting.len()
            });
            if r.is_none() {
                // the parser may be left in any state after a panic: take a new one
                p = Parser::new(vec!["Sheet1".to_string()], vec![], HashMap::new(), locale, language);
            }
        }
    }
    stage("Model::formula_completion");
    let what = format!("input {}", show(s));
    if let Some(Ok(mut m)) = cx.guard("Model::new_empty", &what, || Model::new_empty("m", "en", "UTC", "en")) {
        let text = format!("={}", s);
        for cur in cursors(len + 1, all) {
            let what = format!("formula {} cursor={}", show(&text), cur);
            cx.guard("Model::formula_completion", &what, || {
                m.formula_completion(0, 1, 1, &text, cur).map(|c| c.replace_from).ok()
            });
        }
    }
}

/// `mode`: 0 = short string (every cursor pair, `=s` and `s`, two language/locale pairs), 1 = corpus neighbour
/// (every cursor pair on `=s`, English), 2 = tower (six cursors, `=s` and `s`, English).
fn run_cycle(cx: &mut Ctx, s: &str, mode: u8, stage: &mut dyn FnMut(&str)) {
    stage("Model::cycle_reference");
    let text = format!("={}", s);
    let pairs: &[(&str, &str)] = if mode == 0 { &PAIRS[..2] } else { &PAIRS[..1] };
    for (lang, loc) in pairs {
        let what = format!("value {}", show(&text));
        let m = match cx.guard("Model::new_empty", &what, || Model::new_empty("m", loc, "UTC", lang)) {
            Some(Ok(m)) => m,
            _ => return,
        };
        let plain = s.to_string();
        let values: Vec<&String> = if mode == 1 { vec![&text] } else { vec![&text, &plain] };
        for value in values {
            let len = value.chars().count();
            let cs = cursors(len, mode != 2);
            for &a in &cs {
                for &b in &cs {
                    let what = format!("value {} start={} end={} language={}", show(value), a, b, lang);
                    let r = cx.guard("Model::cycle_reference", &what, || {
                        m.cycle_reference(value, a, b).map(|(t, _, _)| t.len()).ok()
                    });
                    if let Some(Some(_)) = r {
                        cx.outcome.push('c');
                    }
                }
            }
        }
    }
}

/// True when the text contains a whole-column or whole-row range (`A:A`, `$1:2`): evaluating arithmetic over one
/// materialises a 10^6-cell array and its spill, which takes tens of seconds by design and is not a crash.
fn has_open_range(s: &str) -> bool {
    let ch: Vec<char> = s.chars().collect();
    let is_tok = |c: char| c.is_ascii_alphanumeric() || c == '$';
    for (i, c) in ch.iter().enumerate() {
        if *c != ':' {
            continue;
        }
        let mut a = i;
        while a > 0 && is_tok(ch[a - 1]) {
            a -= 1;
        }
        let mut b = i + 1;
        while b < ch.len() && is_tok(ch[b]) {
            b += 1;
        }
        let left: Vec<char> = ch[a..i].iter().copied().filter(|c| *c != '$').collect();
        let right: Vec<char> = ch[i + 1..b].iter().copied().filter(|c| *c != '$').collect();
        if left.is_empty() || right.is_empty() {
            continue;
        }
        let all_alpha = |v: &[char]| v.iter().all(|c| c.is_ascii_alphabetic());
        let all_digit = |v: &[char]| v.iter().all(|c| c.is_ascii_digit());
        if (all_alpha(&left) && all_alpha(&right)) || (all_digit(&left) && all_digit(&right)) {
            return true;
        }
    }
    false
}

fn run_model(cx: &mut Ctx, s: &str, stage: &mut dyn FnMut(&str)) {
    let text = format!("={}", s);
    for (lang, loc) in PAIRS {
        let what = format!("input {} language={} locale={}", show(s), lang, loc);
        stage("Model::set_user_input");
        let mut m = match cx.guard("Model::new_empty", &what, || Model::new_empty("m", loc, "UTC", lang)) {
            Some(Ok(m)) => m,
            _ => return,
        };
        let _ = m.set_user_input(0, 1, 2, "7".to_string());
        let ok1 = cx.guard("Model::set_user_input", &what, || m.set_user_input(0, 1, 1, s.to_string()).is_ok());
        let what2 = format!("input {} language={} locale={}", show(&text), lang, loc);
        let ok2 = cx.guard("Model::set_user_input", &what2, || m.set_user_input(0, 2, 1, text.clone()).is_ok());
        if ok1.is_none() || ok2.is_none() {
            continue;
        }
        if has_open_range(s) {
            cx.outcome.push_str("open-range|");
            continue;
        }
        stage("Model::evaluate");
        if cx.guard("Model::evaluate", &what2, || m.evaluate()).is_none() {
            continue;
        }
        stage("Model::read-back");
        for row in 1..=2 {
            let r = cx.guard("Model::get_localized_cell_content", &what2, || {
                m.get_localized_cell_content(0, row, 1).unwrap_or_default()
            });
            let v = cx.guard("Model::get_formatted_cell_value", &what2, || {
                m.get_formatted_cell_value(0, row, 1).unwrap_or_default()
            });
            if let (Some(_), Some(v)) = (r, v) {
                if lang == "en" {
                    cx.outcome.push_str(&v.chars().take(12).collect::<String>());
                    cx.outcome.push('|');
                }
            }
        }
    }
}

fn run_usermodel(cx: &mut Ctx, s: &str, stage: &mut dyn FnMut(&str)) {
    if has_open_range(s) {
        return;
    }
    stage("UserModel::set_user_input");
    let text = format!("={}", s);
    let what = format!("input {}", show(s));
    let mut um = match cx.guard("UserModel::new_empty", &what, || UserModel::new_empty("m", "en", "UTC", "en")) {
        Some(Ok(m)) => m,
        _ => return,
    };
    let a = cx.guard("UserModel::set_user_input", &what, || um.set_user_input(0, 1, 1, s).is_ok());
    let what2 = format!("input {}", show(&text));
    let b = cx.guard("UserModel::set_user_input", &what2, || um.set_user_input(0, 2, 1, &text).is_ok());
    if a.is_none() || b.is_none() {
        return;
    }
    stage("UserModel::read-back");
    cx.guard("UserModel::get_cell_content", &what2, || um.get_cell_content(0, 2, 1).unwrap_or_default());
    cx.guard("UserModel::get_formatted_cell_value", &what2, || {
        um.get_formatted_cell_value(0, 2, 1).unwrap_or_default()
    });
    cx.guard("UserModel::undo", &what2, || um.undo().is_ok());
}

fn locales() -> Vec<String> {
    let mut v = ironcalc_base::get_supported_locales();
    v.sort();
    v
}

fn run_format(cx: &mut Ctx, code: &str, tower: bool, stage: &mut dyn FnMut(&str)) {
    stage("format_number");
    for (li, loc) in locales().into_iter().enumerate() {
        // towers: two locales and four numbers (the formatter is super-linear in the length of the code)
        if tower && li >= 2 {
            break;
        }
        let locale = get_locale(&loc).expect("locale");
        for (xi, x) in NUMBERS.into_iter().enumerate() {
            if tower && !matches!(xi, 0 | 2 | 4 | 8) {
                continue;
            }
            let what = format!("format code {} value={:?} locale={}", show(code), x, loc);
            let r = cx.guard("format_number", &what, || {
                let f = format_number(x, code, locale);
                (f.error.is_none(), f.text)
            });
            if let Some((ok, text)) = r {
                if ok {
                    cx.nontrivial = true;
                }
                if x == 1.0 && loc == "en" {
                    cx.outcome.push_str(if ok { "ok:" } else { "err:" });
                    cx.outcome.push_str(&text.chars().take(16).collect::<String>());
                }
            }
        }
    }
}

fn fnv64(s: &str) -> u64 {
    let mut h: u64 = 0xcbf29ce484222325;
    for b in s.bytes() {
        h ^= b as u64;
        h = h.wrapping_mul(0x100000001b3);
    }
    h
}

impl Job for C11Job {
    fn n_cases(&self) -> usize {
        self.n_short_f + self.edits_f.len() + self.towers.len() + self.n_short_n + self.edits_n.len()
    }
    fn case_json(&self, idx: usize) -> Value {
        let mut k = idx;
        if k < self.n_short_f {
            return json!({"family": "short", "s": short_string(&SIGMA_F, self.len_f, k)});
        }
        k -= self.n_short_f;
        if k < self.edits_f.len() {
            return json!({"family": "edit", "s": self.edits_f[k]});
        }
        k -= self.edits_f.len();
        if k < self.towers.len() {
            let (c, d, n, e) = self.towers[k];
            let sigma: &[&str] = if ENTRIES[e] == "format" { &SIGMA_N } else { &SIGMA_F };
            let (cs, dstr) = (sigma[c], if d == usize::MAX { "" } else { sigma[d] });
            // class of the repeated construct, used to narrow abort / hang signatures
            let both = format!("{}{}", cs, dstr);
            let hint = if both.contains('(') {
                "paren-nesting".to_string()
            } else if both.contains('{') {
                "brace-nesting".to_string()
            } else if both.chars().any(|ch| "+-*/^&=<>".contains(ch)) {
                "operator-chain".to_string()
            } else {
                format!("tower({})", both.escape_debug())
            };
            return json!({"family": "tower", "c": cs, "d": dstr, "n": n, "entry": ENTRIES[e], "hint": hint});
        }
        k -= self.towers.len();
        if k < self.n_short_n {
            return json!({"family": "format-short", "code": short_string(&SIGMA_N, self.len_n, k)});
        }
        k -= self.n_short_n;
        match self.edits_n.get(k) {
            Some(c) => json!({"family": "format-edit", "code": c}),
            None => Value::Null,
        }
    }
    fn run_case(&self, case: &Value, stage: &mut dyn FnMut(&str)) -> CaseOut {
        let mut cx = Ctx {
            case,
            ds: vec![],
            calls: 0,
            outcome: String::new(),
            nontrivial: false,
        };
        match case["family"].as_str().unwrap_or("") {
            "short" | "edit" => {
                let s = case["s"].as_str().unwrap_or("").to_string();
                run_parse(&mut cx, &s, false, stage);
                run_parse(&mut cx, &s, true, stage);
                let mode = if case["family"] == "short" { 0 } else { 1 };
                run_cursor(&mut cx, &s, mode, stage);
                run_cycle(&mut cx, &s, mode, stage);
                run_model(&mut cx, &s, stage);
                run_usermodel(&mut cx, &s, stage);
            }
            "tower" => {
                let s = tower_string(case);
                match case["entry"].as_str().unwrap_or("") {
                    "parse-a1" => run_parse(&mut cx, &s, false, stage),
                    "parse-r1c1" => run_parse(&mut cx, &s, true, stage),
                    "cursor" => run_cursor(&mut cx, &s, 2, stage),
                    "cycle" => run_cycle(&mut cx, &s, 2, stage),
                    "model" => run_model(&mut cx, &s, stage),
                    "usermodel" => run_usermodel(&mut cx, &s, stage),
                    "format" => run_format(&mut cx, &s, true, stage),
                    _ => {}
                }
                // a tower is non-trivial when it is long enough to matter
                cx.nontrivial = case["n"].as_u64().unwrap_or(0) >= 1000;
            }
            "format-short" | "format-edit" => {
                let code = case["code"].as_str().unwrap_or("").to_string();
                run_format(&mut cx, &code, false, stage);
            }
            _ => {}
        }
        CaseOut {
            ds: cx.ds,
            nontrivial: cx.nontrivial,
            outcome: fnv64(&cx.outcome),
            calls: cx.calls,
        }
    }
}

pub fn job(tier: Tier) -> Box<dyn Job> {
    Box::new(C11Job::new(tier))
}

pub fn run(run: &mut Run) {
    let job = C11Job::new(run.tier);
    let n = job.n_cases();
    let sum = isolate::run_isolated(
        run,
        "C11",
        n,
        &|i| job.case_json(i),
        &isolate::Opts {
            watchdog_s: WATCHDOG_S,
            batch: if run.tier.thorough() { 16_384 } else { 2_048 },
            wall_cap_s: if run.tier.thorough() { 1200.0 } else { 150.0 },
        },
    );
    run.evaluations = sum.cases_run;
    run.states = sum.cases_run;
    run.traces = sum.cases_run;
    run.transitions = sum.calls;
    run.nontrivial = sum.nontrivial;
    run.distinct_outcomes = sum.outcomes.len() as u64;
    run.exhaustive = run.cap_hit.is_none();
    run.bound = json!({
        "formula_alphabet": SIGMA_F.to_vec(), "formula_length": job.len_f,
        "corpus_formulas": job.corpus_used, "towers_n": TOWER_N, "tower_entry_groups": ENTRIES,
        "format_alphabet": SIGMA_N.to_vec(), "format_length": job.len_n, "builtin_formats": job.formats_used,
        "numbers": NUMBERS.iter().map(|x| format!("{:?}", x)).collect::<Vec<_>>(), "locales": locales(),
        "language_locale_pairs": PAIRS, "cases": job.sizes(),
        "isolation": {"worker_processes": sum.worker_processes, "deaths": sum.deaths, "hangs": sum.hangs, "transient_losses": sum.transient,
            "watchdog_s": WATCHDOG_S, "rlimit_as_gib": 4, "stack_mib": 8},
    });
    run.rule = "every string of the stated families through Parser::parse (A1 and R1C1 lexer), Parser::parse_at_cursor and Model::formula_completion at every cursor 0..=len+1, Model::cycle_reference at every (start,end) pair in 0..=len+1 (incl. start>end), Model::set_user_input + evaluate + read-back and UserModel::set_user_input (+undo), in four language/locale pairs; every format code x 14 numbers (incl. NaN, +-inf, +-1E308, the date limits) x all locales through format_number. Towers run one entry group per case at cursors {0,1,len/2,len-1,len,len+1}. non-trivial = the string is accepted by at least one parser mode / the format code formats at least one number without error / a tower of >= 1000 repetitions".into();
    for i in [n / 7, n / 2, n.saturating_sub(1)] {
        if n > 0 {
            run.sample(job.case_json(i));
        }
    }
    run.assume("strings longer than the stated length that are neither edit-distance-1 neighbours of the corpus nor towers are not covered (the set of all Unicode strings is infinite)");
    run.assume("termination = each case finishes within the per-case watchdog in a worker with RLIMIT_AS 4 GiB and an 8 MiB stack");
    run.assume("parse_formatted_number is crate-private; it is reached through set_user_input only");
    run.assume("inputs containing a whole-column or whole-row range (A:A, 1:1) are parsed, completed, cycled and stored through Model::set_user_input but not evaluated (and not given to UserModel, which evaluates on input): arithmetic over such a range materialises a 10^6-cell array, slow by design");
    run.assume("towers for F4 cycling and the number formatter stop at 1000 (c^n) / 100 ((cd)^n) repetitions: both are super-linear on this tree (0.1 s per call at 2000 characters), which is slowness, not a crash");
}

pub fn replay(case: &Value) -> Vec<Disagreement> {
    isolate::replay_isolated("C11", case, WATCHDOG_S)
}

//! C11 (not built yet)
use crate::isolate::{CaseOut, Job};
use crate::report::{Disagreement, Run, Tier};
use serde_json::Value;

struct Empty;
impl Job for Empty {
    fn n_cases(&self) -> usize {
        0
    }
    fn case_json(&self, _: usize) -> Value {
        Value::Null
    }
    fn run_case(&self, _: &Value, _: &mut dyn FnMut(&str)) -> CaseOut {
        CaseOut::default()
    }
}
pub fn job(_tier: Tier) -> Box<dyn Job> {
    Box::new(Empty)
}

pub fn run(run: &mut Run) {
    run.machinery_errors.push("C11: check not built yet".into());
}

pub fn replay(_case: &Value) -> Vec<Disagreement> {
    vec![]
}

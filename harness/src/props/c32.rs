//! C32 Defined names are stable under edits.
//!
//! History enumeration (every word of length <= 2 quick, <= 3 thorough) on a workbook with a global cell
//! name, a global range name, a sheet-local name shadowing the global cell name and a LAMBDA name (whose body
//! has a decimal and a multi-argument call), and cells on three sheets reading them. Alphabet: set language
//! x5, set locale x6, rename / move / delete / duplicate / add sheet, rename a name, re-scope a name,
//! to_bytes+from_bytes, xlsx export+import, insert / delete rows. The last operation of each word is judged:
//! the STORED English formula of every name must be unchanged by everything that does not edit it (language,
//! locale, both round trips, operations on other sheets), must follow a rename of its sheet exactly, and every
//! cell reading a name keeps its value; renaming a name rewrites the formulas bound to it and no other.

use crate::props::c17::{printed, replace_qualifier};
use crate::report::{Disagreement, Run};
use ironcalc_base::cell::CellValue;
use ironcalc_base::{Model, UserModel};
use serde::{Deserialize, Serialize};
use serde_json::{json, Value};
use std::collections::{BTreeMap, HashSet};
use std::sync::OnceLock;

pub const LANGS: [&str; 5] = ["en", "es", "fr", "de", "it"];
const COL: i32 = 3;
const ROWS: i32 = 12;

#[derive(Clone, PartialEq, Debug, Serialize, Deserialize)]
pub enum Op {
    Language(String),
    Locale(String),
    RenameSheet(u32, String),
    MoveSheet(u32, u32),
    DeleteSheet(u32),
    DuplicateSheet(u32),
    NewSheet,
    /// rename the name (name, scope) to the new name, same scope and formula
    RenameName(String, Option<u32>, String),
    /// move the name (name, scope) to the new scope, same name and formula
    Rescope(String, Option<u32>, Option<u32>),
    /// one edit that renames the name AND moves it to another scope (same formula)
    RenameRescope(String, Option<u32>, String, Option<u32>),
    BytesRoundTrip,
    XlsxRoundTrip,
    InsertRows(u32, i32, i32),
    DeleteRows(u32, i32, i32),
}

impl Op {
    fn kind(&self) -> &'static str {
        match self {
            Op::Language(_) => "set-language",
            Op::Locale(_) => "set-locale",
            Op::RenameSheet(..) => "rename-sheet",
            Op::MoveSheet(..) => "move-sheet",
            Op::DeleteSheet(..) => "delete-sheet",
            Op::DuplicateSheet(..) => "duplicate-sheet",
            Op::NewSheet => "new-sheet",
            Op::RenameName(..) => "rename-name",
            Op::Rescope(..) => "rescope-name",
            Op::RenameRescope(..) => "rename-and-rescope-name",
            Op::BytesRoundTrip => "bytes-round-trip",
            Op::XlsxRoundTrip => "xlsx-round-trip",
            Op::InsertRows(..) => "insert-rows",
            Op::DeleteRows(..) => "delete-rows",
        }
    }
}

pub fn locales() -> Vec<String> {
    let have = ironcalc_base::get_supported_locales();
    let mut v: Vec<String> = ["en", "en-GB", "de", "fr", "es", "it"]
        .iter()
        .filter(|l| have.iter().any(|h| h == *l))
        .map(|s| s.to_string())
        .collect();
    let mut rest: Vec<String> = have.into_iter().filter(|h| !v.contains(h)).collect();
    rest.sort();
    while v.len() < 6 && !rest.is_empty() {
        v.push(rest.remove(0));
    }
    v
}

pub fn alphabet() -> Vec<Op> {
    let s = |x: &str| x.to_string();
    let mut v = vec![];
    for l in LANGS {
        v.push(Op::Language(s(l)));
    }
    for l in locales() {
        v.push(Op::Locale(l));
    }
    v.extend(vec![
        Op::RenameSheet(0, s("Data")),
        Op::RenameSheet(1, s("Loc Al")),
        Op::RenameSheet(2, s("Other")),
        Op::MoveSheet(0, 2),
        Op::MoveSheet(2, 0),
        Op::DeleteSheet(2),
        Op::DeleteSheet(1),
        Op::DuplicateSheet(0),
        Op::DuplicateSheet(2),
        Op::NewSheet,
        Op::RenameName(s("gcell"), None, s("gcell2")),
        Op::RenameName(s("grange"), None, s("rng")),
        Op::RenameName(s("addtax"), None, s("plus")),
        Op::RenameName(s("gcell"), Some(1), s("lcell")),
        Op::Rescope(s("grange"), None, Some(0)),
        Op::Rescope(s("gcell"), Some(1), Some(2)),
        Op::RenameRescope(s("grange"), None, s("rangetwo"), Some(0)),
        Op::RenameRescope(s("gcell"), Some(1), s("lcell2"), None),
        Op::BytesRoundTrip,
        Op::XlsxRoundTrip,
        Op::InsertRows(0, 2, 1),
        Op::InsertRows(2, 1, 1),
        Op::DeleteRows(0, 5, 1),
        Op::DeleteRows(2, 1, 1),
    ]);
    v
}

fn seed_bytes() -> &'static [u8] {
    static B: OnceLock<Vec<u8>> = OnceLock::new();
    B.get_or_init(|| {
        let mut m = Model::new_empty("c32", "en", "UTC", "en").expect("new_empty");
        m.add_sheet("Sheet2").expect("add");
        m.add_sheet("Sheet3").expect("add");
        for (s, r, v) in [(0, 1, "7"), (0, 2, "3"), (0, 3, "0.25"), (1, 1, "100"), (2, 1, "5")] {
            m.set_user_input(s, r, 1, v.to_string()).expect("input");
        }
        m.new_defined_name("gcell", None, "Sheet1!$A$1").expect("name");
        m.new_defined_name("grange", None, "Sheet1!$A$1:$A$3").expect("name");
        m.new_defined_name("gcell", Some(1), "Sheet2!$A$1").expect("name");
        m.new_defined_name("addtax", None, "=LAMBDA(x,x*1.5+SUM(Sheet1!$A$1:$A$2,0.5))").expect("lambda name");
        for (s, r, f) in [
            (0, 1, "=gcell*2"),
            (0, 3, "=SUM(grange)"),
            (0, 4, "=addtax(10)"),
            (1, 1, "=gcell*2"),
            (1, 3, "=SUM(grange)"),
            (2, 2, "=gcell+SUM(grange)"),
            (2, 3, "=addtax(1)"),
        ] {
            m.set_user_input(s, r, COL, f.to_string()).expect("formula");
        }
        m.evaluate();
        m.to_bytes()
    })
}

fn static_lang(l: &str) -> &'static str {
    LANGS.iter().find(|x| **x == l).copied().unwrap_or("en")
}

/// Applies one operation; round trips replace the model.
fn apply(um: UserModel<'static>, op: &Op) -> Result<UserModel<'static>, (String, Option<UserModel<'static>>)> {
    let mut um = um;
    let name_formula = |um: &UserModel, name: &str, scope: Option<u32>| -> Result<String, String> {
        um.get_defined_name_list()
            .into_iter()
            .find(|(n, s, _)| n.eq_ignore_ascii_case(name) && *s == scope)
            .map(|(_, _, f)| f)
            .ok_or_else(|| "harness: no such name".to_string())
    };
    let r: Result<(), String> = match op {
        Op::Language(l) => um.set_language(static_lang(l)),
        Op::Locale(l) => um.set_locale(l),
        Op::RenameSheet(i, n) => um.rename_sheet(*i, n),
        Op::MoveSheet(i, j) => um.move_sheet(*i, *j),
        Op::DeleteSheet(i) => um.delete_sheet(*i),
        Op::DuplicateSheet(i) => um.duplicate_sheet(*i),
        Op::NewSheet => um.new_sheet(),
        Op::RenameName(n, sc, n2) => match name_formula(&um, n, *sc) {
            Ok(f) => um.update_defined_name(n, *sc, n2, *sc, &f),
            Err(e) => Err(e),
        },
        Op::Rescope(n, sc, sc2) => match name_formula(&um, n, *sc) {
            Ok(f) => um.update_defined_name(n, *sc, n, *sc2, &f),
            Err(e) => Err(e),
        },
        Op::RenameRescope(n, sc, n2, sc2) => match name_formula(&um, n, *sc) {
            Ok(f) => um.update_defined_name(n, *sc, n2, *sc2, &f),
            Err(e) => Err(e),
        },
        Op::InsertRows(s, r, n) => um.insert_rows(*s, *r, *n),
        Op::DeleteRows(s, r, n) => um.delete_rows(*s, *r, *n),
        Op::BytesRoundTrip => {
            let lang = static_lang(&um.get_language());
            let b = um.to_bytes();
            return match UserModel::from_bytes(&b, lang) {
                Ok(u) => Ok(u),
                Err(e) => Err((format!("from_bytes: {}", e), Some(um))),
            };
        }
        Op::XlsxRoundTrip => {
            let lang = static_lang(&um.get_language());
            let locale = um.get_locale();
            let bytes = match crate::xlsxutil::export_bytes(um.get_model()) {
                Ok(b) => b,
                Err(e) => return Err((format!("export: {}", e), Some(um))),
            };
            return match crate::xlsxutil::import_model(&bytes, lang) {
                Ok(m) => {
                    let mut u = UserModel::from_model(m);
                    // the importer is given a locale by its caller; give it the one the workbook had
                    match u.set_locale(&locale) {
                        Ok(()) => Ok(u),
                        Err(e) => Err((format!("set_locale after import: {}", e), Some(u))),
                    }
                }
                Err(e) => Err((format!("import: {}", e), Some(um))),
            };
        }
    };
    match r {
        Ok(()) => Ok(um),
        Err(e) => Err((e, Some(um))),
    }
}

#[derive(Clone, Debug)]
pub struct NameObs {
    name: String,
    /// scope as sheet position
    scope: Option<usize>,
    stored: String,
}

pub struct Snap {
    sheets: Vec<String>,
    names: Vec<NameObs>,
    /// (sheet position, row) -> (formula text, value)
    readers: BTreeMap<(usize, i32), (String, String)>,
}

fn value_text(v: &Result<CellValue, String>) -> String {
    match v {
        Ok(CellValue::None) => "<empty>".into(),
        Ok(CellValue::String(s)) => format!("\"{}\"", s),
        Ok(CellValue::Number(n)) => format!("{:?}", n),
        Ok(CellValue::Boolean(b)) => format!("{}", b),
        Err(e) => format!("<error {}>", e),
    }
}

fn snap(um: &UserModel) -> Snap {
    let m = um.get_model();
    let sheets: Vec<String> = m.workbook.worksheets.iter().map(|w| w.get_name()).collect();
    let ids: Vec<u32> = m.workbook.worksheets.iter().map(|w| w.sheet_id).collect();
    let names = m
        .workbook
        .defined_names
        .iter()
        .map(|d| NameObs {
            name: d.name.clone(),
            scope: d.sheet_id.and_then(|id| ids.iter().position(|x| *x == id)).or(d.sheet_id.map(|_| usize::MAX)),
            // the spelling with or without a leading `=` is the same formula
            stored: d.formula.trim_start().strip_prefix('=').unwrap_or(d.formula.trim_start()).to_string(),
        })
        .collect();
    let mut readers = BTreeMap::new();
    for s in 0..sheets.len() {
        for row in 1..=ROWS {
            let text = m.get_cell_formula(s as u32, row, COL).ok().flatten().unwrap_or_default();
            if !text.is_empty() {
                readers.insert((s, row), (text, value_text(&m.get_cell_value_by_index(s as u32, row, COL))));
            }
        }
    }
    Snap { sheets, names, readers }
}

fn name_kind(n: &NameObs) -> String {
    let shape = if n.stored.to_uppercase().contains("LAMBDA") {
        "lambda"
    } else if n.stored.contains(':') {
        "range"
    } else {
        "cell"
    };
    format!("{}-{}", if n.scope.is_some() { "local" } else { "global" }, shape)
}

/// where the sheet at position `p` is after the operation (None: deleted)
fn pos_after(op: &Op, p: usize) -> Option<usize> {
    match op {
        Op::MoveSheet(i, j) => {
            let (i, j) = (*i as usize, *j as usize);
            if p == i {
                Some(j)
            } else if i < j && p > i && p <= j {
                Some(p - 1)
            } else if j < i && p >= j && p < i {
                Some(p + 1)
            } else {
                Some(p)
            }
        }
        Op::DeleteSheet(k) => {
            let k = *k as usize;
            if p == k {
                None
            } else if p > k {
                Some(p - 1)
            } else {
                Some(p)
            }
        }
        Op::DuplicateSheet(k) => {
            if p > *k as usize {
                Some(p + 1)
            } else {
                Some(p)
            }
        }
        _ => Some(p),
    }
}

fn row_after(op: &Op, p: usize, row: i32) -> Option<i32> {
    match op {
        Op::InsertRows(s, r, n) if *s as usize == p && row >= *r => Some(row + n),
        Op::DeleteRows(s, r, n) if *s as usize == p && row >= *r => {
            if row < r + n {
                None
            } else {
                Some(row - n)
            }
        }
        _ => Some(row),
    }
}

fn references(stored: &str, sheet: &str) -> bool {
    replace_qualifier(stored, &printed(sheet), "\u{1}") != stored
}

/// does the stored formula name a sheet that does not exist (in `sheets`)?
fn over_missing(stored: &str, sheets: &[String]) -> bool {
    let mut t = stored.to_string();
    for sh in sheets {
        t = replace_qualifier(&t, &printed(sh), "");
    }
    // existing qualifiers are gone (a bare `!` is left); a missing sheet's name still stands in front of its `!`
    let b = t.as_bytes();
    b.iter().enumerate().any(|(i, c)| {
        *c == b'!' && i > 0 && {
            let p = b[i - 1] as char;
            p.is_alphanumeric() || p == '\'' || p == '_'
        }
    })
}

#[derive(Default)]
pub struct CaseOut {
    found: Vec<(String, String)>,
    cut: bool,
    compared: u64,
    unspecified: u64,
    outcome: u128,
}

pub fn judge(word: &[Op]) -> CaseOut {
    let mut out = CaseOut::default();
    let mut um = UserModel::from_bytes(seed_bytes(), "en").expect("seed");
    let (prefix, last) = word.split_at(word.len() - 1);
    for p in prefix {
        match crate::env::guarded(|| apply(um, p)) {
            Ok(Ok(u)) => um = u,
            _ => {
                out.cut = true;
                return out;
            }
        }
    }
    um.evaluate();
    let op = &last[0];
    let before = snap(&um);
    let head = format!("op={}", op.kind());
    // operations that address something that is not there are not judged
    let n_sheets = before.sheets.len();
    let addressed_ok = match op {
        Op::RenameSheet(i, _) | Op::DeleteSheet(i) | Op::DuplicateSheet(i) | Op::InsertRows(i, ..) | Op::DeleteRows(i, ..) => {
            (*i as usize) < n_sheets
        }
        Op::MoveSheet(i, j) => (*i as usize) < n_sheets && (*j as usize) < n_sheets,
        _ => true,
    };
    if !addressed_ok {
        out.cut = true;
        return out;
    }
    let mut um = match crate::env::guarded(move || apply(um, op)) {
        Err(p) => {
            out.found.push((
                format!("{} panic at={}", head, p.split(" @ ").last().unwrap_or("")),
                format!("{:?} panicked: {}", op, p),
            ));
            return out;
        }
        Ok(Err((e, _))) => {
            // a round trip or a language / locale switch must not fail; the rest may be refused legitimately
            if matches!(op, Op::BytesRoundTrip | Op::XlsxRoundTrip | Op::Language(_) | Op::Locale(_)) {
                out.found.push((format!("{} failed", head), format!("{:?} failed: {}", op, e)));
            } else {
                out.cut = true;
            }
            return out;
        }
        Ok(Ok(u)) => u,
    };
    um.evaluate();
    let after = snap(&um);
    out.outcome = crate::env::digest(&format!(
        "{:?}{:?}{:?}",
        after.sheets,
        after.names.iter().map(|n| (&n.name, n.scope, &n.stored)).collect::<Vec<_>>(),
        after.readers
    ));
    // ---- stored formulas
    for n in &before.names {
        let kind = name_kind(n);
        // where this name should be found afterwards
        let mut exp_name = n.name.clone();
        let mut exp_scope = match n.scope {
            Some(p) if p != usize::MAX => match pos_after(op, p) {
                Some(q) => Some(q),
                None => {
                    out.unspecified += 1; // scoped to the deleted sheet
                    continue;
                }
            },
            Some(_) => {
                out.unspecified += 1; // scope already dangling
                continue;
            }
            None => None,
        };
        match op {
            Op::RenameName(name, sc, n2) if n.name.eq_ignore_ascii_case(name) && n.scope == sc.map(|x| x as usize) => {
                exp_name = n2.clone();
            }
            Op::Rescope(name, sc, sc2) if n.name.eq_ignore_ascii_case(name) && n.scope == sc.map(|x| x as usize) => {
                exp_scope = sc2.map(|x| x as usize);
            }
            Op::RenameRescope(name, sc, n2, sc2) if n.name.eq_ignore_ascii_case(name) && n.scope == sc.map(|x| x as usize) => {
                exp_name = n2.clone();
                exp_scope = sc2.map(|x| x as usize);
            }
            _ => {}
        }
        let expected: Option<String> = match op {
            Op::RenameSheet(i, new) => {
                let old = &before.sheets[*i as usize];
                Some(replace_qualifier(&n.stored, &printed(old), &printed(new)))
            }
            Op::DeleteSheet(i) | Op::InsertRows(i, ..) | Op::DeleteRows(i, ..) => {
                if references(&n.stored, &before.sheets[*i as usize]) {
                    None
                } else {
                    Some(n.stored.clone())
                }
            }
            _ => Some(n.stored.clone()),
        };
        let got = after
            .names
            .iter()
            .find(|a| a.name.eq_ignore_ascii_case(&exp_name) && a.scope == exp_scope);
        match (got, expected) {
            (None, _) => out.found.push((
                format!("{} name-lost name={}", head, kind),
                format!("{:?}: name `{}` (scope {:?}) is not there afterwards; names now: {:?}", op, exp_name, exp_scope,
                    after.names.iter().map(|a| (&a.name, a.scope)).collect::<Vec<_>>()),
            )),
            (Some(_), None) => out.unspecified += 1,
            (Some(a), Some(e)) => {
                out.compared += 1;
                if a.stored != e {
                    out.found.push((
                        format!("{} stored-formula name={} over-missing-sheet={}", head, kind, over_missing(&n.stored, &before.sheets)),
                        format!("{:?}: stored formula of `{}` was `{}`, is `{}`, expected `{}`", op, n.name, n.stored, a.stored, e),
                    ));
                }
            }
        }
    }
    // ---- readers
    // which definition a reader on sheet position p binds to for identifier `id` (state before)
    let binds = |p: usize, id: &str| -> Option<Option<usize>> {
        if before.names.iter().any(|n| n.name.eq_ignore_ascii_case(id) && n.scope == Some(p)) {
            Some(Some(p))
        } else if before.names.iter().any(|n| n.name.eq_ignore_ascii_case(id) && n.scope.is_none()) {
            Some(None)
        } else {
            None
        }
    };
    for ((p, row), (text, value)) in &before.readers {
        let q = match pos_after(op, *p) {
            Some(q) => q,
            None => continue,
        };
        let r2 = match row_after(op, *p, *row) {
            Some(r) => r,
            None => continue,
        };
        let (atext, avalue) = match after.readers.get(&(q, r2)) {
            Some(x) => x.clone(),
            None => {
                out.found.push((
                    format!("{} reader-lost", head),
                    format!("{:?}: formula `{}` (sheet {}, row {}) is not at sheet {}, row {} afterwards", op, text, p, row, q, r2),
                ));
                continue;
            }
        };
        let reads = |id: &str| text.to_lowercase().contains(&id.to_lowercase());
        let value_specified = match op {
            // re-scoping changes what a name means where; renaming a name onto/away from a shadowing one too
            Op::Rescope(..) | Op::RenameRescope(..) => false,
            Op::RenameName(_, _, _) => true,
            // deleting a sheet breaks the names over it and their readers
            Op::DeleteSheet(i) => !before.names.iter().any(|n| reads(&n.name) && references(&n.stored, &before.sheets[*i as usize])),
            // deleting rows may delete what a name points at
            Op::DeleteRows(i, ..) => !before.names.iter().any(|n| reads(&n.name) && references(&n.stored, &before.sheets[*i as usize])),
            // error values are spelled in the active language
            Op::Language(_) => !value.starts_with("\"#"),
            // a new sheet name can make a broken reference resolve again
            Op::NewSheet | Op::DuplicateSheet(_) => !value.starts_with("\"#"),
            _ => true,
        };
        if !value_specified {
            out.unspecified += 1;
        } else {
            out.compared += 1;
            if avalue != *value {
                let which: Vec<String> = before.names.iter().filter(|n| reads(&n.name)).map(name_kind).collect::<std::collections::BTreeSet<_>>().into_iter().collect();
                let over = match op {
                    Op::InsertRows(i, ..) | Op::DeleteRows(i, ..) => format!(
                        " over-edited-sheet={}",
                        before.names.iter().any(|n| reads(&n.name) && references(&n.stored, &before.sheets[*i as usize]))
                    ),
                    _ => String::new(),
                };
                let miss = before.names.iter().any(|n| reads(&n.name) && over_missing(&n.stored, &before.sheets));
                out.found.push((
                    format!("{} value{} over-missing-sheet={} reader-of={}", head, over, miss, which.join("+")),
                    format!("{:?}: `{}` had value {}, now `{}` has value {}", op, text, value, atext, avalue),
                ));
            }
        }
        let renamed = match op {
            Op::RenameName(name, sc, n2) => Some((name, sc, n2)),
            Op::RenameRescope(name, sc, n2, _) => Some((name, sc, n2)),
            _ => None,
        };
        // a reader on a sheet that cannot see the name in its new scope stops resolving whichever spelling it keeps
        // (the statement's rename clause is about renames that change no value): its text is not compared
        let loses_sight = matches!(op, Op::RenameRescope(_, _, _, Some(s2)) if *s2 as usize != *p);
        if loses_sight {
            out.unspecified += 1;
            continue;
        }
        if let Some((name, sc, n2)) = renamed {
            let bound = binds(*p, name) == Some(sc.map(|x| x as usize));
            let exp = if bound && reads(name) { replace_ident(text, name, n2) } else { text.clone() };
            out.compared += 1;
            if atext != exp {
                let nk = before
                    .names
                    .iter()
                    .find(|n| n.name.eq_ignore_ascii_case(name) && n.scope == sc.map(|x| x as usize))
                    .map(name_kind)
                    .unwrap_or_default();
                out.found.push((
                    format!("{} reader-text name={} bound={}", head, nk, bound),
                    format!("{:?}: `{}` became `{}`, expected `{}`", op, text, atext, exp),
                ));
            }
        }
    }
    let mut seen = HashSet::new();
    out.found.retain(|(s, _)| seen.insert(s.clone()));
    out
}

/// replaces the identifier `old` (whole word, any letter case) by `new`
fn replace_ident(text: &str, old: &str, new: &str) -> String {
    let lower = text.to_lowercase();
    let pat = old.to_lowercase();
    let mut out = String::new();
    let mut i = 0;
    while let Some(k) = lower[i..].find(&pat) {
        let s = i + k;
        let e = s + pat.len();
        let before_ok = text[..s].chars().last().map(|c| !(c.is_alphanumeric() || c == '_' || c == '.')).unwrap_or(true);
        let after_ok = text[e..].chars().next().map(|c| !(c.is_alphanumeric() || c == '_' || c == '.')).unwrap_or(true);
        out.push_str(&text[i..s]);
        if before_ok && after_ok {
            out.push_str(new);
        } else {
            out.push_str(&text[s..e]);
        }
        i = e;
    }
    out.push_str(&text[i..]);
    out
}

fn case_json(word: &[Op]) -> Value {
    json!({"ops": word})
}

pub fn run(run: &mut Run) {
    let thorough = run.tier.thorough();
    let alpha = alphabet();
    let a = alpha.len();
    let max_len = if thorough { 3 } else { 2 };
    // anchor: the seed workbook itself computes what the names say (the words compare before/after only)
    {
        let um = UserModel::from_bytes(seed_bytes(), "en").expect("seed");
        let got: Vec<String> = snap(&um).readers.values().map(|(_, v)| v.clone()).collect();
        let want = ["14.0", "10.25", "25.5", "200.0", "10.25", "17.25", "12.0"];
        if got != want {
            run.add(Disagreement {
                sig: "seed-workbook-values".into(),
                case: json!({"ops": []}),
                detail: format!("the cells reading the names compute {:?}, expected {:?}", got, want),
            });
        }
    }
    // prefixes of length 2 (thorough) use the alphabet without the operations that only repeat another one
    // with a different argument (two of the languages, two of the locales, two row edits)
    let redundant = |o: &Op| match o {
        Op::Language(l) => l == "es" || l == "it",
        Op::Locale(l) => l == "es" || l == "it",
        Op::InsertRows(2, ..) | Op::DeleteRows(0, ..) => true,
        // 10-30 ms each; as a prefix it is covered by the words of length 2
        Op::XlsxRoundTrip => true,
        _ => false,
    };
    let mut prefixes: Vec<Vec<usize>> = vec![vec![]];
    let mut level: Vec<Vec<usize>> = vec![vec![]];
    for depth in 1..max_len {
        let mut next = vec![];
        for p in &level {
            for i in 0..a {
                if depth == 2 && (redundant(&alpha[i]) || redundant(&alpha[p[0]])) {
                    continue;
                }
                let mut q = p.clone();
                q.push(i);
                next.push(q);
            }
        }
        prefixes.extend(next.iter().cloned());
        level = next;
    }
    let res = crate::env::par_units(prefixes.len(), |u| {
        let prefix = &prefixes[u];
        let mut found: BTreeMap<String, (u64, Value, String)> = BTreeMap::new();
        let (mut cases, mut cut, mut compared, mut unspec, mut steps) = (0u64, 0u64, 0u64, 0u64, 0u64);
        let mut outcomes = HashSet::new();
        for op in &alpha {
            let mut word: Vec<Op> = prefix.iter().map(|i| alpha[*i].clone()).collect();
            word.push(op.clone());
            let o = judge(&word);
            if o.cut {
                cut += 1;
                continue;
            }
            cases += 1;
            steps += word.len() as u64;
            compared += o.compared;
            unspec += o.unspecified;
            outcomes.insert(o.outcome);
            for (sig, detail) in o.found {
                match found.get_mut(&sig) {
                    Some(e) => e.0 += 1,
                    None => {
                        found.insert(sig, (1, case_json(&word), detail));
                    }
                }
            }
        }
        (found, cases, cut, compared, unspec, steps, outcomes)
    });
    let mut outcomes = HashSet::new();
    let (mut cut, mut compared, mut unspec) = (0u64, 0u64, 0u64);
    for r in res {
        match r {
            Ok((found, cases, c, cmp, un, steps, oc)) => {
                run.evaluations += cases;
                run.transitions += steps;
                cut += c;
                compared += cmp;
                unspec += un;
                outcomes.extend(oc);
                for (sig, (n, case, detail)) in found {
                    run.add(Disagreement { sig: sig.clone(), case, detail });
                    if let Some(e) = run.clusters.get_mut(&sig) {
                        e.0 += n - 1;
                    }
                }
            }
            Err(e) => run.machinery_errors.push(format!("unit panicked: {}", e)),
        }
    }
    run.traces = run.evaluations;
    run.states = outcomes.len() as u64;
    run.distinct_outcomes = outcomes.len() as u64;
    run.nontrivial = run.evaluations;
    run.bound = json!({
        "alphabet_size": a,
        "alphabet": alpha,
        "word_length": format!("<={}", max_len),
        "prefix_alphabet_of_length_3_words": "the alphabet without Language(es,it), Locale(es,it), InsertRows(2,..), DeleteRows(0,..), XlsxRoundTrip in the first two positions; full alphabet in the last position",
        "names": ["gcell (global cell)", "grange (global range)", "gcell (local to Sheet2, shadows)", "addtax (LAMBDA with a decimal and a two-argument SUM)"],
        "readers": 7,
        "histories_cut_at_refused_operation": cut,
        "comparisons": compared,
        "unspecified_not_compared": unspec,
    });
    run.rule = "every word of the stated length over the alphabet on a fresh copy of the workbook (prefix all Ok); the last operation is judged: stored English formula of every name (expected: unchanged, or the sheet qualifier rewritten by a rename of its sheet), presence of every name, value of every reading cell, and for a rename of a name the text of every reading cell. Every case is non-trivial (every name is read on every sheet)".into();
    run.sample(case_json(&[alpha[3].clone()]));
    run.sample(case_json(&[alpha[8].clone(), alpha[11].clone()]));
    run.sample(case_json(&[alpha[a - 5].clone(), alpha[a - 6].clone()]));
    run.exhaustive = true;
    run.assume("not compared (counted as unspecified): stored formulas of names over a sheet whose rows are inserted/deleted or that is deleted, names scoped to a deleted sheet, values of readers after a re-scope and of readers of names over a deleted sheet / deleted rows");
    run.assume("after the xlsx import the harness sets the workbook's previous locale again (the importer takes its locale from the caller)");
    run.assume("names are identified by (name, scope position); sheet positions follow the operation (move, delete, duplicate)");
}

pub fn replay(case: &Value) -> Vec<Disagreement> {
    let word: Vec<Op> = match serde_json::from_value(case["ops"].clone()) {
        Ok(w) => w,
        Err(_) => return vec![],
    };
    if word.is_empty() {
        let um = UserModel::from_bytes(seed_bytes(), "en").expect("seed");
        let got: Vec<String> = snap(&um).readers.values().map(|(_, v)| v.clone()).collect();
        let want = ["14.0", "10.25", "25.5", "200.0", "10.25", "17.25", "12.0"];
        if got != want {
            return vec![Disagreement {
                sig: "seed-workbook-values".into(),
                case: case.clone(),
                detail: format!("the cells reading the names compute {:?}, expected {:?}", got, want),
            }];
        }
        return vec![];
    }
    judge(&word)
        .found
        .into_iter()
        .map(|(sig, detail)| Disagreement { sig, case: case.clone(), detail })
        .collect()
}

//! C14 Inserting then deleting the same rows or columns is the identity.
//!
//! Workbooks of `structural::specs` without the observers of the very last rows/columns (so that no insertion pushes a
//! reference off the grid); for every position and count: insert(k at p) then delete(k at p), through both APIs.
//! Oracle: the complete observation (`obs::observe_model`: contents, kinds, values, formulas, styles, links,
//! row/column sizes, hidden flags and styles, defined names) before and after must be equal.

use crate::obs::{self, ObsOpts};
use crate::report::{Disagreement, Run};
use crate::structural::{self as st, Api, Axis, Built, Eng, SOp, Spec};
use serde_json::{json, Value};
use std::collections::BTreeSet;

pub fn ops(thorough: bool, axis: Axis) -> Vec<(i32, i32)> {
    let mut v = vec![];
    let kmax = if thorough { 3 } else { 2 };
    for p in 1..=7 {
        for k in 1..=kmax {
            v.push((p, k));
        }
    }
    v.push((axis.last() - 6, kmax));
    v.push((axis.last() - 10, 1));
    v
}

fn opts() -> ObsOpts {
    ObsOpts {
        rows: 16,
        cols: 16,
        view: false,
        values: true,
    }
}

/// what lives at a cell path of the observation (for the signature)
fn owner(b: &Built, path: &str) -> String {
    // "s0.R3C2.value"
    let mut it = path.split('.');
    let s = it.next().unwrap_or("");
    let rc = it.next().unwrap_or("");
    if !rc.starts_with('R') {
        return obs::field_class(path);
    }
    let sheet: u32 = s.trim_start_matches('s').parse().unwrap_or(9);
    let (r, c) = match rc[1..].split_once('C') {
        Some((r, c)) => (r.parse::<i32>().unwrap_or(0), c.parse::<i32>().unwrap_or(0)),
        None => return "cell".into(),
    };
    let axis = b.spec.axis;
    if sheet == 0 {
        for d in &b.data {
            if axis.rc(d.t, d.lane) == (r, c) {
                return format!("data:{}", d.what);
            }
        }
    }
    for o in &b.observers {
        if o.sheet == sheet && o.row == r && o.col == c {
            return format!("observer:{}", o.form);
        }
    }
    "blank-cell".into()
}

pub fn run_case(b: &Built, before: &obs::Obs, api: Api, p: i32, k: i32) -> (Option<Vec<Disagreement>>, u128) {
    let axis = b.spec.axis;
    let case = json!({"prop": "C14", "spec": b.spec, "api": api, "p": p, "k": k});
    let mut eng = Eng::load(&b.bytes, api);
    let r = crate::env::guarded(|| -> Result<(), String> {
        eng.apply(0, axis, &SOp::Insert { p, k })?;
        Ok(())
    });
    match r {
        Err(pn) => {
            return (
                Some(vec![Disagreement {
                    sig: format!("panic insert {} at={}", axis.name(), pn.split(" @ ").last().unwrap_or("")),
                    case,
                    detail: pn,
                }]),
                0,
            )
        }
        Ok(Err(_)) => return (None, 0),
        Ok(Ok(())) => {}
    }
    let mid = obs::digest(&obs::observe_model(eng.model(), &opts()));
    let r = crate::env::guarded(|| eng.apply(0, axis, &SOp::Delete { p, k }));
    match r {
        Err(pn) => {
            return (
                Some(vec![Disagreement {
                    sig: format!("panic delete-after-insert {} at={}", axis.name(), pn.split(" @ ").last().unwrap_or("")),
                    case,
                    detail: pn,
                }]),
                mid,
            )
        }
        Ok(Err(e)) => {
            return (
                Some(vec![Disagreement {
                    sig: format!("delete-after-insert-refused {}", axis.name()),
                    case,
                    detail: format!("insert({} at {}) was accepted, deleting the same {} {} is refused: {}", k, p, k, axis.name(), e),
                }]),
                mid,
            )
        }
        Ok(Ok(())) => {}
    }
    let after = obs::observe_model(eng.model(), &opts());
    if &after == before {
        return (Some(vec![]), mid);
    }
    let df = obs::diff(before, &after);
    let classes: BTreeSet<String> = df.iter().map(|(k, _, _)| obs::field_class(k)).collect();
    let owners: BTreeSet<String> = df.iter().map(|(k, _, _)| owner(b, k)).collect();
    let mut shape = BTreeSet::new();
    for (_, a, c) in &df {
        if c == "<absent>" {
            shape.insert("lost");
        }
        if a == "<absent>" {
            shape.insert("extra");
        }
        if c.contains("#REF!") && !a.contains("#REF!") {
            shape.insert("gains-#REF!");
        }
    }
    (
        Some(vec![Disagreement {
            sig: format!(
                "roundtrip {} fields={} owners={} shape={}",
                axis.name(),
                classes.into_iter().collect::<Vec<_>>().join(","),
                owners.into_iter().collect::<Vec<_>>().join(","),
                shape.into_iter().collect::<Vec<_>>().join("+")
            ),
            case,
            detail: format!(
                "insert({} at {}) then delete({} at {}) along {} changed the workbook:\n{}",
                k,
                p,
                k,
                p,
                axis.name(),
                obs::diff_text(&df, 8)
            ),
        }]),
        mid,
    )
}

pub fn run(run: &mut Run) {
    let thorough = run.tier.thorough();
    let specs = st::specs(thorough, false);
    let res = crate::env::par_units(specs.len(), |u| {
        let spec = &specs[u];
        let b = st::build(spec);
        let before = {
            let m = ironcalc_base::Model::from_bytes(&b.bytes, "en").expect("from_bytes");
            obs::observe_model(&m, &opts())
        };
        let mut ds = vec![];
        let (mut cases, mut ok) = (0u64, 0u64);
        let mut mids = BTreeSet::new();
        for api in [Api::Model, Api::User] {
            for (p, k) in ops(thorough, spec.axis) {
                cases += 1;
                let (r, mid) = run_case(&b, &before, api, p, k);
                if let Some(d) = r {
                    ok += 1;
                    mids.insert(mid);
                    ds.extend(d);
                }
            }
        }
        (ds, cases, ok, mids, before.len())
    });
    let mut outcomes = BTreeSet::new();
    let mut fields = 0u64;
    for r in res {
        match r {
            Ok((ds, cases, ok, mids, n)) => {
                run.evaluations += cases;
                run.traces += ok;
                run.transitions += 2 * ok;
                run.states += 2 * ok + 1;
                run.nontrivial += ok;
                fields += n as u64 * ok;
                outcomes.extend(mids);
                run.add_all(ds);
            }
            Err(e) => run.machinery_errors.push(e),
        }
    }
    run.distinct_outcomes = outcomes.len() as u64;
    run.extra.insert("observation_fields_compared".into(), json!(fields));
    let o0 = ops(thorough, specs[0].axis);
    run.sample(json!({"prop": "C14", "spec": specs[0], "api": "Model", "p": o0[0].0, "k": o0[0].1}));
    run.sample(json!({"prop": "C14", "spec": specs[specs.len() / 2], "api": "User", "p": o0[5].0, "k": o0[5].1}));
    run.sample(json!({"prop": "C14", "spec": specs[specs.len() - 1], "api": "User", "p": 7, "k": 1}));
    run.bound = json!({
        "workbooks": specs.len(),
        "orientations": ["rows", "columns"],
        "variants": 3,
        "interesting_contents": st::CONTENTS,
        "interesting_cells_per_workbook": if thorough { "1 (all variants) and 2 (variant 0, unordered content pairs at every position pair)" } else { "1" },
        "positions": "1..=7, last-6, last-10",
        "counts": if thorough { "1..=3" } else { "1..=2" },
        "apis": ["Model", "UserModel"],
        "hash_seed": crate::env::hash_seed(),
    });
    run.rule = "every accepted insertion followed by the deletion of the same band; non-trivial: the insertion itself changed the observation (distinct_outcomes counts the distinct intermediate states)".into();
    run.assume("no reference of these workbooks is pushed off the grid by the insertions (the nearest is 6 positions from the end, counts <= 3)");
    run.assume("observation = obs::observe_model over rows/columns 1..16 plus everything stored, both sheets, defined names included; Some(default) row/column style is observed as None (descriptor artefact, see DESIGN 2.3)");
    run.assume("hash-map iteration order fixed by VERIF_HASH_SEED for this run (listed seed only)");
}

pub fn replay(case: &Value) -> Vec<Disagreement> {
    let spec: Spec = match serde_json::from_value(case["spec"].clone()) {
        Ok(s) => s,
        Err(_) => return vec![],
    };
    let api: Api = serde_json::from_value(case["api"].clone()).unwrap_or(Api::Model);
    let p = case["p"].as_i64().unwrap_or(1) as i32;
    let k = case["k"].as_i64().unwrap_or(1) as i32;
    let b = st::build(&spec);
    let before = {
        let m = ironcalc_base::Model::from_bytes(&b.bytes, "en").expect("from_bytes");
        obs::observe_model(&m, &opts())
    };
    run_case(&b, &before, api, p, k).0.unwrap_or_default()
}

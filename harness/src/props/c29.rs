//! C29 Row and column attributes change independently.
//!
//! Explicit-state breadth-first search to closure. A state is a real descriptor layout (`cols`, `rows`, the
//! style-only cells that full-row / full-column styling leaves at intersections) together with the reference
//! arrays (size, hidden, style per observed column / row). Every transition writes the layout into a real
//! `Model` through the public fields, calls the real setter (through `Model` or through `UserModel`), reads
//! ALL getters of ALL observed columns and rows and compares them with the reference in which exactly the
//! addressed entries changed. Through `UserModel` each transition is additionally undone and the getters must
//! be back at the reference of the state before.
//!
//! After a disagreement the reference is re-read from the implementation (the transition is reported, the
//! search goes on from what the engine now holds), so every transition is judged on its own and one defect
//! does not cascade.

use crate::report::{Disagreement, Run};
use ironcalc_base::expressions::types::Area;
use ironcalc_base::types::{Cell, Col, Row, Style, Workbook};
use ironcalc_base::{Model, UserModel, COLUMN_WIDTH_FACTOR, ROW_HEIGHT_FACTOR};
use serde::{Deserialize, Serialize};
use serde_json::{json, Value};
use std::collections::{BTreeMap, HashSet};

const LAST_COLUMN: i32 = 16_384;
const LAST_ROW: i32 = 1_048_576;
const DEF_W: f64 = 90.0;
const ALT_W: f64 = 108.0;
const DEF_H: f64 = 25.0;
const ALT_H: f64 = 50.0;

/// observed columns / rows (operations address a prefix of 1..=5)
const OBS_COLS: [i32; 8] = [1, 2, 3, 4, 5, 6, 7, LAST_COLUMN];
const OBS_ROWS: [i32; 8] = [1, 2, 3, 4, 5, 6, 7, 100];

#[derive(Clone, Copy, PartialEq, Eq, Debug, Serialize, Deserialize)]
pub enum Axis {
    Col,
    Row,
}

#[derive(Clone, Copy, PartialEq, Eq, Debug, Serialize, Deserialize)]
pub enum Level {
    Model,
    User,
}

#[derive(Clone, PartialEq, Debug, Serialize, Deserialize)]
pub enum Op {
    /// set width / height of lo..=hi to the default-like value (false) or the other value (true)
    Size(Axis, i32, i32, bool),
    Hidden(Axis, i32, i32, bool),
    /// Model level only: set the whole style to s1 (1) or s2 (2)
    SetStyle(Axis, i32, u8),
    /// Model: delete_column_style / delete_row_style; UserModel: range_clear_formatting on the full band
    DelStyle(Axis, i32, i32),
    /// UserModel level only: update_range_style on the full band, font.b (1) or font.i (2) := true
    Merge(Axis, i32, i32, u8),
}

impl Op {
    fn axis(&self) -> Axis {
        match self {
            Op::Size(a, ..) | Op::Hidden(a, ..) | Op::SetStyle(a, ..) | Op::DelStyle(a, ..) | Op::Merge(a, ..) => *a,
        }
    }
    fn band(&self) -> (i32, i32) {
        match self {
            Op::Size(_, lo, hi, _) | Op::Hidden(_, lo, hi, _) | Op::DelStyle(_, lo, hi) | Op::Merge(_, lo, hi, _) => {
                (*lo, *hi)
            }
            Op::SetStyle(_, i, _) => (*i, *i),
        }
    }
    fn kind(&self) -> String {
        let ax = match self.axis() {
            Axis::Col => "column",
            Axis::Row => "row",
        };
        let (lo, hi) = self.band();
        let multi = if lo != hi { "s" } else { "" };
        match self {
            Op::Size(..) => format!("set-{}{}-size", ax, multi),
            Op::Hidden(_, _, _, true) => format!("hide-{}{}", ax, multi),
            Op::Hidden(_, _, _, false) => format!("unhide-{}{}", ax, multi),
            Op::SetStyle(..) => format!("set-{}-style", ax),
            Op::DelStyle(..) => format!("delete-{}{}-style", ax, multi),
            Op::Merge(..) => format!("update-{}{}-style", ax, multi),
        }
    }
}

/// Reference entry of one column / row. `size` is the width / height the column has when it is visible
/// (remembered while hidden); `style`: 0 none/default, 1 bold, 2 italic, 3 both, 99 anything else.
#[derive(Clone, PartialEq, Debug)]
pub struct Attr {
    size: f64,
    hidden: bool,
    style: u8,
}

#[derive(Clone, Debug)]
pub struct St {
    cols: Vec<Col>,
    rows: Vec<Row>,
    /// style-only cells (row, column, style index)
    cells: Vec<(i32, i32, i32)>,
    rc: Vec<Attr>,
    rr: Vec<Attr>,
}

fn style_of(id: u8) -> Style {
    let mut s = Style::default();
    if id & 1 != 0 {
        s.font.b = true;
    }
    if id & 2 != 0 {
        s.font.i = true;
    }
    s
}

fn style_id(s: &Option<Style>) -> u8 {
    match s {
        None => 0,
        Some(s) => {
            for id in 0..4u8 {
                if *s == style_of(id) {
                    return id;
                }
            }
            99
        }
    }
}

/// Base workbook: one sheet, the style pool holds default, bold, italic, bold+italic at indices 0..=3.
fn base_workbook() -> Workbook {
    let mut m = Model::new_empty("c29", "en", "UTC", "en").expect("new_empty");
    for id in 1..4u8 {
        let idx = m.workbook.styles.create_new_style(&style_of(id));
        assert_eq!(idx, id as i32, "style pool layout");
    }
    m.workbook
}

fn size_eq(a: f64, b: f64) -> bool {
    (a - b).abs() <= 1e-9
}

// ---------------------------------------------------------------------------------------------------------
// reading the implementation

struct Seen {
    visible: f64,
    actual: f64,
    hidden: bool,
    style: u8,
}

fn read(model: &Model, axis: Axis, i: i32) -> Result<Seen, String> {
    let ws = &model.workbook.worksheets[0];
    match axis {
        Axis::Col => Ok(Seen {
            visible: model.get_column_width(0, i)?,
            actual: ws.get_actual_column_width(i)?,
            hidden: model.is_column_hidden(0, i)?,
            style: style_id(&model.get_column_style(0, i)?),
        }),
        Axis::Row => {
            let actual = ws
                .rows
                .iter()
                .find(|r| r.r == i)
                .map(|r| r.height * ROW_HEIGHT_FACTOR)
                .unwrap_or(DEF_H);
            Ok(Seen {
                visible: model.get_row_height(0, i)?,
                actual,
                hidden: model.is_row_hidden(0, i)?,
                style: style_id(&model.get_row_style(0, i)?),
            })
        }
    }
}

fn read_all(model: &Model) -> Result<(Vec<Seen>, Vec<Seen>), String> {
    let mut c = vec![];
    for i in OBS_COLS {
        c.push(read(model, Axis::Col, i)?);
    }
    let mut r = vec![];
    for i in OBS_ROWS {
        r.push(read(model, Axis::Row, i)?);
    }
    Ok((c, r))
}

/// The reference a layout written through the public fields stands for (first covering descriptor wins).
fn ref_of_layout(cols: &[Col], rows: &[Row], styles: &dyn Fn(i32) -> u8) -> (Vec<Attr>, Vec<Attr>) {
    let rc = OBS_COLS
        .iter()
        .map(|c| match cols.iter().find(|d| d.min <= *c && *c <= d.max) {
            Some(d) => Attr {
                size: if d.custom_width { d.width * COLUMN_WIDTH_FACTOR } else { DEF_W },
                hidden: d.hidden,
                style: d.style.map(styles).unwrap_or(0),
            },
            None => Attr { size: DEF_W, hidden: false, style: 0 },
        })
        .collect();
    let rr = OBS_ROWS
        .iter()
        .map(|r| match rows.iter().find(|d| d.r == *r) {
            Some(d) => Attr { size: d.height * ROW_HEIGHT_FACTOR, hidden: d.hidden, style: styles(d.s) },
            None => Attr { size: DEF_H, hidden: false, style: 0 },
        })
        .collect();
    (rc, rr)
}

fn pool_style(i: i32) -> u8 {
    if (0..4).contains(&i) {
        i as u8
    } else {
        99
    }
}

// ---------------------------------------------------------------------------------------------------------
// the reference transition

fn expected(st: &St, op: &Op) -> (Vec<Attr>, Vec<Attr>) {
    let mut rc = st.rc.clone();
    let mut rr = st.rr.clone();
    let (lo, hi) = op.band();
    let (arr, obs): (&mut Vec<Attr>, &[i32]) = match op.axis() {
        Axis::Col => (&mut rc, &OBS_COLS),
        Axis::Row => (&mut rr, &OBS_ROWS),
    };
    for (k, i) in obs.iter().enumerate() {
        if *i < lo || *i > hi {
            continue;
        }
        let a = &mut arr[k];
        match op {
            Op::Size(ax, _, _, alt) => {
                a.size = match (ax, alt) {
                    (Axis::Col, false) => DEF_W,
                    (Axis::Col, true) => ALT_W,
                    (Axis::Row, false) => DEF_H,
                    (Axis::Row, true) => ALT_H,
                }
            }
            Op::Hidden(_, _, _, h) => a.hidden = *h,
            Op::SetStyle(_, _, s) => a.style = *s,
            Op::DelStyle(..) => a.style = 0,
            Op::Merge(_, _, _, bit) => {
                if a.style <= 3 {
                    a.style |= *bit
                }
            }
        }
    }
    (rc, rr)
}

fn apply_model(m: &mut Model, op: &Op) -> Result<(), String> {
    match op {
        Op::Size(Axis::Col, i, _, alt) => m.set_column_width(0, *i, if *alt { ALT_W } else { DEF_W }),
        Op::Size(Axis::Row, i, _, alt) => m.set_row_height(0, *i, if *alt { ALT_H } else { DEF_H }),
        Op::Hidden(Axis::Col, i, _, h) => m.set_column_hidden(0, *i, *h),
        Op::Hidden(Axis::Row, i, _, h) => m.set_row_hidden(0, *i, *h),
        Op::SetStyle(Axis::Col, i, s) => m.set_column_style(0, *i, &style_of(*s)),
        Op::SetStyle(Axis::Row, i, s) => m.set_row_style(0, *i, &style_of(*s)),
        Op::DelStyle(Axis::Col, i, _) => m.delete_column_style(0, *i),
        Op::DelStyle(Axis::Row, i, _) => m.delete_row_style(0, *i),
        Op::Merge(..) => Err("harness: Merge is a UserModel operation".into()),
    }
}

fn band_area(axis: Axis, lo: i32, hi: i32) -> Area {
    match axis {
        Axis::Col => Area { sheet: 0, row: 1, column: lo, width: hi - lo + 1, height: LAST_ROW },
        Axis::Row => Area { sheet: 0, row: lo, column: 1, width: LAST_COLUMN, height: hi - lo + 1 },
    }
}

fn apply_user(um: &mut UserModel, op: &Op) -> Result<(), String> {
    match op {
        Op::Size(Axis::Col, lo, hi, alt) => um.set_columns_width(0, *lo, *hi, if *alt { ALT_W } else { DEF_W }),
        Op::Size(Axis::Row, lo, hi, alt) => um.set_rows_height(0, *lo, *hi, if *alt { ALT_H } else { DEF_H }),
        Op::Hidden(Axis::Col, lo, hi, h) => um.set_columns_hidden(0, *lo, *hi, *h),
        Op::Hidden(Axis::Row, lo, hi, h) => um.set_rows_hidden(0, *lo, *hi, *h),
        Op::DelStyle(ax, lo, hi) => um.range_clear_formatting(&band_area(*ax, *lo, *hi)),
        Op::Merge(ax, lo, hi, bit) => um.update_range_style(
            &band_area(*ax, *lo, *hi),
            if *bit == 1 { "font.b" } else { "font.i" },
            "true",
        ),
        Op::SetStyle(..) => Err("harness: SetStyle is a Model operation".into()),
    }
}

// ---------------------------------------------------------------------------------------------------------
// judging one transition

#[derive(Clone, Debug)]
pub struct Wrong {
    sig: String,
    detail: String,
}

fn size_class(axis: Axis, v: f64) -> &'static str {
    let (d, a) = match axis {
        Axis::Col => (DEF_W, ALT_W),
        Axis::Row => (DEF_H, ALT_H),
    };
    if size_eq(v, 0.0) {
        "zero"
    } else if size_eq(v, d) {
        "default"
    } else if size_eq(v, a) {
        "alt"
    } else {
        "other"
    }
}

/// Compares what the getters say with the reference arrays; returns (token, line) per wrong entry. A token
/// names the role of the entry (target / other / other-axis), the descriptor it had in `ctx_state`, the
/// attribute and the class of the wrong value.
fn compare(
    op: &Op,
    ctx_state: &St,
    pre: (&[Attr], &[Attr]),
    exp: (&[Attr], &[Attr]),
    got: &(Vec<Seen>, Vec<Seen>),
) -> Vec<(String, String)> {
    let mut out = vec![];
    let (lo, hi) = op.band();
    for (axis, obs, pre, exp, got) in [
        (Axis::Col, &OBS_COLS[..], pre.0, exp.0, &got.0),
        (Axis::Row, &OBS_ROWS[..], pre.1, exp.1, &got.1),
    ] {
        for (k, i) in obs.iter().enumerate() {
            let e = &exp[k];
            let g = &got[k];
            let role = if axis != op.axis() {
                "other-axis"
            } else if *i >= lo && *i <= hi {
                "target"
            } else {
                "other"
            };
            let who = format!("{}[{}]", role, context(ctx_state, axis, *i));
            let name = format!("{}{}", if axis == Axis::Col { "column " } else { "row " }, i);
            if !size_eq(e.size, g.actual) {
                out.push((
                    format!("{}.size(got={})", who, size_class(axis, g.actual)),
                    format!("{}: size expected {} (was {}), engine holds {}", name, e.size, pre[k].size, g.actual),
                ));
            }
            if e.hidden != g.hidden {
                out.push((
                    format!("{}.hidden(got={})", who, g.hidden),
                    format!("{}: hidden expected {} (was {}), got {}", name, e.hidden, pre[k].hidden, g.hidden),
                ));
            }
            if e.style != g.style {
                let cls = if g.style == pre[k].style {
                    "kept-old"
                } else if g.style == 0 {
                    "none"
                } else {
                    "different"
                };
                out.push((
                    format!("{}.style(got={})", who, cls),
                    format!("{}: style expected {} (was {}), got {}", name, e.style, pre[k].style, g.style),
                ));
            }
            // the visible size getter must agree with (hidden, size)
            let ev = if g.hidden { 0.0 } else { g.actual };
            if !size_eq(ev, g.visible) {
                out.push((
                    format!("{}.visible-size-getter", who),
                    format!(
                        "{}: getter returns {} although hidden={} and the stored size is {}",
                        name, g.visible, g.hidden, g.actual
                    ),
                ));
            }
        }
    }
    out
}

/// Descriptor context of column / row `i` in a state.
fn context(st: &St, axis: Axis, i: i32) -> String {
    let mut t = vec![];
    match axis {
        Axis::Col => match st.cols.iter().find(|d| d.min <= i && i <= d.max) {
            None => t.push("no-descriptor"),
            Some(d) => {
                t.push(if d.min == d.max { "single-descriptor" } else { "span-descriptor" });
                if d.hidden {
                    t.push("hidden");
                }
            }
        },
        Axis::Row => match st.rows.iter().find(|d| d.r == i) {
            None => t.push("no-descriptor"),
            Some(d) => {
                t.push("single-descriptor");
                if d.hidden {
                    t.push("hidden");
                }
            }
        },
    }
    t.join("+")
}

/// One disagreement per distinct token (all lines of that token in the detail).
fn wrongs_of(head: &str, op: &Op, suffix: &str, found: Vec<(String, String)>) -> Vec<Wrong> {
    let mut by: BTreeMap<String, Vec<String>> = BTreeMap::new();
    for (t, l) in found {
        by.entry(t).or_default().push(l);
    }
    by.into_iter()
        .map(|(t, ls)| Wrong {
            sig: format!("{} wrong={}", head, t),
            detail: format!("{:?}{}\n{}", op, suffix, ls.join("\n")),
        })
        .collect()
}

fn load_layout(ws: &mut ironcalc_base::types::Worksheet, st: &St) {
    ws.cols = st.cols.clone();
    ws.rows = st.rows.clone();
    ws.sheet_data.clear();
    for (r, c, s) in &st.cells {
        ws.sheet_data.entry(*r).or_default().insert(*c, Cell::EmptyCell { s: *s });
    }
}

fn read_cells(ws: &ironcalc_base::types::Worksheet) -> Result<Vec<(i32, i32, i32)>, String> {
    let mut v = vec![];
    for (r, rd) in &ws.sheet_data {
        for (c, cell) in rd {
            match cell {
                Cell::EmptyCell { s } => v.push((*r, *c, *s)),
                other => return Err(format!("a style operation created a non-empty cell {:?} at R{}C{}", other, r, c)),
            }
        }
    }
    v.sort();
    Ok(v)
}

fn resync(got: &(Vec<Seen>, Vec<Seen>)) -> (Vec<Attr>, Vec<Attr>) {
    let f = |v: &Vec<Seen>| {
        v.iter()
            .map(|s| Attr { size: s.actual, hidden: s.hidden, style: s.style })
            .collect::<Vec<_>>()
    };
    (f(&got.0), f(&got.1))
}

pub struct Worker {
    level: Level,
    base: Workbook,
    model: Model<'static>,
}

impl Worker {
    pub fn new(level: Level) -> Worker {
        let base = base_workbook();
        let model = Model::from_workbook(base.clone(), "en").expect("from_workbook");
        Worker { level, base, model }
    }

    /// Runs one transition on the real code. Returns the successor (None after a panic / error) and the
    /// disagreements with the reference.
    pub fn step(&mut self, st: &St, op: &Op) -> (Option<St>, Vec<Wrong>, bool) {
        let (erc, err_) = expected(st, op);
        let nontrivial = erc != st.rc || err_ != st.rr;
        let mut wrongs = vec![];
        let lvl = match self.level {
            Level::Model => "model",
            Level::User => "user",
        };
        let head = format!("{} op={}", lvl, op.kind());
        let mut um_slot: Option<UserModel<'static>> = None;
        let res: Result<Result<(), String>, String> = match self.level {
            Level::Model => {
                load_layout(&mut self.model.workbook.worksheets[0], st);
                let m = &mut self.model;
                crate::env::guarded(|| apply_model(m, op))
            }
            Level::User => {
                let mut wb = self.base.clone();
                load_layout(&mut wb.worksheets[0], st);
                let model = Model::from_workbook(wb, "en").expect("from_workbook");
                let mut um = UserModel::from_model(model);
                let r = crate::env::guarded(|| apply_user(&mut um, op));
                um_slot = Some(um);
                r
            }
        };
        match res {
            Err(p) => {
                wrongs.push(Wrong {
                    sig: format!("{} panic at={}", head, p.split(" @ ").last().unwrap_or("")),
                    detail: format!("the operation panicked: {}", p),
                });
                if self.level == Level::Model {
                    // the shared model may be half-written: rebuild it
                    self.model = Model::from_workbook(self.base.clone(), "en").expect("from_workbook");
                }
                return (None, wrongs, nontrivial);
            }
            Ok(Err(e)) => {
                wrongs.push(Wrong {
                    sig: format!("{} error", head),
                    detail: format!("a valid operation was refused: {}", e),
                });
                return (None, wrongs, nontrivial);
            }
            Ok(Ok(())) => {}
        }
        let model: &Model = match &um_slot {
            Some(um) => um.get_model(),
            None => &self.model,
        };
        let got = match read_all(model) {
            Ok(g) => g,
            Err(e) => {
                wrongs.push(Wrong { sig: format!("{} getter-error", head), detail: e });
                return (None, wrongs, nontrivial);
            }
        };
        let found = compare(op, st, (&st.rc, &st.rr), (&erc, &err_), &got);
        let ws = &model.workbook.worksheets[0];
        let cells = match read_cells(ws) {
            Ok(c) => c,
            Err(e) => {
                wrongs.push(Wrong { sig: format!("{} content-cell-created", head), detail: e });
                return (None, wrongs, nontrivial);
            }
        };
        if self.level == Level::Model && !cells.is_empty() {
            wrongs.push(Wrong {
                sig: format!("{} cells-created", head),
                detail: format!("a Model-level attribute setter created cells {:?}", cells),
            });
        }
        let next = if found.is_empty() {
            St { cols: ws.cols.clone(), rows: ws.rows.clone(), cells, rc: erc, rr: err_ }
        } else {
            wrongs.extend(wrongs_of(&head, op, "", found));
            let (rc, rr) = resync(&got);
            St { cols: ws.cols.clone(), rows: ws.rows.clone(), cells, rc, rr }
        };
        // undo must lead back to the reference of the state before
        if let Some(mut um) = um_slot {
            match crate::env::guarded(|| um.undo()) {
                Err(p) => wrongs.push(Wrong {
                    sig: format!("{} undo panic at={}", head, p.split(" @ ").last().unwrap_or("")),
                    detail: format!("undo panicked: {}", p),
                }),
                Ok(Err(e)) => wrongs.push(Wrong {
                    sig: format!("{} undo error", head),
                    detail: format!("undo was refused: {}", e),
                }),
                Ok(Ok(())) => match read_all(um.get_model()) {
                    Err(e) => wrongs.push(Wrong { sig: format!("{} undo getter-error", head), detail: e }),
                    Ok(back) => {
                        // `pre` for the classification of a wrong style is the state after the operation
                        let found = compare(op, st, (&next.rc, &next.rr), (&st.rc, &st.rr), &back);
                        wrongs.extend(wrongs_of(&format!("{} undo", head), op, " then undo", found));
                    }
                },
            }
        }
        (Some(next), wrongs, nontrivial)
    }
}

// ---------------------------------------------------------------------------------------------------------
// state keys, JSON

fn key_of(st: &St, sort_rows: bool) -> u128 {
    use std::fmt::Write;
    let mut s = String::with_capacity(256);
    for c in &st.cols {
        let _ = write!(s, "c{},{},{},{},{},{:?};", c.min, c.max, c.width, c.custom_width, c.hidden, c.style);
    }
    let mut rows: Vec<&Row> = st.rows.iter().collect();
    if sort_rows {
        rows.sort_by_key(|r| r.r);
    }
    for r in rows {
        let _ = write!(s, "r{},{},{},{},{},{};", r.r, r.height, r.custom_format, r.custom_height, r.s, r.hidden);
    }
    for c in &st.cells {
        let _ = write!(s, "x{},{},{};", c.0, c.1, c.2);
    }
    for a in st.rc.iter().chain(st.rr.iter()) {
        let _ = write!(s, "a{},{},{};", a.size, a.hidden, a.style);
    }
    crate::env::digest(&s)
}

fn layout_json(st: &St) -> Value {
    json!({
        "cols": st.cols.iter().map(|c| json!([c.min, c.max, c.width, c.custom_width, c.hidden, c.style])).collect::<Vec<_>>(),
        "rows": st.rows.iter().map(|r| json!([r.r, r.height, r.custom_format, r.custom_height, r.s, r.hidden])).collect::<Vec<_>>(),
        "cells": st.cells.iter().map(|c| json!([c.0, c.1, c.2])).collect::<Vec<_>>(),
        "ref_cols": st.rc.iter().map(|a| json!([a.size, a.hidden, a.style])).collect::<Vec<_>>(),
        "ref_rows": st.rr.iter().map(|a| json!([a.size, a.hidden, a.style])).collect::<Vec<_>>(),
    })
}

fn layout_parse(v: &Value) -> Option<St> {
    let mut cols = vec![];
    for c in v["cols"].as_array()? {
        cols.push(Col {
            min: c[0].as_i64()? as i32,
            max: c[1].as_i64()? as i32,
            width: c[2].as_f64()?,
            custom_width: c[3].as_bool()?,
            hidden: c[4].as_bool()?,
            style: c[5].as_i64().map(|x| x as i32),
        });
    }
    let mut rows = vec![];
    for r in v["rows"].as_array()? {
        rows.push(Row {
            r: r[0].as_i64()? as i32,
            height: r[1].as_f64()?,
            custom_format: r[2].as_bool()?,
            custom_height: r[3].as_bool()?,
            s: r[4].as_i64()? as i32,
            hidden: r[5].as_bool()?,
        });
    }
    let mut cells = vec![];
    for c in v["cells"].as_array()? {
        cells.push((c[0].as_i64()? as i32, c[1].as_i64()? as i32, c[2].as_i64()? as i32));
    }
    let attrs = |v: &Value| -> Option<Vec<Attr>> {
        let mut out = vec![];
        for a in v.as_array()? {
            out.push(Attr { size: a[0].as_f64()?, hidden: a[1].as_bool()?, style: a[2].as_u64()? as u8 });
        }
        Some(out)
    };
    Some(St { cols, rows, cells, rc: attrs(&v["ref_cols"])?, rr: attrs(&v["ref_rows"])? })
}

fn case_json(level: Level, st: &St, op: &Op, start: &str, path: &[Op]) -> Value {
    json!({"level": level, "before": layout_json(st), "op": op, "reached_from": start, "reached_by": path})
}

// ---------------------------------------------------------------------------------------------------------
// start layouts

fn col(min: i32, max: i32, width: f64, custom_width: bool, hidden: bool, style: Option<i32>) -> Col {
    Col { min, max, width, custom_width, hidden, style }
}
fn row(r: i32, height: f64, custom_height: bool, hidden: bool, s: i32) -> Row {
    Row { r, height, custom_format: s != 0, custom_height, s, hidden }
}

fn start(cols: Vec<Col>, rows: Vec<Row>) -> St {
    let (rc, rr) = ref_of_layout(&cols, &rows, &pool_style);
    St { cols, rows, cells: vec![], rc, rr }
}

fn col_layouts() -> Vec<(&'static str, Vec<Col>)> {
    let alt = ALT_W / COLUMN_WIDTH_FACTOR;
    let def = DEF_W / COLUMN_WIDTH_FACTOR;
    vec![
        ("no-descriptors", vec![]),
        (
            "single-descriptors",
            vec![
                col(1, 1, alt, true, false, None),
                col(2, 2, def, false, true, Some(1)),
                col(3, 3, alt, true, true, Some(2)),
            ],
        ),
        ("span-2-4", vec![col(2, 4, alt, true, false, Some(1))]),
        ("hidden-span-2-4", vec![col(2, 4, alt, true, true, None)]),
        ("whole-grid-styled", vec![col(1, LAST_COLUMN, def, false, false, Some(2))]),
        (
            "imported-like",
            vec![col(1, 2, alt, true, false, Some(1)), col(3, LAST_COLUMN, 9.0, false, false, None)],
        ),
    ]
}

fn row_layouts() -> Vec<(&'static str, Vec<Row>)> {
    let alt = ALT_H / ROW_HEIGHT_FACTOR;
    let def = DEF_H / ROW_HEIGHT_FACTOR;
    vec![
        ("no-descriptors", vec![]),
        (
            "single-descriptors",
            vec![row(1, alt, true, false, 1), row(2, def, false, true, 0), row(3, alt, true, true, 2)],
        ),
        (
            "unsorted-descriptors",
            vec![row(3, def, false, false, 2), row(1, 20.0, false, true, 0), row(2, alt, true, false, 1)],
        ),
    ]
}

// ---------------------------------------------------------------------------------------------------------
// the search

pub struct Plan {
    name: &'static str,
    level: Level,
    starts: Vec<(String, St)>,
    ops: Vec<Op>,
    sort_rows: bool,
}

fn model_ops(axis: Axis, n: i32) -> Vec<Op> {
    let mut v = vec![];
    for i in 1..=n {
        v.push(Op::Size(axis, i, i, false));
        v.push(Op::Size(axis, i, i, true));
        v.push(Op::Hidden(axis, i, i, true));
        v.push(Op::Hidden(axis, i, i, false));
        v.push(Op::SetStyle(axis, i, 1));
        v.push(Op::SetStyle(axis, i, 2));
        v.push(Op::DelStyle(axis, i, i));
    }
    v
}

fn user_ops(axis: Axis, n: i32) -> Vec<Op> {
    let mut v = vec![];
    for i in 1..=n {
        v.push(Op::Size(axis, i, i, false));
        v.push(Op::Size(axis, i, i, true));
        v.push(Op::Hidden(axis, i, i, true));
        v.push(Op::Hidden(axis, i, i, false));
        v.push(Op::Merge(axis, i, i, 1));
        v.push(Op::Merge(axis, i, i, 2));
        v.push(Op::DelStyle(axis, i, i));
    }
    // bands of two
    for i in 1..n {
        v.push(Op::Size(axis, i, i + 1, true));
        v.push(Op::Hidden(axis, i, i + 1, true));
        v.push(Op::Hidden(axis, i, i + 1, false));
        v.push(Op::Merge(axis, i, i + 1, 1));
        v.push(Op::DelStyle(axis, i, i + 1));
    }
    v
}

pub fn plans(thorough: bool) -> Vec<Plan> {
    let mut out = vec![];
    let styled_row = vec![row(2, DEF_H / ROW_HEIGHT_FACTOR, false, false, 2)];
    let styled_col = vec![col(2, 3, ALT_W / COLUMN_WIDTH_FACTOR, true, false, Some(1))];
    // Model level, columns
    let n = if thorough { 4 } else { 3 };
    let mut starts: Vec<(String, St)> = col_layouts()
        .into_iter()
        .map(|(name, cols)| (format!("cols:{}", name), start(cols, vec![])))
        .collect();
    starts.push(("cols:span-2-4 rows:styled-row-2".into(), start(col_layouts()[2].1.clone(), styled_row.clone())));
    out.push(Plan { name: "model-columns", level: Level::Model, starts, ops: model_ops(Axis::Col, n), sort_rows: false });
    // Model level, rows
    let n = if thorough { 4 } else { 3 };
    let mut starts: Vec<(String, St)> = row_layouts()
        .into_iter()
        .map(|(name, rows)| (format!("rows:{}", name), start(vec![], rows)))
        .collect();
    starts.push(("rows:single-descriptors cols:span-2-3".into(), start(styled_col.clone(), row_layouts()[1].1.clone())));
    out.push(Plan { name: "model-rows", level: Level::Model, starts, ops: model_ops(Axis::Row, n), sort_rows: true });
    // Model level, both axes
    let n = if thorough { 2 } else { 1 };
    let mut ops = model_ops(Axis::Col, n);
    ops.extend(model_ops(Axis::Row, n));
    let starts = vec![
        ("empty".to_string(), start(vec![], vec![])),
        ("cols:span-2-4 rows:single-descriptors".to_string(), start(col_layouts()[2].1.clone(), row_layouts()[1].1.clone())),
    ];
    out.push(Plan { name: "model-both-axes", level: Level::Model, starts, ops, sort_rows: true });
    // UserModel level, columns (a styled row present in some starts: full-column styling then writes cells)
    let n = if thorough { 3 } else { 2 };
    let mut starts: Vec<(String, St)> = col_layouts()
        .into_iter()
        .map(|(name, cols)| (format!("cols:{}", name), start(cols, vec![])))
        .collect();
    starts.push(("cols:no-descriptors rows:styled-row-2".into(), start(vec![], styled_row.clone())));
    starts.push(("cols:span-2-4 rows:styled-row-2".into(), start(col_layouts()[2].1.clone(), styled_row.clone())));
    out.push(Plan { name: "user-columns", level: Level::User, starts, ops: user_ops(Axis::Col, n), sort_rows: true });
    // UserModel level, rows
    let mut starts: Vec<(String, St)> = row_layouts()
        .into_iter()
        .map(|(name, rows)| (format!("rows:{}", name), start(vec![], rows)))
        .collect();
    starts.push(("rows:no-descriptors cols:span-2-3".into(), start(styled_col.clone(), vec![])));
    starts.push(("rows:single-descriptors cols:span-2-3".into(), start(styled_col.clone(), row_layouts()[1].1.clone())));
    out.push(Plan { name: "user-rows", level: Level::User, starts, ops: user_ops(Axis::Row, n), sort_rows: true });
    out
}

pub struct PlanOut {
    states: u64,
    transitions: u64,
    nontrivial: u64,
    depth: usize,
    closed: bool,
    /// sig -> (count, first witness)
    found: BTreeMap<String, (u64, Disagreement)>,
    errs: Vec<String>,
    samples: Vec<Value>,
}

struct Node {
    st: St,
    parent: u32,
    op: u16,
    start: u16,
}

fn path_of(nodes: &[Node], ops: &[Op], mut i: usize) -> Vec<Op> {
    let mut p = vec![];
    while nodes[i].parent != u32::MAX {
        p.push(ops[nodes[i].op as usize].clone());
        i = nodes[i].parent as usize;
    }
    p.reverse();
    p
}

pub fn search(plan: &Plan, max_states: usize) -> PlanOut {
    let mut out = PlanOut {
        states: 0,
        transitions: 0,
        nontrivial: 0,
        depth: 0,
        closed: false,
        found: BTreeMap::new(),
        errs: vec![],
        samples: vec![],
    };
    let mut seen: HashSet<u128> = HashSet::new();
    let mut nodes: Vec<Node> = vec![];
    // start states: the getters must agree with the layout's meaning before anything is done
    {
        let mut w = Worker::new(Level::Model);
        for (si, (name, st)) in plan.starts.iter().enumerate() {
            load_layout(&mut w.model.workbook.worksheets[0], st);
            match read_all(&w.model) {
                Ok(got) => {
                    let dummy = Op::Hidden(Axis::Col, 0, 0, false);
                    for w in wrongs_of("start-layout getters disagree", &dummy, "", compare(&dummy, st, (&st.rc, &st.rr), (&st.rc, &st.rr), &got)) {
                        out.found.insert(
                            w.sig.clone(),
                            (
                                1,
                                Disagreement {
                                    sig: w.sig,
                                    case: json!({"level": plan.level, "before": layout_json(st), "op": Value::Null, "reached_from": name}),
                                    detail: w.detail,
                                },
                            ),
                        );
                    }
                }
                Err(e) => out.errs.push(format!("start layout {}: {}", name, e)),
            }
            if seen.insert(key_of(st, plan.sort_rows)) {
                nodes.push(Node { st: st.clone(), parent: u32::MAX, op: 0, start: si as u16 });
            }
        }
    }
    let mut frontier: (usize, usize) = (0, nodes.len());
    let n_ops = plan.ops.len();
    loop {
        let (lo, hi) = frontier;
        if lo == hi {
            out.closed = true;
            break;
        }
        if nodes.len() > max_states {
            break;
        }
        let chunk = ((hi - lo).div_ceil(crate::env::workers() * 4)).max(1);
        let n_units = (hi - lo).div_ceil(chunk);
        let nodes_ref = &nodes;
        let seen_ref = &seen;
        let res = crate::env::par_units(n_units, |u| {
            let mut w = Worker::new(plan.level);
            let mut succ: Vec<(u128, St, u32, u16)> = vec![];
            let mut found: BTreeMap<String, (u64, u32, u16, String)> = BTreeMap::new();
            let mut local: HashSet<u128> = HashSet::new();
            let mut nontrivial = 0u64;
            let a = lo + u * chunk;
            let b = (a + chunk).min(hi);
            for i in a..b {
                let st = &nodes_ref[i].st;
                for (oi, op) in plan.ops.iter().enumerate() {
                    let (next, wrongs, nt) = w.step(st, op);
                    if nt {
                        nontrivial += 1;
                    }
                    for wr in wrongs {
                        let e = found.entry(wr.sig).or_insert((0, i as u32, oi as u16, wr.detail));
                        e.0 += 1;
                    }
                    if let Some(n) = next {
                        let k = key_of(&n, plan.sort_rows);
                        if !seen_ref.contains(&k) && local.insert(k) {
                            succ.push((k, n, i as u32, oi as u16));
                        }
                    }
                }
            }
            (succ, found, nontrivial)
        });
        out.transitions += ((hi - lo) * n_ops) as u64;
        for r in res {
            match r {
                Ok((succ, found, nt)) => {
                    out.nontrivial += nt;
                    for (k, st, parent, op) in succ {
                        if seen.insert(k) {
                            let start = nodes[parent as usize].start;
                            nodes.push(Node { st, parent, op, start });
                        }
                    }
                    for (sig, (n, i, oi, detail)) in found {
                        match out.found.get_mut(&sig) {
                            Some(e) => e.0 += n,
                            None => {
                                let node = &nodes[i as usize];
                                let path = path_of(&nodes, &plan.ops, i as usize);
                                let d = Disagreement {
                                    sig: sig.clone(),
                                    case: case_json(
                                        plan.level,
                                        &node.st,
                                        &plan.ops[oi as usize],
                                        &plan.starts[node.start as usize].0,
                                        &path,
                                    ),
                                    detail,
                                };
                                out.found.insert(sig, (n, d));
                            }
                        }
                    }
                }
                Err(e) => out.errs.push(format!("plan {}: unit panicked: {}", plan.name, e)),
            }
        }
        frontier = (hi, nodes.len());
        out.depth += 1;
    }
    out.states = nodes.len() as u64;
    for i in [0, nodes.len() / 2, nodes.len().saturating_sub(1)] {
        if let Some(n) = nodes.get(i) {
            let path = path_of(&nodes, &plan.ops, i);
            out.samples.push(json!({"plan": plan.name, "start": plan.starts[n.start as usize].0, "reached_by": path,
                "state": layout_json(&n.st)}));
        }
    }
    out
}

pub fn run(run: &mut Run) {
    let thorough = run.tier.thorough();
    let mut bounds = vec![];
    for plan in plans(thorough) {
        let t0 = std::time::Instant::now();
        let o = search(&plan, 6_000_000);
        if std::env::var("VERIF_TRIAGE").is_ok() {
            eprintln!("plan {} states={} transitions={} depth={} closed={} {:.1}s", plan.name, o.states, o.transitions, o.depth, o.closed, t0.elapsed().as_secs_f64());
        }
        run.states += o.states;
        run.transitions += o.transitions;
        run.evaluations += o.transitions;
        run.traces += o.transitions;
        run.nontrivial += o.nontrivial;
        run.distinct_outcomes += o.states;
        for e in o.errs {
            run.machinery_errors.push(e);
        }
        if !o.closed {
            run.cap_hit = Some(format!("plan {}: state cap reached before closure ({} states)", plan.name, o.states));
        }
        for (_, (n, d)) in o.found {
            let sig = d.sig.clone();
            run.add(d);
            if let Some(e) = run.clusters.get_mut(&sig) {
                e.0 += n - 1;
            }
        }
        if let Some(s) = o.samples.get(1) {
            run.sample(s.clone());
        }
        bounds.push(json!({
            "plan": plan.name,
            "through": plan.level,
            "start_layouts": plan.starts.iter().map(|s| s.0.clone()).collect::<Vec<_>>(),
            "operations": plan.ops.len(),
            "states": o.states,
            "transitions": o.transitions,
            "closure_depth": o.depth,
            "closed": o.closed,
            "rows_keyed_in_index_order": plan.sort_rows,
        }));
    }
    run.bound = json!({
        "plans": bounds,
        "observed_columns": OBS_COLS,
        "observed_rows": OBS_ROWS,
        "sizes": {"column": [DEF_W, ALT_W], "row": [DEF_H, ALT_H]},
        "styles": ["bold", "italic", "(UserModel: font.b / font.i merged into the current style)"],
    });
    run.rule = "breadth-first search to closure of the real descriptor layouts reachable from the start layouts; every (state, operation) pair is executed on the real code and all getters of all observed columns and rows are compared with reference arrays in which exactly the addressed entries changed; through UserModel every transition is also undone and compared with the state before. non-trivial = transitions whose operation changes the reference".into();
    run.exhaustive = run.cap_hit.is_none();
    run.assume("states are merged when descriptor vectors, style-only cells and reference arrays are equal (where stated, row descriptors compared in row order, not vector order)");
    run.assume("the size a hidden column / row will have when shown again is read with Worksheet::get_actual_column_width and from the public Row.height field");
    run.assume("Some(default style) and no style are the same row / column style (no getter of a cell tells them apart)");
    run.assume("after a disagreement the reference continues from what the engine holds, so each transition is judged on its own");
}

pub fn replay(case: &Value) -> Vec<Disagreement> {
    let level: Level = match serde_json::from_value(case["level"].clone()) {
        Ok(l) => l,
        Err(_) => return vec![],
    };
    let st = match layout_parse(&case["before"]) {
        Some(s) => s,
        None => return vec![],
    };
    if case["op"].is_null() {
        let mut w = Worker::new(Level::Model);
        load_layout(&mut w.model.workbook.worksheets[0], &st);
        return match read_all(&w.model) {
            Ok(got) => {
                let dummy = Op::Hidden(Axis::Col, 0, 0, false);
                wrongs_of("start-layout getters disagree", &dummy, "", compare(&dummy, &st, (&st.rc, &st.rr), (&st.rc, &st.rr), &got))
                    .into_iter()
                    .map(|w| Disagreement { sig: w.sig, case: case.clone(), detail: w.detail })
                    .collect()
            }
            Err(_) => vec![],
        };
    }
    let op: Op = match serde_json::from_value(case["op"].clone()) {
        Ok(o) => o,
        Err(_) => return vec![],
    };
    let mut w = Worker::new(level);
    let (_, wrongs, _) = w.step(&st, &op);
    wrongs
        .into_iter()
        .map(|w| Disagreement { sig: w.sig, case: case.clone(), detail: w.detail })
        .collect()
}

//! C30 Styles are stored and read back faithfully.
//!
//! Finite sweep: the default style with every single attribute deviation, every pair and every
//! triple of compatible deviations, assigned to a cell, a row and a column and read back; and every
//! assignment sequence of length 2 (thorough: 3) built from deviation tuples (unrelated styles, a style and
//! its one-deviation neighbour in both orders) over six target pairs, with and without a named style that
//! shares the first style and is updated between the assignments. After every assignment every assigned
//! target must read back exactly the style last assigned to it.

use crate::report::{Disagreement, Run};
use ironcalc_base::types::{
    Alignment, BorderItem, BorderStyle, Color, FontScheme, HorizontalAlignment, Style, StyleIncludes, Styles,
    VerticalAlignment,
};
use ironcalc_base::Model;
use serde::{Deserialize, Serialize};
use serde_json::{json, Value};
use std::collections::{BTreeMap, BTreeSet, HashSet};

pub struct Dev {
    key: String,
    name: String,
    f: Box<dyn Fn(&mut Style) + Send + Sync>,
}

fn dev(key: &str, name: String, f: impl Fn(&mut Style) + Send + Sync + 'static) -> Dev {
    Dev { key: key.to_string(), name, f: Box::new(f) }
}

fn rgb(s: &str) -> Color {
    Color::Rgb(s.to_string())
}

pub fn deviations() -> Vec<Dev> {
    let mut v = vec![];
    v.push(dev("font.b", "font.b".into(), |s| s.font.b = true));
    v.push(dev("font.i", "font.i".into(), |s| s.font.i = true));
    v.push(dev("font.u", "font.u".into(), |s| s.font.u = true));
    v.push(dev("font.strike", "font.strike".into(), |s| s.font.strike = true));
    for sz in [10, 14] {
        v.push(dev("font.sz", format!("font.sz={}", sz), move |s| s.font.sz = sz));
    }
    for (n, c) in [("rgb", rgb("#FF0000")), ("theme", Color::Theme(4, 0.0)), ("theme-tint", Color::Theme(4, 0.4))] {
        v.push(dev("font.color", format!("font.color={}", n), move |s| s.font.color = c.clone()));
    }
    v.push(dev("font.name", "font.name=Arial".into(), |s| s.font.name = "Arial".to_string()));
    v.push(dev("font.family", "font.family=1".into(), |s| s.font.family = 1));
    v.push(dev("font.scheme", "font.scheme=major".into(), |s| s.font.scheme = FontScheme::Major));
    v.push(dev("font.scheme", "font.scheme=none".into(), |s| s.font.scheme = FontScheme::None));
    for (n, c) in [("rgb", rgb("#00FF00")), ("theme-tint", Color::Theme(5, -0.25))] {
        v.push(dev("fill.color", format!("fill.color={}", n), move |s| s.fill.color = c.clone()));
    }
    for side in ["left", "right", "top", "bottom", "diagonal"] {
        for (bn, bs) in [("thin", BorderStyle::Thin), ("medium", BorderStyle::Medium), ("double", BorderStyle::Double)] {
            for (cn, c) in [("nocolor", Color::None), ("black", rgb("#000000"))] {
                let bs = bs.clone();
                v.push(dev(
                    &format!("border.{}", side),
                    format!("border.{}={}/{}", side, bn, cn),
                    move |s| {
                        let item = Some(BorderItem { style: bs.clone(), color: c.clone() });
                        match side {
                            "left" => s.border.left = item,
                            "right" => s.border.right = item,
                            "top" => s.border.top = item,
                            "bottom" => s.border.bottom = item,
                            _ => s.border.diagonal = item,
                        }
                    },
                ));
            }
        }
    }
    v.push(dev("border.diagonal_up", "border.diagonal_up".into(), |s| s.border.diagonal_up = true));
    v.push(dev("border.diagonal_down", "border.diagonal_down".into(), |s| s.border.diagonal_down = true));
    v.push(dev("alignment", "alignment=Some(default)".into(), |s| {
        s.alignment.get_or_insert_with(Alignment::default);
    }));
    for h in [
        HorizontalAlignment::Center,
        HorizontalAlignment::CenterContinuous,
        HorizontalAlignment::Distributed,
        HorizontalAlignment::Fill,
        HorizontalAlignment::Justify,
        HorizontalAlignment::Left,
        HorizontalAlignment::Right,
    ] {
        v.push(dev("alignment.horizontal", format!("alignment.horizontal={:?}", h), move |s| {
            s.alignment.get_or_insert_with(Alignment::default).horizontal = h.clone()
        }));
    }
    for a in [
        VerticalAlignment::Center,
        VerticalAlignment::Distributed,
        VerticalAlignment::Justify,
        VerticalAlignment::Top,
    ] {
        v.push(dev("alignment.vertical", format!("alignment.vertical={:?}", a), move |s| {
            s.alignment.get_or_insert_with(Alignment::default).vertical = a.clone()
        }));
    }
    v.push(dev("alignment.wrap_text", "alignment.wrap_text".into(), |s| {
        s.alignment.get_or_insert_with(Alignment::default).wrap_text = true
    }));
    // every built-in format code typed as a custom string, two custom codes, and Excel's spelling of general
    let mut codes: Vec<String> = vec![];
    for id in 1..=49 {
        let c = ironcalc_base::number_format::get_num_fmt(id, &[]);
        if c != "general" && !codes.contains(&c) {
            codes.push(c);
        }
    }
    codes.push("0.000".to_string());
    codes.push("yyyy-mm-dd".to_string());
    codes.push("General".to_string());
    // custom codes that differ only in letter case are different formats
    codes.push("0.0\" kg\"".to_string());
    codes.push("0.0\" KG\"".to_string());
    for c in codes {
        let cc = c.clone();
        v.push(dev("num_fmt", format!("num_fmt={}", c), move |s| s.num_fmt = cc.clone()));
    }
    v.push(dev("quote_prefix", "quote_prefix".into(), |s| s.quote_prefix = true));
    v
}

fn compatible(a: &Dev, b: &Dev) -> bool {
    if a.key == b.key {
        return false;
    }
    let al = |x: &Dev, y: &Dev| x.key == "alignment" && y.key.starts_with("alignment");
    !(al(a, b) || al(b, a))
}

fn build(devs: &[Dev], idx: &[usize]) -> Style {
    let mut s = Style::default();
    for i in idx {
        (devs[*i].f)(&mut s);
    }
    s
}

// ---------------------------------------------------------------------------------------------------------

#[derive(Clone, Copy, PartialEq, Eq, Debug, Serialize, Deserialize, PartialOrd, Ord)]
pub enum Target {
    Cell(i32, i32),
    Row(i32),
    Col(i32),
}

impl Target {
    fn kind(&self) -> &'static str {
        match self {
            Target::Cell(..) => "cell",
            Target::Row(..) => "row",
            Target::Col(..) => "column",
        }
    }
}

pub const TARGET_PAIRS: [(&str, Target, Target); 8] = [
    ("cell,cell", Target::Cell(1, 1), Target::Cell(2, 2)),
    ("cell,row", Target::Cell(1, 1), Target::Row(5)),
    ("cell,column", Target::Cell(1, 1), Target::Col(5)),
    ("row,column", Target::Row(5), Target::Col(7)),
    ("cell-in-row,row", Target::Cell(5, 1), Target::Row(5)),
    ("cell-in-column,column", Target::Cell(1, 5), Target::Col(5)),
    // two rows / two columns styled in descending order (descriptors are stored in the order they were created)
    ("row-hi,row-lo", Target::Row(10), Target::Row(5)),
    ("column-hi,column-lo", Target::Col(10), Target::Col(5)),
];

fn includes_all() -> StyleIncludes {
    StyleIncludes { number_format: true, font: true, fill: true, border: true, alignment: true, protection: true }
}

pub struct Worker {
    model: Model<'static>,
    base_styles: Styles,
}

impl Worker {
    pub fn new() -> Worker {
        let model = Model::new_empty("c30", "en", "UTC", "en").expect("new_empty");
        let base_styles = model.workbook.styles.clone();
        Worker { model, base_styles }
    }
    fn reset(&mut self) {
        self.model.workbook.styles = self.base_styles.clone();
        let ws = &mut self.model.workbook.worksheets[0];
        ws.sheet_data.clear();
        ws.rows.clear();
        ws.cols.clear();
    }
    fn assign(&mut self, t: Target, s: &Style) -> Result<(), String> {
        match t {
            Target::Cell(r, c) => self.model.set_cell_style(0, r, c, s),
            Target::Row(r) => self.model.set_row_style(0, r, s),
            Target::Col(c) => self.model.set_column_style(0, c, s),
        }
    }
    fn read(&self, t: Target) -> Result<Option<Style>, String> {
        match t {
            Target::Cell(r, c) => self.model.get_style_for_cell(0, r, c).map(Some),
            Target::Row(r) => self.model.get_row_style(0, r),
            Target::Col(c) => self.model.get_column_style(0, c),
        }
    }
}

impl Default for Worker {
    fn default() -> Self {
        Self::new()
    }
}

fn differs(a: &Style, b: &Style) -> String {
    let mut t = vec![];
    if a.alignment != b.alignment {
        t.push("alignment");
    }
    if a.num_fmt != b.num_fmt {
        t.push("num_fmt");
    }
    if a.fill != b.fill {
        t.push("fill");
    }
    if a.font != b.font {
        t.push("font");
    }
    if a.border != b.border {
        t.push("border");
    }
    if a.quote_prefix != b.quote_prefix {
        t.push("quote_prefix");
    }
    t.join(",")
}

fn show(s: &Style) -> String {
    serde_json::to_string(s).unwrap_or_default()
}

/// read-back of `t` must be `exp`; a row / column without any style may read `None` when `exp` is the default
fn check_read(w: &Worker, t: Target, exp: &Style, head: &str, out: &mut Vec<(String, String)>) {
    match crate::env::guarded(|| w.read(t)) {
        Err(p) => out.push((
            format!("{} read={} panic at={}", head, t.kind(), p.split(" @ ").last().unwrap_or("")),
            format!("reading {:?} panicked: {}", t, p),
        )),
        Ok(Err(e)) => out.push((format!("{} read={} error", head, t.kind()), format!("reading {:?}: {}", t, e))),
        Ok(Ok(None)) => {
            if *exp != Style::default() {
                out.push((
                    format!("{} read={} got=none", head, t.kind()),
                    format!("{:?} reads back no style, expected {}", t, show(exp)),
                ));
            }
        }
        Ok(Ok(Some(g))) => {
            if g != *exp {
                out.push((
                    format!("{} read={} differs={}", head, t.kind(), differs(exp, &g)),
                    format!("{:?}: expected {}\n     read back {}", t, show(exp), show(&g)),
                ));
            }
        }
    }
}

/// One style assigned to a cell, a row, a column of a fresh workbook.
fn sweep_case(w: &mut Worker, s: &Style) -> Vec<(String, String)> {
    let mut out = vec![];
    w.reset();
    for t in [Target::Cell(1, 1), Target::Row(3), Target::Col(3)] {
        let head = format!("single wrote={}", t.kind());
        match crate::env::guarded(|| w.assign(t, s)) {
            Err(p) => {
                out.push((
                    format!("{} panic at={}", head, p.split(" @ ").last().unwrap_or("")),
                    format!("assigning to {:?} panicked: {}", t, p),
                ));
                *w = Worker::new();
                return out;
            }
            Ok(Err(e)) => {
                out.push((format!("{} error", head), format!("assigning {} to {:?}: {}", show(s), t, e)));
                continue;
            }
            Ok(Ok(())) => {}
        }
        check_read(w, t, s, &head, &mut out);
    }
    // an absent cell of the styled row / column shows that style
    if out.is_empty() {
        for (t, via) in [(Target::Cell(3, 9), "row"), (Target::Cell(9, 3), "column")] {
            check_read(w, t, s, &format!("single wrote={} absent-cell", via), &mut out);
        }
    }
    out
}

/// Styles assigned alternately to the two targets; after every assignment every assigned target is read back.
fn seq_case(w: &mut Worker, styles: &[Style], pair: usize, named: bool) -> Vec<(String, String)> {
    let mut out = vec![];
    w.reset();
    let (pname, t1, t2) = TARGET_PAIRS[pair];
    let tag = if named { " named-style" } else { "" };
    if named {
        let r = crate::env::guarded(|| {
            w.model.create_named_style("mine", &styles[0], includes_all())?;
            w.model.set_cell_style_by_name(0, 9, 9, "mine")
        });
        match r {
            Ok(Ok(())) => {}
            Ok(Err(e)) => {
                out.push((format!("seq{} named-style-setup error", tag), e));
                return out;
            }
            Err(p) => {
                out.push((format!("seq{} named-style-setup panic at={}", tag, p.split(" @ ").last().unwrap_or("")), p));
                *w = Worker::new();
                return out;
            }
        }
    }
    let mut last: BTreeMap<Target, &Style> = BTreeMap::new();
    for (i, s) in styles.iter().enumerate() {
        let t = if i % 2 == 0 { t1 } else { t2 };
        if named && i > 0 {
            // the named style follows the style about to be assigned
            match crate::env::guarded(|| w.model.update_named_style("mine", "mine", s, includes_all())) {
                Ok(Ok(())) => {}
                Ok(Err(e)) => {
                    out.push((format!("seq{} named-style-update error", tag), e));
                    return out;
                }
                Err(p) => {
                    out.push((
                        format!("seq{} named-style-update panic at={}", tag, p.split(" @ ").last().unwrap_or("")),
                        p,
                    ));
                    *w = Worker::new();
                    return out;
                }
            }
            for (tt, exp) in &last {
                let head = format!("seq{} pair={} after=named-style-update", tag, pname);
                check_read(w, *tt, exp, &head, &mut out);
            }
        }
        match crate::env::guarded(|| w.assign(t, s)) {
            Err(p) => {
                out.push((
                    format!("seq{} wrote={} panic at={}", tag, t.kind(), p.split(" @ ").last().unwrap_or("")),
                    format!("assigning to {:?} panicked: {}", t, p),
                ));
                *w = Worker::new();
                return out;
            }
            Ok(Err(e)) => {
                out.push((format!("seq{} wrote={} error", tag, t.kind()), format!("assigning {} to {:?}: {}", show(s), t, e)));
                return out;
            }
            Ok(Ok(())) => {}
        }
        last.insert(t, s);
        for (tt, exp) in &last {
            let rel = if *tt == t { "same" } else { "other" };
            let head = format!("seq{} pair={} wrote={} target={}", tag, pname, t.kind(), rel);
            check_read(w, *tt, exp, &head, &mut out);
            if pname == "row-hi,row-lo" || pname == "column-hi,column-lo" {
                // and through a cell of that row / column that was never written
                let via = match *tt {
                    Target::Row(r) => Some(Target::Cell(r, 20)),
                    Target::Col(c) => Some(Target::Cell(20, c)),
                    _ => None,
                };
                if let Some(v) = via {
                    check_read(w, v, exp, &format!("{} via=absent-cell", head), &mut out);
                }
            }
        }
        if !out.is_empty() {
            return out;
        }
    }
    out
}

// ---------------------------------------------------------------------------------------------------------
// enumeration

/// the style sequences built from an ordered tuple of deviation indices
fn forms(devs: &[Dev], t: &[usize]) -> Vec<(&'static str, Vec<Style>)> {
    match t.len() {
        1 => vec![
            ("default-then-single", vec![Style::default(), build(devs, t)]),
            ("single-then-default", vec![build(devs, t), Style::default()]),
        ],
        2 => vec![
            ("unrelated", vec![build(devs, &t[..1]), build(devs, &t[1..])]),
            ("grow", vec![build(devs, &t[..1]), build(devs, t)]),
            ("shrink", vec![build(devs, t), build(devs, &t[..1])]),
        ],
        _ => vec![
            ("unrelated", vec![build(devs, &t[..1]), build(devs, &t[1..2]), build(devs, &t[2..])]),
            ("grow", vec![build(devs, &t[..1]), build(devs, &t[..2]), build(devs, t)]),
            ("neighbours", vec![build(devs, &t[..2]), build(devs, &t[..1]), build(devs, &[t[0], t[2]])]),
        ],
    }
}

#[derive(Default)]
pub struct UnitOut {
    cases: u64,
    assignments: u64,
    found: BTreeMap<String, (u64, Value, String)>,
    outcomes: HashSet<u128>,
}

fn note(out: &mut UnitOut, found: Vec<(String, String)>, case: impl Fn() -> Value) {
    for (sig, detail) in found {
        match out.found.get_mut(&sig) {
            Some(e) => e.0 += 1,
            None => {
                out.found.insert(sig, (1, case(), detail));
            }
        }
    }
}

/// All work whose first deviation index is `d1`.
fn unit(devs: &[Dev], d1: usize, thorough: bool) -> UnitOut {
    let mut out = UnitOut::default();
    let mut w = Worker::new();
    let n = devs.len();
    // sweep: singles, pairs (d1<d2), triples (d1<d2<d3)
    let sweep = |out: &mut UnitOut, w: &mut Worker, idx: &[usize]| {
        let s = build(devs, idx);
        out.cases += 1;
        out.assignments += 3;
        out.outcomes.insert(crate::env::digest(&show(&s)));
        let f = sweep_case(w, &s);
        note(out, f, || json!({"kind": "single-style", "deviations": idx.iter().map(|i| devs[*i].name.clone()).collect::<Vec<_>>(), "styles": [s.clone()]}));
    };
    sweep(&mut out, &mut w, &[d1]);
    for d2 in d1 + 1..n {
        if !compatible(&devs[d1], &devs[d2]) {
            continue;
        }
        sweep(&mut out, &mut w, &[d1, d2]);
        for d3 in d2 + 1..n {
            if compatible(&devs[d1], &devs[d3]) && compatible(&devs[d2], &devs[d3]) {
                sweep(&mut out, &mut w, &[d1, d2, d3]);
            }
        }
    }
    // sequences: ordered tuples starting with d1
    let mut tuples: Vec<Vec<usize>> = vec![vec![d1]];
    for d2 in 0..n {
        if d2 == d1 || !compatible(&devs[d1], &devs[d2]) {
            continue;
        }
        tuples.push(vec![d1, d2]);
    }
    // two different number formats one after the other (same attribute, so not a "compatible" pair above): every ordered pair
    let mut fmt_tuples: Vec<(usize, usize)> = vec![];
    if devs[d1].key == "num_fmt" {
        for d2 in 0..n {
            if d2 != d1 && devs[d2].key == "num_fmt" {
                fmt_tuples.push((d1, d2));
            }
        }
    }
    for (a, b) in &fmt_tuples {
        let styles = vec![build(devs, &[*a]), build(devs, &[*b])];
        for pair in [0usize, 1, 3] {
            out.cases += 1;
            out.assignments += 2;
            let f = seq_case(&mut w, &styles, pair, false);
            note(&mut out, f, || json!({"kind": "sequence", "form": "two-number-formats", "deviations": [devs[*a].name.clone(), devs[*b].name.clone()],
                "styles": styles.clone(), "pair": pair, "named": false}));
        }
    }
    let run_tuple = |out: &mut UnitOut, w: &mut Worker, t: &[usize]| {
        for (fname, styles) in forms(devs, t) {
            for pair in 0..TARGET_PAIRS.len() {
                for named in [false, true] {
                    out.cases += 1;
                    out.assignments += styles.len() as u64;
                    let f = seq_case(w, &styles, pair, named);
                    note(out, f, || json!({"kind": "sequence", "form": fname, "deviations": t.iter().map(|i| devs[*i].name.clone()).collect::<Vec<_>>(),
                        "styles": styles.clone(), "pair": pair, "named": named}));
                }
            }
        }
    };
    for t in &tuples {
        run_tuple(&mut out, &mut w, t);
    }
    if thorough {
        for d2 in 0..n {
            if d2 == d1 || !compatible(&devs[d1], &devs[d2]) {
                continue;
            }
            for d3 in 0..n {
                if d3 == d1 || d3 == d2 || !compatible(&devs[d1], &devs[d3]) || !compatible(&devs[d2], &devs[d3]) {
                    continue;
                }
                run_tuple(&mut out, &mut w, &[d1, d2, d3]);
            }
        }
    }
    out
}

pub fn run(run: &mut Run) {
    let thorough = run.tier.thorough();
    let devs = deviations();
    let n = devs.len();
    let res = crate::env::par_units(n, |u| unit(&devs, u, thorough));
    let mut outcomes: HashSet<u128> = HashSet::new();
    let mut assignments = 0u64;
    for r in res {
        match r {
            Ok(o) => {
                run.evaluations += o.cases;
                assignments += o.assignments;
                outcomes.extend(o.outcomes);
                for (sig, (cnt, case, detail)) in o.found {
                    run.add(Disagreement { sig: sig.clone(), case, detail });
                    if let Some(e) = run.clusters.get_mut(&sig) {
                        e.0 += cnt - 1;
                    }
                }
            }
            Err(e) => run.machinery_errors.push(format!("unit panicked: {}", e)),
        }
    }
    run.transitions = assignments;
    run.traces = run.evaluations;
    run.states = outcomes.len() as u64;
    run.distinct_outcomes = outcomes.len() as u64;
    run.nontrivial = run.evaluations;
    let keys: BTreeSet<String> = devs.iter().map(|d| d.key.clone()).collect();
    run.bound = json!({
        "deviations": n,
        "attribute_fields": keys,
        "style_sweep": "singles, pairs, triples of compatible deviations",
        "sequence_length": if thorough { 3 } else { 2 },
        "sequence_forms": ["default<->single", "unrelated", "grow by one deviation", "shrink / one-deviation neighbours"],
        "target_pairs": TARGET_PAIRS.iter().map(|t| t.0).collect::<Vec<_>>(),
        "named_style": [false, true],
        "assignments": assignments,
    });
    run.rule = "every style of the sweep assigned to a cell, a row and a column of a fresh workbook and read back (plus an absent cell of that row / column); every sequence built from every ordered tuple of compatible deviations, over every target pair, with and without a named style that shares the first style and is updated to the next one between assignments; after every assignment every assigned target must read back the style last assigned to it. Every case is non-trivial (non-default, pairwise different styles)".into();
    let a = build(&devs, &[0]);
    let b = build(&devs, &[n / 2, n - 1]);
    run.sample(json!({"kind": "single-style", "styles": [a.clone()]}));
    run.sample(json!({"kind": "single-style", "styles": [b.clone()]}));
    run.sample(json!({"kind": "sequence", "styles": [a, b], "pair": 3, "named": true}));
    run.exhaustive = true;
    run.assume("attribute values are the listed representatives (two sizes, three colour kinds, three border styles x two colours per side, every non-default alignment value, every built-in number format code and three custom codes)");
    run.assume("styles are assigned through Model::set_cell_style / set_row_style / set_column_style on one sheet of a fresh workbook per case");
    run.assume("a row or column that was given the default style may read back None");
}

pub fn replay(case: &Value) -> Vec<Disagreement> {
    let styles: Vec<Style> = match serde_json::from_value(case["styles"].clone()) {
        Ok(s) => s,
        Err(_) => return vec![],
    };
    if styles.is_empty() {
        return vec![];
    }
    let mut w = Worker::new();
    let found = if case["kind"] == "sequence" {
        let pair = (case["pair"].as_u64().unwrap_or(0) as usize).min(TARGET_PAIRS.len() - 1);
        seq_case(&mut w, &styles, pair, case["named"].as_bool().unwrap_or(false))
    } else {
        sweep_case(&mut w, &styles[0])
    };
    found
        .into_iter()
        .map(|(sig, detail)| Disagreement { sig, case: case.clone(), detail })
        .collect()
}

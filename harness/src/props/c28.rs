//! C28 The selection always points at an existing sheet and cell: explicit-state breadth-first search.

use crate::hist;
use crate::invariants::selection_valid;
use crate::ops::Op;
use crate::report::{Disagreement, Run};
use serde_json::{json, Value};
use std::collections::{HashSet, VecDeque};

fn s(x: &str) -> String {
    x.to_string()
}

pub fn alphabet(thorough: bool) -> Vec<Op> {
    use Op::*;
    const LR: i32 = 1_048_576;
    const LC: i32 = 16_384;
    let mut v = vec![
        NewSheet,
        DeleteSheet(0),
        DeleteSheet(1),
        DeleteSheet(2),
        DuplicateSheet(0),
        MoveSheet(0, 1),
        MoveSheet(1, 0),
        MoveSheet(0, 2),
        MoveSheet(2, 0),
        HideSheet(0),
        HideSheet(1),
        UnhideSheet(0),
        UnhideSheet(1),
        SelSheet(0),
        SelSheet(1),
        SelSheet(2),
        SelCell(3, 2),
        SelCell(LR, LC),
        SelRange(2, 2, 4, 3),
        Arrow(0),
        Arrow(1),
        Arrow(2),
        Arrow(3),
        PageDown,
        PageUp,
        AreaSelecting(5, 4),
        ExpandRange(s("ArrowDown")),
        ExpandRange(s("ArrowLeft")),
        NavEdge(1),
        NavEdge(3),
        RowsHidden(0, 2, 3, true),
        ColsHidden(0, 2, 2, true),
        Paste(0, 1, 1, 2, 2, 0, 3, 3, false),
        RowsHidden(0, 1, 1, true),
        ColsHidden(0, 1, 1, true),
        PasteStylesHere,
        Undo,
        Redo,
    ];
    if thorough {
        v.extend(vec![
            DeleteSheet(3),
            DuplicateSheet(1),
            HideSheet(2),
            UnhideSheet(2),
            SelSheet(3),
            SelCell(1, 1),
            ExpandRange(s("ArrowUp")),
            ExpandRange(s("ArrowRight")),
            NavEdge(0),
            NavEdge(2),
            RowsHidden(0, 1, 2, true),
            ColsHidden(0, 1, 2, true),
            PasteStyles(0, 2, 2, 2, 2),
            Paste(0, 1, 1, 1, 1, 1, 2, 2, true),
            InsertRows(0, 1, 1),
            DeleteCols(0, 1, 1),
        ]);
    }
    v
}

/// key of a state: the whole workbook (incl. views) + which recording operations are on the undo/redo stacks
fn key_of(um: &ironcalc_base::UserModel, word: &[Op], pushed: &[bool]) -> u128 {
    let (u, r) = um.verif_history_depths();
    let rec: Vec<String> = word
        .iter()
        .zip(pushed.iter())
        .filter(|(_, p)| **p)
        .map(|(o, _)| format!("{:?}", o))
        .collect();
    let k = crate::obs::state_key(um.get_model());
    crate::env::digest(&format!("{:x}|{}|{}|{:?}", k, u, r, rec))
}

/// Replays `word` (errors allowed: a failed op is a step like any other); returns model, per-op pushed flags.
fn build(seed: &'static str, word: &[Op]) -> Result<(ironcalc_base::UserModel<'static>, Vec<bool>, Vec<bool>), String> {
    let mut um = crate::seeds::load(seed);
    let mut pushed = vec![];
    let mut oks = vec![];
    for op in word {
        let d0 = um.verif_history_depths();
        let r = crate::env::guarded(|| op.apply(&mut um))?;
        let d1 = um.verif_history_depths();
        // an op "records" if the undo stack grew; undo/redo themselves move entries and are part of the key through depths
        pushed.push(d1.0 > d0.0 && !matches!(op, Op::Redo));
        oks.push(r.is_ok());
    }
    Ok((um, pushed, oks))
}

fn check(seed: &'static str, word: &[Op]) -> (Vec<Disagreement>, Option<u128>) {
    let case = hist::case_json(seed, word);
    let mut ds = vec![];
    match build(seed, word) {
        Err(p) => {
            ds.push(Disagreement {
                sig: format!("panic op={} at={}", word.last().map(|o| o.kind()).unwrap_or(""), p.split(" @ ").last().unwrap_or("")),
                case,
                detail: p,
            });
            (ds, None)
        }
        Ok((um, pushed, oks)) => {
            let last = word.last();
            let ok = oks.last().copied().unwrap_or(true);
            for (class, text) in selection_valid(um.get_model()) {
                ds.push(Disagreement {
                    sig: format!("selection={} after={}{}", class, last.map(|o| o.kind()).unwrap_or("seed"), if ok { "" } else { "(Err)" }),
                    case: case.clone(),
                    detail: format!("after {:?}: {}", last, text),
                });
            }
            // the public getters must agree with an existing sheet too
            let n = um.get_model().workbook.worksheets.len() as u32;
            if um.get_selected_sheet() >= n {
                ds.push(Disagreement {
                    sig: format!("getter-selected-sheet-out-of-range after={}", last.map(|o| o.kind()).unwrap_or("seed")),
                    case: case.clone(),
                    detail: format!("get_selected_sheet() = {} with {} sheets", um.get_selected_sheet(), n),
                });
            }
            let k = key_of(&um, word, &pushed);
            (ds, Some(k))
        }
    }
}

pub fn run(run: &mut Run) {
    let thorough = run.tier.thorough();
    let alpha = alphabet(thorough);
    let max_depth = if thorough { 4 } else { 3 };
    let max_states = if thorough { 300_000 } else { 60_000 };
    let seeds: Vec<&'static str> = vec!["empty", "basic"];
    let mut seen: HashSet<u128> = HashSet::new();
    let mut frontier: VecDeque<(&'static str, Vec<Op>)> = VecDeque::new();
    for sd in &seeds {
        let (ds, k) = check(sd, &[]);
        run.add_all(ds);
        if let Some(k) = k {
            seen.insert(k);
        }
        frontier.push_back((sd, vec![]));
    }
    let mut depth_done = 0;
    let mut closed = false;
    for depth in 1..=max_depth {
        let level: Vec<(&'static str, Vec<Op>)> = frontier.drain(..).collect();
        if level.is_empty() {
            closed = true;
            break;
        }
        // expand every state of this level by every operation (units = states)
        let res = crate::env::par_units(level.len(), |u| {
            let (seed, word) = &level[u];
            let mut out = vec![];
            for op in &alpha {
                let mut w = word.clone();
                w.push(op.clone());
                let (ds, k) = check(seed, &w);
                out.push((w, ds, k));
            }
            out
        });
        for (u, r) in res.into_iter().enumerate() {
            match r {
                Ok(outs) => {
                    for (w, ds, k) in outs {
                        run.transitions += 1;
                        run.evaluations += 1;
                        run.traces += 1;
                        let bad = !ds.is_empty();
                        run.add_all(ds);
                        if let Some(k) = k {
                            // states that already violate are not expanded further (their successors inherit the damage)
                            if seen.insert(k) && !bad && seen.len() <= max_states {
                                frontier.push_back((level[u].0, w));
                            }
                        }
                    }
                }
                Err(e) => run.machinery_errors.push(e),
            }
        }
        depth_done = depth;
        if seen.len() > max_states {
            run.extra.insert("state_cap_reached_at_depth".into(), json!(depth));
            break;
        }
        if run.elapsed() > if thorough { 3000.0 } else { 600.0 } {
            run.cap_hit = Some(format!("wall clock at BFS depth {}", depth));
            break;
        }
    }
    run.states = seen.len() as u64;
    run.nontrivial = seen.len() as u64;
    run.distinct_outcomes = seen.len() as u64;
    run.exhaustive = true;
    run.bound = json!({"alphabet_size": alpha.len(), "bfs_depth_completed": depth_done, "frontier_left": frontier.len(), "closed": closed,
        "seeds": seeds, "max_states": max_states, "hash_seed": crate::env::hash_seed()});
    run.rule = "explicit-state breadth-first search: a state is the shortest history reaching it, deduplicated by canonical key (hash of the whole Workbook incl. views + undo/redo depths + the recording operations on the stacks); every transition calls the real UserModel method on a freshly rebuilt object (failed calls are transitions too); the selection invariant is evaluated on the raw view structures in every state. states = distinct keys; exhaustive within the completed BFS depth".into();
    run.sample(hist::case_json("empty", &[alpha[0].clone(), alpha[15].clone(), alpha[2].clone()]));
    run.sample(hist::case_json("basic", &[alpha[9].clone(), alpha[33].clone()]));
    run.sample(hist::case_json("empty", &[alpha[17].clone(), alpha[19].clone(), alpha[22].clone()]));
    run.assume("states that violate the invariant are reported and not expanded further");
}

pub fn replay(case: &Value) -> Vec<Disagreement> {
    match hist::case_parse(case) {
        Some((seed, ops)) => check(hist::seed_name(&seed), &ops).0,
        None => vec![],
    }
}

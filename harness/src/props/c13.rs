//! C13 Deleting rows or columns shifts the rest and breaks only what was deleted.
//!
//! Same workbooks and observers as C12; operations: every deletion at positions 1–7 and against the last row/column
//! with counts 1–2 (thorough 1–3). Oracle: the displacement model of `structural` (a range that loses one end is only
//! required to be #REF! or to denote exactly the surviving cells).

use crate::report::{Disagreement, Run};
use crate::structural::{self as st, Axis, SOp, Spec};
use serde_json::{json, Value};

pub fn ops(thorough: bool, axis: Axis) -> Vec<SOp> {
    let mut v = vec![];
    let kmax = if thorough { 3 } else { 2 };
    for p in 1..=st::STRIP {
        for k in 1..=kmax {
            v.push(SOp::Delete { p, k });
        }
    }
    v.push(SOp::Delete { p: 7, k: 1 });
    v.push(SOp::Delete { p: axis.last(), k: 1 });
    v.push(SOp::Delete { p: axis.last() - 1, k: 2 });
    v.push(SOp::Delete { p: axis.last() - 6, k: kmax });
    v
}

pub fn run(run: &mut Run) {
    let thorough = run.tier.thorough();
    let specs = st::specs(thorough, true);
    let f = move |s: &Spec| ops(thorough, s.axis);
    let (out, errs) = st::run_family(&specs, &f, "C13", false);
    run.sample(st::case_json("C13", &specs[0], st::Api::Model, &ops(thorough, specs[0].axis)[0]));
    run.sample(st::case_json("C13", &specs[specs.len() / 2], st::Api::User, &ops(thorough, specs[specs.len() / 2].axis)[5]));
    run.sample(st::case_json("C13", &specs[specs.len() - 1], st::Api::User, &ops(thorough, specs[specs.len() - 1].axis).last().unwrap()));
    run.bound = json!({
        "workbooks": specs.len(),
        "orientations": ["rows", "columns"],
        "variants": 3,
        "interesting_contents": st::CONTENTS,
        "interesting_cells_per_workbook": if thorough { "1 (all variants) and 2 (variant 0, unordered content pairs at every position pair)" } else { "1" },
        "positions": "1..=7, last, last-1, last-6",
        "counts": if thorough { "1..=3" } else { "1..=2" },
        "apis": ["Model", "UserModel"],
        "observers_per_workbook": "as C12",
        "hash_seed": crate::env::hash_seed(),
    });
    run.rule = "every accepted deletion; each removes at least one data cell or observed position".into();
    run.assume("reference comparison is on the cells denoted, not on spelling");
    run.assume("a range that loses one end to the deletion is accepted as #REF! (anywhere in it) or as exactly the surviving cells; a range whose interior loses cells may change value (not compared)");
    run.assume("values are compared only for observers that read no deleted cell, directly or through another observer");
    run.assume("hash-map iteration order fixed by VERIF_HASH_SEED for this run (listed seed only)");
    st::fill_run(run, out, errs);
}

pub fn replay(case: &Value) -> Vec<Disagreement> {
    st::replay_case(case, false)
}

//! C24 xlsx export then import preserves the workbook.
//!
//! For every workbook state of a stated finite set (built through the public `UserModel` API), the observation
//! of `import(export(m))` after `evaluate` must equal the observation of `m`, minus what the format does not
//! carry by design (workbook name = file-name argument; locale and timezone = import arguments) and minus what
//! the property statement does not list (theme, named styles, sheet ids): those are not compared.

use crate::hist::{self, HistCfg};
use crate::obs::{self, Obs, ObsOpts};
use crate::ops::Op;
use crate::report::{Disagreement, Run};
use crate::seeds;
use ironcalc::import::load_from_xlsx_bytes;
use ironcalc_base::expressions::parser::Node;
use ironcalc_base::expressions::types::CellReferenceRC;
use ironcalc_base::{Model, UserModel};
use serde_json::{json, Value};
use std::collections::{BTreeSet, HashMap};

fn s(x: &str) -> String {
    x.to_string()
}

/// Σ_x: XML-special, whitespace, control, escape-lookalike (`_x000D_`), multi-byte and astral characters.
pub const SIGMA_X: [&str; 17] = [
    "a", " ", "<", ">", "&", "\"", "'", "\n", "\t", "\r", "\u{1}", "_", "x", "0", "D", "\u{e9}", "\u{1f600}",
];

pub fn base_model(base: &str) -> UserModel<'static> {
    if base == "blank" {
        UserModel::new_empty("book", "en", "UTC", "en").expect("new_empty")
    } else if let Some(f) = base.strip_prefix("feature:") {
        crate::xfeat::feature_model(f)
    } else {
        seeds::load(hist::seed_name(base))
    }
}

fn base_static(b: &str) -> &'static str {
    for n in [
        "blank",
        "empty",
        "basic",
        "imported",
        "feature:styles",
        "feature:cf",
        "feature:structure",
    ] {
        if n == b {
            return n;
        }
    }
    "blank"
}

pub struct Out {
    pub ds: Vec<Disagreement>,
    pub nontrivial: bool,
    pub digest: u128,
    pub unspecified: u64,
}

/// Keys the statement does not cover (or that are import arguments by design).
fn unspecified(key: &str) -> bool {
    key == "wb.name"
        || key == "wb.locale"
        || key == "wb.tz"
        || key == "wb.theme"
        || key.starts_with("wb.named_style[")
}

/// "name|sheet_id|state|color ; ..." -> without the sheet ids (the statement lists names, order, visibility, colours).
fn strip_sheet_ids(v: &str) -> String {
    v.split(" ; ")
        .map(|p| {
            let f: Vec<&str> = p.split('|').collect();
            if f.len() >= 4 {
                // the name may itself contain '|': id, state and colour are the last three fields
                let n = f.len();
                format!("{}|{}|{}", f[..n - 3].join("|"), f[n - 2], f[n - 1])
            } else {
                p.to_string()
            }
        })
        .collect::<Vec<_>>()
        .join(" ; ")
}

fn normalise(o: &mut Obs) -> u64 {
    let keys: Vec<String> = o.keys().filter(|k| unspecified(k)).cloned().collect();
    let n = keys.len() as u64;
    for k in keys {
        o.remove(&k);
    }
    if let Some(v) = o.get_mut("wb.sheets") {
        *v = strip_sheet_ids(v);
    }
    n
}

/// Splits "fmt=.. font=.. fill=.. border=.. align=.. qp=.." into named parts.
fn style_parts(t: &str) -> Vec<(String, String)> {
    let names = ["fmt=", " font=", " fill=", " border=", " align=", " qp="];
    let mut pos = vec![];
    for n in names {
        if let Some(i) = t.find(n) {
            pos.push((i, n));
        }
    }
    pos.sort();
    let mut out = vec![];
    for (k, (i, n)) in pos.iter().enumerate() {
        let end = pos.get(k + 1).map(|p| p.0).unwrap_or(t.len());
        out.push((n.trim().trim_end_matches('=').to_string(), t[i + n.len()..end].to_string()));
    }
    out
}

/// What kind of characters make a text delicate for the file format.
fn text_class(t: &str) -> &'static str {
    let b = t.as_bytes();
    let has_x_escape = b.windows(7).any(|w| {
        w[0] == b'_' && w[1] == b'x' && w[6] == b'_' && w[2..6].iter().all(|c| c.is_ascii_hexdigit())
    });
    if has_x_escape {
        "x-escape-lookalike"
    } else if t.chars().any(|c| (c as u32) < 0x20 && !matches!(c, '\n' | '\t' | '\r')) {
        "control-char"
    } else if t.contains('\r') {
        "carriage-return"
    } else if t.contains('\n') || t.contains('\t') {
        "tab-or-newline"
    } else if t.starts_with(' ') || t.ends_with(' ') || t.contains("  ") {
        "edge-or-double-space"
    } else if t.chars().any(|c| matches!(c, '<' | '>' | '&' | '"' | '\'')) {
        "xml-special"
    } else if !t.is_ascii() {
        "non-ascii"
    } else {
        "plain"
    }
}

/// Undoes the escapes of a Rust `{:?}` string (enough of them for the texts used here).
fn undebug(t: &str) -> String {
    let t = t.trim().trim_matches('"');
    let mut out = String::new();
    let mut it = t.chars().peekable();
    while let Some(c) = it.next() {
        if c != '\\' {
            out.push(c);
            continue;
        }
        match it.next() {
            Some('t') => out.push('\t'),
            Some('n') => out.push('\n'),
            Some('r') => out.push('\r'),
            Some('u') => {
                let mut hex = String::new();
                for h in it.by_ref() {
                    if h == '}' {
                        break;
                    }
                    if h != '{' {
                        hex.push(h);
                    }
                }
                if let Some(ch) = u32::from_str_radix(&hex, 16).ok().and_then(char::from_u32) {
                    out.push(ch);
                }
            }
            Some(o) => out.push(o),
            None => {}
        }
    }
    out
}

fn style_classes(prefix: &str, a: &str, b: &str) -> Vec<String> {
    let pa = style_parts(a);
    let pb = style_parts(b);
    if pa.len() != pb.len() || pa.is_empty() {
        return vec![format!("{}:style", prefix)];
    }
    let mut out = vec![];
    for ((n, x), (_, y)) in pa.iter().zip(pb.iter()) {
        if x != y {
            out.push(match n.as_str() {
                "fmt" => format!("{}:style:num_fmt text={}", prefix, text_class(&undebug(x).replace('"', ""))),
                "align" => format!("{}:style:alignment", prefix),
                "qp" => format!("{}:style:quote_prefix", prefix),
                "border" => {
                    // which border style is involved
                    let st = ["Thin", "MediumDashDotDot", "MediumDashDot", "MediumDashed", "Medium", "Thick", "Double", "Dotted", "SlantDashDot"]
                        .iter()
                        .find(|k| x.contains(&format!("style: {},", k)))
                        .copied()
                        .unwrap_or("?");
                    format!("{}:style:border style={}", prefix, st)
                }
                o => format!("{}:style:{}", prefix, o),
            });
        }
    }
    if out.is_empty() {
        out.push(format!("{}:style", prefix));
    }
    out
}

fn kind_name(n: &Node) -> String {
    match n {
        Node::ParseErrorKind { .. } => "ParseError".into(),
        Node::ErrorKind(_) => "Error".into(),
        Node::NumberKind(_) => "Number".into(),
        Node::StringKind(_) => "String".into(),
        Node::BooleanKind(_) => "Boolean".into(),
        Node::ReferenceKind { .. } => "Reference".into(),
        Node::RangeKind { .. } => "Range".into(),
        Node::FunctionKind { .. } => "Function".into(),
        Node::OpSumKind { .. } => "Sum".into(),
        Node::OpProductKind { .. } => "Product".into(),
        Node::OpPowerKind { .. } => "Power".into(),
        Node::OpConcatenateKind { .. } => "Concat".into(),
        Node::OpRangeKind { .. } => "RangeOp".into(),
        Node::CompareKind { .. } => "Compare".into(),
        Node::UnaryKind { kind, .. } => format!("{:?}", kind),
        Node::ArrayKind(_) => "Array".into(),
        Node::DefinedNameKind(_) => "DefinedName".into(),
        Node::ImplicitIntersection { .. } => "ImplicitIntersection".into(),
        Node::SpillRangeOperator { .. } => "SpillRef".into(),
        Node::LambdaCallKind { .. } | Node::LambdaDefKind { .. } => "Lambda".into(),
        Node::NamedFunctionKind { .. } => "NamedFunction".into(),
        Node::WrongReferenceKind { .. } | Node::WrongRangeKind { .. } => "WrongReference".into(),
        _ => "Other".into(),
    }
}

/// Top node kind with the kinds of its operands: `Percentage(Power)`, `Sum(Number,Concat)`.
fn formula_shape(text: &str, sheets: &[String]) -> String {
    let body = text.strip_prefix('=').unwrap_or(text);
    let mut p = ironcalc_base::expressions::parser::new_parser_english(sheets.to_vec(), vec![], HashMap::new());
    let ctx = CellReferenceRC {
        sheet: sheets.first().cloned().unwrap_or_default(),
        row: 1,
        column: 1,
    };
    let n = p.parse(body, &ctx);
    match &n {
        Node::UnaryKind { right, .. } => format!("{}({})", kind_name(&n), kind_name(right)),
        Node::OpSumKind { left, right, .. }
        | Node::OpProductKind { left, right, .. }
        | Node::OpPowerKind { left, right }
        | Node::OpConcatenateKind { left, right }
        | Node::OpRangeKind { left, right }
        | Node::CompareKind { left, right, .. } => {
            format!("{}({},{})", kind_name(&n), kind_name(left), kind_name(right))
        }
        Node::ImplicitIntersection { child, .. } | Node::SpillRangeOperator { child } => {
            format!("{}({})", kind_name(&n), kind_name(child))
        }
        _ => kind_name(&n),
    }
}

/// Replaces the positional `sN.cf[k]` entries by entries keyed by range and rule kind plus one order entry, so
/// that one lost rule does not shift every other rule.
fn rekey_cf(o: &mut Obs) {
    let keys: Vec<String> = o.keys().filter(|k| obs::field_class(k) == "cf").cloned().collect();
    let mut order: std::collections::BTreeMap<String, Vec<(usize, String)>> = Default::default();
    for k in keys {
        let v = o.remove(&k).unwrap_or_default();
        let sheet = k.split('.').next().unwrap_or("").to_string();
        let idx: usize = k
            .rsplit('[')
            .next()
            .and_then(|t| t.trim_end_matches(']').parse().ok())
            .unwrap_or(0);
        let range = v
            .strip_prefix("range=")
            .and_then(|t| t.split(" prio_rank=").next())
            .unwrap_or("")
            .to_string();
        let rest = v.find(" rule=").map(|i| v[i + 1..].to_string()).unwrap_or_default();
        let kind: String = rest
            .trim_start_matches("rule=")
            .chars()
            .take_while(|c| c.is_alphanumeric())
            .collect();
        let mut key = format!("{}.cfrule[{}|{}]", sheet, range, kind);
        let mut n = 1;
        while o.contains_key(&key) {
            n += 1;
            key = format!("{}.cfrule[{}|{}#{}]", sheet, range, kind, n);
        }
        order.entry(sheet).or_default().push((idx, format!("{}|{}", range, kind)));
        o.insert(key, rest);
    }
    for (sheet, mut v) in order {
        v.sort();
        o.insert(
            format!("{}.cforder", sheet),
            v.into_iter().map(|x| x.1).collect::<Vec<_>>().join(" > "),
        );
    }
}

/// One narrow defect class per differing field (several fields of one cell give one class).
pub fn classify(before: &Obs, df: &[(String, String, String)], inputs: &[(String, String)]) -> Vec<(String, String)> {
    let sheets: Vec<String> = before
        .get("wb.sheets")
        .map(|v| {
            v.split(" ; ")
                .map(|p| p.rsplitn(3, '|').last().unwrap_or("").to_string())
                .collect()
        })
        .unwrap_or_default();
    let mut out: Vec<(String, String)> = vec![];
    // cells: group the fields of one cell
    let mut cells: std::collections::BTreeMap<String, Vec<&(String, String, String)>> = Default::default();
    for d in df {
        let fc = obs::field_class(&d.0);
        if fc.starts_with("cell.") {
            let cell = d.0.rsplitn(2, '.').nth(1).unwrap_or("").to_string();
            cells.entry(cell).or_default().push(d);
        }
    }
    for (cell, ds) in &cells {
        let kind = before
            .get(&format!("{}.kind", cell))
            .cloned()
            .unwrap_or_else(|| "absent".to_string());
        let mut fields: Vec<&str> = vec![];
        let mut fmt_changed = false;
        for d in ds {
            let f = d.0.rsplit('.').next().unwrap_or("");
            if f == "style" {
                for c in style_classes("cell", &d.1, &d.2) {
                    fmt_changed |= c.contains(":style:num_fmt");
                    out.push((c, d.0.clone()));
                }
            } else {
                fields.push(f);
            }
        }
        if fmt_changed {
            // the formatted text follows the number format: one defect, already classified
            fields.retain(|f| *f != "text");
        }
        if fields.is_empty() {
            continue;
        }
        fields.sort();
        let content = before.get(&format!("{}.content", cell)).cloned().unwrap_or_default();
        let all_absent_after = ds.iter().all(|d| d.2 == "<absent>");
        let all_absent_before = ds.iter().all(|d| d.1 == "<absent>");
        let class = if all_absent_before {
            "cell:extra-after-import".to_string()
        } else if all_absent_after {
            format!("cell:{}:lost", kind)
        } else {
            match kind.as_str() {
                "formula" | "array" => {
                    // the text the user typed for this cell if the case says so, else the printed content
                    let typed = inputs.iter().rev().find(|(c, _)| c == cell).map(|(_, t)| t.clone());
                    let shape = formula_shape(typed.as_deref().unwrap_or(&content), &sheets);
                    let strs = if content.contains('"') {
                        let lit: String = content.split('"').skip(1).step_by(2).collect::<Vec<_>>().join("");
                        format!(" literal={}", text_class(&lit))
                    } else {
                        String::new()
                    };
                    format!("cell:{}[{}] shape={}{}", kind, fields.join("+"), shape, strs)
                }
                "string" => format!("cell:string[{}] text={}", fields.join("+"), text_class(&content)),
                k => format!("cell:{}[{}]", k, fields.join("+")),
            }
        };
        out.push((class, format!("{}.*", cell)));
    }
    for (k, a, b) in df {
        let fc = obs::field_class(k);
        if fc.starts_with("cell.") {
            continue;
        }
        let shape = if a == "<absent>" {
            "extra"
        } else if b == "<absent>" {
            "lost"
        } else {
            "changed"
        };
        let class = if fc == "row" || fc == "col" {
            let idx = k.rsplit('[').next().unwrap_or("").trim_end_matches(']');
            let sheet = k.split('.').next().unwrap_or("");
            let has_cells = before.keys().any(|c| {
                if fc == "row" {
                    c.starts_with(&format!("{}.R{}C", sheet, idx))
                } else {
                    c.starts_with(&format!("{}.R", sheet)) && c.contains(&format!("C{}.", idx))
                }
            });
            if shape != "changed" {
                format!("{}:{}{}", fc, shape, if has_cells { "" } else { " (no cells in it)" })
            } else {
                let split = |t: &str| -> Vec<String> {
                    let i = t.find(" hidden=").unwrap_or(t.len());
                    let j = t.find(" style=").unwrap_or(t.len());
                    vec![
                        t[..i].to_string(),
                        t.get(i..j).unwrap_or("").to_string(),
                        t.get(j..).unwrap_or("").trim_start_matches(" style=").to_string(),
                    ]
                };
                let (pa, pb) = (split(a), split(b));
                let mut parts = vec![];
                if pa[0] != pb[0] {
                    parts.push(if fc == "row" { "height".to_string() } else { "width".to_string() });
                }
                if pa[1] != pb[1] {
                    parts.push("hidden".to_string());
                }
                if pa[2] != pb[2] {
                    parts.extend(style_classes("", &pa[2], &pb[2]).into_iter().map(|c| c.trim_start_matches(':').to_string()));
                }
                format!("{}:{}{}", fc, parts.join("+"), if has_cells { "" } else { " (no cells in it)" })
            }
        } else if fc == "wb.sheets" {
            let fa: Vec<&str> = a.split(" ; ").collect();
            let fb: Vec<&str> = b.split(" ; ").collect();
            if fa.len() != fb.len() {
                "sheets:count".to_string()
            } else {
                let mut parts = BTreeSet::new();
                for (x, y) in fa.iter().zip(fb.iter()) {
                    let px: Vec<&str> = x.rsplitn(3, '|').collect();
                    let py: Vec<&str> = y.rsplitn(3, '|').collect();
                    if px.len() == 3 && py.len() == 3 {
                        if px[2] != py[2] {
                            parts.insert(format!("name text={}", text_class(px[2])));
                        }
                        if px[1] != py[1] {
                            parts.insert("state".to_string());
                        }
                        if px[0] != py[0] {
                            parts.insert("color".to_string());
                        }
                    }
                }
                format!("sheets:{}", parts.into_iter().collect::<Vec<_>>().join("+"))
            }
        } else if fc == "cfrule" {
            let kind = k
                .rsplit('|')
                .next()
                .unwrap_or("")
                .trim_end_matches(']')
                .split('#')
                .next()
                .unwrap_or("")
                .to_string();
            if shape != "changed" {
                format!("cf:{}:{}", kind, shape)
            } else {
                let rule = |t: &str| t.split(" dxf=").next().unwrap_or("").to_string();
                let dxf = |t: &str| t.find(" dxf=").map(|i| t[i..].to_string()).unwrap_or_default();
                let mut parts = vec![];
                if rule(a) != rule(b) {
                    // the one recorded shape: the formula of a Formula rule comes back with a leading '='
                    if kind == "Formula" && rule(b) == rule(a).replacen("formula: \"", "formula: \"=", 1) {
                        parts.push("rule(formula gains a leading =)");
                    } else {
                        parts.push("rule");
                    }
                }
                if dxf(a) != dxf(b) {
                    parts.push("dxf");
                }
                format!("cf:{}:{}", kind, parts.join("+"))
            }
        } else if fc == "cforder" {
            "cf:order".to_string()
        } else {
            let c = match fc.as_str() {
                "wb.defined_name" => "defined-name",
                "frozen" => "frozen-panes",
                "grid" => "grid-lines",
                "link" | "links" => "link",
                o => o,
            };
            format!("{}:{}", c, shape)
        };
        out.push((class, k.clone()));
    }
    out
}

/// The round trip itself: Ok(observation after import) or Err((stage, text)).
fn round_trip(m: &Model, o: &ObsOpts) -> Result<Obs, (String, String)> {
    let bytes = match crate::env::guarded(|| crate::xlsxutil::export_bytes(m)) {
        Err(p) => return Err((format!("panic:export {}", crate::isolate::panic_sig(&p)), p)),
        Ok(Err(e)) => return Err(("export-error".into(), e)),
        Ok(Ok(b)) => b,
    };
    let locale = m.get_locale();
    let tz = m.get_timezone();
    let name = m.workbook.name.clone();
    let wb = match crate::env::guarded(|| load_from_xlsx_bytes(&bytes, &name, &locale, &tz)) {
        Err(p) => return Err((format!("panic:import {}", crate::isolate::panic_sig(&p)), p)),
        Ok(Err(e)) => {
            let t = format!("{:?}", e);
            let class: String = t.chars().filter(|c| !c.is_ascii_digit()).take(40).collect();
            return Err((format!("import-error {}", class.trim()), t));
        }
        Ok(Ok(wb)) => wb,
    };
    let lang = match m.get_language().as_str() {
        "de" => "de",
        "es" => "es",
        "fr" => "fr",
        "it" => "it",
        _ => "en",
    };
    let mut m2 = match crate::env::guarded(|| Model::from_workbook(wb, lang)) {
        Err(p) => return Err((format!("panic:from_workbook {}", crate::isolate::panic_sig(&p)), p)),
        Ok(Err(e)) => return Err(("from_workbook-error".into(), e)),
        Ok(Ok(m2)) => m2,
    };
    if let Err(p) = crate::env::guarded(|| m2.evaluate()) {
        return Err((format!("panic:evaluate {}", crate::isolate::panic_sig(&p)), p));
    }
    Ok(obs::observe_model(&m2, o))
}

pub fn judge(base: &'static str, ops: &[Op]) -> Option<Out> {
    let o = ObsOpts::default();
    let mut um = base_model(base);
    let case = json!({"seed": base, "ops": ops});
    let before_ops = obs::digest(&obs::observe(&um, &o));
    for op in ops {
        match crate::env::guarded(|| op.apply(&mut um)) {
            Ok(Ok(())) => {}
            // a rejected or panicking operation is not this property's business: the state is not reachable this way
            _ => return None,
        }
    }
    um.evaluate();
    let mut before = obs::observe(&um, &o);
    let digest = obs::digest(&before);
    let nontrivial = ops.is_empty() || digest != before_ops;
    let mut ds = vec![];
    let mut unspec = normalise(&mut before);
    match round_trip(um.get_model(), &o) {
        Err((sig, text)) => ds.push(Disagreement {
            sig,
            case: case.clone(),
            detail: format!("the round trip failed: {}", text),
        }),
        Ok(mut after) => {
            unspec += normalise(&mut after);
            if before != after {
                rekey_cf(&mut before);
                rekey_cf(&mut after);
                let df = obs::diff(&before, &after);
                let inputs: Vec<(String, String)> = ops
                    .iter()
                    .filter_map(|op| match op {
                        Op::Input(sh, r, c, t) => Some((format!("s{}.R{}C{}", sh, r, c), t.clone())),
                        Op::ArrayFormula(sh, r, c, _, _, t) => Some((format!("s{}.R{}C{}", sh, r, c), t.clone())),
                        _ => None,
                    })
                    .collect();
                let classes = classify(&before, &df, &inputs);
                let mut by_class: std::collections::BTreeMap<String, Vec<String>> = Default::default();
                for (c, f) in classes {
                    by_class.entry(c).or_default().push(f);
                }
                for (class, fields) in by_class {
                    let sub: Vec<(String, String, String)> = df
                        .iter()
                        .filter(|d| {
                            fields.iter().any(|f| match f.strip_suffix(".*") {
                                Some(cell) => d.0.starts_with(&format!("{}.", cell)),
                                None => &d.0 == f,
                            })
                        })
                        .cloned()
                        .collect();
                    ds.push(Disagreement {
                        sig: format!("diff {}", class),
                        case: case.clone(),
                        detail: format!(
                            "after export and import the workbook differs (expected = before export, observed = after import):\n{}",
                            obs::diff_text(&sub, 6)
                        ),
                    });
                }
            }
        }
    }
    Some(Out {
        ds,
        nontrivial,
        digest,
        unspecified: unspec,
    })
}

pub fn formula_corpus() -> Vec<String> {
    let mut v: Vec<String> = vec![];
    let ops = ["+", "-", "*", "/", "^", "&", "=", "<", ">", "<=", ">=", "<>"];
    for a in ops {
        for b in ops {
            v.push(format!("4{}(3{}2)", a, b));
            v.push(format!("(4{}3){}2", a, b));
        }
        v.push(format!("-(4{}3)", a));
        v.push(format!("(4{}3)%", a));
        v.push(format!("-4{}3", a));
        v.push(format!("4{}-3", a));
        v.push(format!("4%{}3", a));
    }
    for f in [
        "A1+1",
        "$A$1*A$2-$A3",
        "SUM(A1:A3)",
        "SUM(A:A)",
        "SUM(1:1)",
        "IF(A1>1,\"x\",\"y\")",
        "Sheet2!A1",
        "SUM(Sheet2!A1:A2)",
        "nm*2",
        "\"a\"\"b\"&\"c\"",
        "\"<&>'\"",
        "\" lead\"&\"trail \"",
        "TRUE",
        "#N/A",
        "#REF!",
        "1/0",
        "NA()",
        "{1,2;3,4}",
        "SUM({1,2;3,4})",
        "-A1^2",
        "(-A1)^2",
        "2^-1",
        "--1",
        "-+-1",
        "1E+20",
        "1.5E-7",
        "0.1+0.2",
        "LET(x,1,x+1)",
        "LAMBDA(x,x+1)(2)",
        "SEQUENCE(2,2)",
        "E6#",
        "SUM(E6#)",
        "@A1:A3",
        "A1:A3",
        "A1:A3*2",
        "TRANSPOSE(A1:A3)",
        "INDEX(A1:B2,1,1):A3",
        "IFERROR(1/0,)",
        "SUM(A1,,A2)",
        "TEXT(A2,\"0.00\")",
        "CONCAT(\"x\",CHAR(10),\"y\")",
        "UNICHAR(128512)",
        "RAND()*0",
        "NOW()*0",
        "XLOOKUP(7,A1:A3,A1:A3)",
        "FILTER(A1:A3,A1:A3>3)",
        "SORT(A1:A2)",
        "BYROW(A1:B2,LAMBDA(r,SUM(r)))",
        "ISFORMULA(C1)",
        "CELL(\"address\",A1)",
        "10%",
        "10%%",
        "A1%",
        "1=1",
        "\"a\"=\"A\"",
        "(A1,A2)",
        "SUM((A1,A2))",
        "A1:A2 A2:A3",
    ] {
        v.push(f.to_string());
    }
    v
}

pub fn sheet_names() -> Vec<&'static str> {
    vec![
        "A B", "It's", "a&b", "a<b", "x>y", "\u{e9}t\u{e9}", "\u{1f600}", "1", "A1", "R1C1", "TRUE", "a\"b", "a,b",
        "a;b", "a!b", "a.b", "#x", "a+b", "(a)", "{a}", "a=b", "x_x000D_y", " lead", "trail ", "1234567890123456789012345678901",
    ]
}

fn style_attrs() -> Vec<(&'static str, &'static str)> {
    let mut v = vec![
        ("font.b", "true"),
        ("font.i", "true"),
        ("font.u", "true"),
        ("font.strike", "true"),
        ("font.color", "#FF00FF"),
        ("font.size", "17"),
        ("fill.color", "#00FFAA"),
        ("alignment.wrap_text", "true"),
    ];
    for f in [
        "0.00",
        "#,##0",
        "0%",
        "0.00E+00",
        "yyyy-mm-dd",
        "h:mm:ss AM/PM",
        "\"x<&>\"0",
        "[Red]0;[Blue]-0",
        "@",
        "# ?/?",
        "$#,##0.00",
        "0.0 \"a\"\"b\"",
    ] {
        v.push(("num_fmt", f));
    }
    for h in ["center", "centerContinuous", "distributed", "fill", "general", "justify", "left", "right"] {
        v.push(("alignment.horizontal", h));
    }
    for a in ["bottom", "center", "distributed", "justify", "top"] {
        v.push(("alignment.vertical", a));
    }
    v
}

/// (base, ops) cases other than the history words.
pub fn fixed_cases(thorough: bool) -> Vec<(&'static str, Vec<Op>)> {
    use Op::*;
    let mut v: Vec<(&'static str, Vec<Op>)> = vec![];
    for b in ["blank", "empty", "basic", "imported", "feature:styles", "feature:cf", "feature:structure"] {
        v.push((b, vec![]));
    }
    // (b) texts
    let max = if thorough { 3 } else { 2 };
    let a = SIGMA_X.len();
    let mut total = 0usize;
    let mut block = 1usize;
    for _ in 0..=max {
        total += block;
        block *= a;
    }
    for k in 1..total {
        // k-th string in length-then-lexicographic order
        let mut kk = k;
        let mut len = 0;
        let mut blk = 1usize;
        loop {
            if kk < blk {
                break;
            }
            kk -= blk;
            blk *= a;
            len += 1;
        }
        let mut idx = vec![0usize; len];
        for i in (0..len).rev() {
            idx[i] = kk % a;
            kk /= a;
        }
        let t: String = idx.iter().map(|i| SIGMA_X[*i]).collect();
        v.push(("blank", vec![Input(0, 1, 1, t.clone())]));
        // as a quote-prefixed text, so that number-like and formula-like strings stay strings
        v.push(("blank", vec![Input(0, 1, 1, format!("'{}", t))]));
        if len <= 2 {
            v.push(("blank", vec![Input(0, 1, 1, format!("=\"{}\"", t.replace('"', "\"\"")))]));
            v.push(("blank", vec![RenameSheet(0, t.clone())]));
            v.push(("blank", vec![Input(0, 1, 1, s("1")), Style(0, 1, 1, 1, 1, s("num_fmt"), format!("0\"{}\"", t.replace('"', "")))]));
        }
    }
    // (c) formulas on the basic seed (A1..A3, B1, B2 hold values; E6# is a spill; nm a name), in a free cell
    for f in formula_corpus() {
        v.push(("basic", vec![Input(0, 9, 2, format!("={}", f))]));
    }
    for f in ["A1:A2*2", "SUM(A1:A3)", "{1,2}", "A1:B1&\"x\""] {
        v.push(("basic", vec![ArrayFormula(0, 9, 2, 2, 1, format!("={}", f))]));
        v.push(("basic", vec![ArrayFormula(0, 9, 2, 1, 2, format!("={}", f))]));
    }
    // non-square CSE arrays whose anchor value is of each kind (number, boolean, text, error)
    for f in ["A1:B3*2", "A1:B3>4", "A1:B3&\"x\"", "A1:B3/0", "A1:C2=7"] {
        v.push(("basic", vec![ArrayFormula(0, 9, 2, 2, 3, format!("={}", f))]));
        v.push(("basic", vec![ArrayFormula(0, 9, 2, 3, 2, format!("={}", f))]));
    }
    // texts that look like the file format's _xHHHH_ escapes, in both letter cases
    for t in ["_x00e9_", "_x00E9_", "line_x000a_break", "price_x20ac_", "_x005f_", "_x005F_x000D_", "_xzzzz_", "_x41_", "__x0041__"] {
        v.push(("blank", vec![Input(0, 1, 1, s(t))]));
        v.push(("blank", vec![Input(0, 1, 1, format!("=\"{}\"&\"\"", t))]));
    }
    // (d) styles: every attribute value on a cell, a row, a column; pairs on a cell (thorough)
    let attrs = style_attrs();
    let scopes: [(i32, i32, i32, i32); 3] = [(2, 2, 1, 1), (3, 1, 1, 16_384), (1, 3, 1_048_576, 1)];
    for (p, val) in &attrs {
        for (r, c, h, w) in scopes {
            v.push(("blank", vec![Input(0, 2, 2, s("1.5")), Style(0, r, c, h, w, s(p), s(val))]));
        }
    }
    if thorough {
        for (i, (p1, v1)) in attrs.iter().enumerate() {
            for (p2, v2) in attrs.iter().skip(i + 1) {
                if p1 == p2 {
                    continue;
                }
                v.push((
                    "blank",
                    vec![
                        Input(0, 2, 2, s("1.5")),
                        Style(0, 2, 2, 1, 1, s(p1), s(v1)),
                        Style(0, 2, 2, 1, 1, s(p2), s(v2)),
                    ],
                ));
            }
        }
    }
    for ty in ["All", "Inner", "Outer", "Top", "Right", "Bottom", "Left", "CenterH", "CenterV"] {
        for st in [
            "thin",
            "medium",
            "thick",
            "double",
            "dotted",
            "slantdashdot",
            "mediumdashed",
            "mediumdashdotdot",
            "mediumdashdot",
        ] {
            if !thorough && ty != "All" && st != "thin" {
                continue;
            }
            v.push(("blank", vec![Border(0, 2, 2, 2, 2, s(ty), s(st), s("#112233"))]));
        }
    }
    v.push(("blank", vec![Border(0, 2, 2, 2, 2, s("All"), s("thin"), s(""))]));
    // sheet names (also with a formula pointing at the renamed sheet)
    for n in sheet_names() {
        v.push(("empty", vec![RenameSheet(1, s(n)), Input(1, 1, 1, s("5")), Input(0, 1, 1, s("=1"))]));
        v.push(("basic", vec![RenameSheet(1, s(n))]));
    }
    // structure: states, colours, panes, sizes
    v.push(("empty", vec![HideSheet(1)]));
    v.push(("empty", vec![SheetColor(0, s("#FF0000")), SheetColor(1, s("#00FF00"))]));
    for n in [0, 1, 5] {
        v.push(("blank", vec![FrozenRows(0, n), FrozenCols(0, 5 - n)]));
    }
    for h in [1.0, 14.5, 21.0, 40.25, 400.0] {
        v.push(("blank", vec![RowsHeight(0, 2, 3, h), ColsWidth(0, 2, 3, h * 3.0)]));
    }
    v.push(("blank", vec![RowsHidden(0, 2, 2, true), ColsHidden(0, 3, 4, true)]));
    v.push(("blank", vec![ColsWidth(0, 1, 16_384, 50.0)]));
    v.push(("blank", vec![GridLines(0, false)]));
    // names and links
    v.push(("empty", vec![NewName(s("g"), None, s("Sheet1!$A$1")), NewName(s("g"), Some(1), s("Sheet2!$B$2:$C$3"))]));
    v.push(("empty", vec![NewName(s("k"), None, s("SUM(Sheet1!$A$1:$A$3)*2"))]));
    v.push(("blank", vec![SetLink(0, 1, 1, s("https://example.com/?a=1&b=<2>"), Some(s("l<&>")))]));
    v.push(("empty", vec![SetInternalLink(0, 2, 2, s("Sheet2!A1"), None)]));
    // every sequence of up to 3 (thorough: 4) links over {external U1, external U2, internal} in successive cells:
    // repeated targets, alternations and internal links in between (relationship ids are shared state of the writer)
    let link_at = |k: usize, row: i32| -> Op {
        match k {
            0 => SetLink(0, row, 1, s("https://example.com/docs"), None),
            1 => SetLink(0, row, 1, s("https://example.com/blog"), None),
            _ => SetInternalLink(0, row, 1, s("Sheet2!A1"), None),
        }
    };
    let cf_at = |k: usize, row: i32| -> Op {
        let range = format!("A{}:B{}", row, row + 1);
        match k {
            0 => AddCfPlain(0, range, s("A1>0")),
            1 => AddCfFill(0, range, s("A1>1"), s("#FFFF00")),
            _ => AddCf(0, range, s("A1>2")),
        }
    };
    // every sequence of up to 3 (thorough: 4) conditional formats over {empty format, fill, bold}: the dxf table is
    // shared state of the writer and the rules index into it
    for n in 1..=(if thorough { 4usize } else { 3 }) {
        for code in 0..3usize.pow(n as u32) {
            let mut c = code;
            let mut links = vec![];
            let mut cfs = vec![];
            for i in 0..n {
                links.push(link_at(c % 3, 1 + i as i32));
                cfs.push(cf_at(c % 3, 1 + i as i32));
                c /= 3;
            }
            v.push(("empty", links));
            v.push(("empty", cfs));
        }
    }
    v
}

pub fn run(run: &mut Run) {
    // export / import allocate and free tens of megabytes per case: keep the pages (one arena per lane)
    crate::isolate::tune_malloc(crate::env::workers() as i32);
    let thorough = run.tier.thorough();
    let mut outcomes = std::collections::HashSet::new();
    let mut unspec = 0u64;
    let mut bounds = vec![];
    // (a) history words
    let full = seeds::alphabet_full();
    let depth = if thorough { 2 } else { 1 };
    let core = full.clone();
    for len in 2..=depth {
        let cfg = HistCfg {
            seeds: seeds::SEEDS.to_vec(),
            alphabet: core.clone(),
            depth: len,
        };
        let (outs, st, errs) = hist::explore(&cfg, len, &|seed, word| judge(base_static(seed), word));
        for e in errs {
            run.machinery_errors.push(e);
        }
        run.evaluations += st.words;
        run.traces += st.words;
        run.transitions += st.steps + 4 * st.words;
        for w in outs {
            if w.nontrivial {
                run.nontrivial += 1;
            }
            run.states += 1;
            outcomes.insert(w.digest);
            unspec += w.unspecified;
            run.add_all(w.ds);
        }
        bounds.push(json!({"family": "history words (full alphabet)", "length": len, "alphabet_size": core.len(), "seeds": seeds::SEEDS,
            "words_ok": st.words, "words_cut_at_first_error": st.words_cut}));
    }
    bounds.push(json!({"family": "history words (full alphabet)", "length": 1, "alphabet_size": full.len(), "seeds": seeds::SEEDS}));
    // (b)-(d) fixed cases
    let mut cases = fixed_cases(thorough);
    // words of length 1 (every operation of the full alphabet from every seed) run with the fixed cases, in chunks
    for seed in seeds::SEEDS {
        for op in &full {
            cases.push((seed, vec![op.clone()]));
        }
    }
    let chunk = 8;
    let n_units = cases.len().div_ceil(chunk);
    let res = crate::env::par_units(n_units, |u| {
        let mut v = vec![];
        for (b, ops) in cases.iter().skip(u * chunk).take(chunk) {
            v.push(judge(b, ops));
        }
        v
    });
    let mut cut = 0u64;
    for r in res {
        match r {
            Ok(v) => {
                for w in v {
                    match w {
                        Some(w) => {
                            run.evaluations += 1;
                            run.traces += 1;
                            run.transitions += 5;
                            run.states += 1;
                            if w.nontrivial {
                                run.nontrivial += 1;
                            }
                            outcomes.insert(w.digest);
                            unspec += w.unspecified;
                            run.add_all(w.ds);
                        }
                        None => cut += 1,
                    }
                }
            }
            Err(e) => run.machinery_errors.push(format!("unit panicked: {}", e)),
        }
    }
    bounds.push(json!({"family": "texts over the XML-tricky alphabet (cell text, quote-prefixed text, formula literal, sheet name, format literal), formula corpus, CSE arrays, style attributes on cell/row/column, borders, sheet names, structure, names, links, feature workbooks",
        "text_alphabet": SIGMA_X.to_vec(), "text_length": if thorough { 3 } else { 2 }, "formulas": formula_corpus().len(),
        "cases": cases.len(), "cases_rejected_by_the_api": cut}));
    run.distinct_outcomes = outcomes.len() as u64;
    run.bound = json!({"families": bounds, "hash_seed": crate::env::hash_seed()});
    run.extra.insert("fields_not_compared_unspecified".into(), json!(unspec));
    run.rule = "each workbook state (seed or feature workbook plus a word of API operations, all Ok) is evaluated, observed, exported with save_xlsx_to_writer, imported with load_from_xlsx_bytes (same locale / timezone / name arguments), rebuilt with Model::from_workbook, evaluated and observed again; the two observations must be equal field by field. non-trivial = the operations changed the observation of the seed (or the case is a seed itself)".into();
    run.sample(json!({"seed": "basic", "ops": [full[0].clone()]}));
    if let Some((b, ops)) = cases.get(cases.len() / 2) {
        run.sample(json!({"seed": b, "ops": ops}));
    }
    if let Some((b, ops)) = cases.last() {
        run.sample(json!({"seed": b, "ops": ops}));
    }
    run.assume("not compared (unspecified by the statement or import arguments by design): workbook name, locale, timezone, theme, named styles, sheet ids");
    run.assume("observation window: rows/columns 1..7 plus every stored cell, link, row and column descriptor");
    run.assume("workbooks outside the listed families (longer histories, other strings, other formulas) are not covered");
}

pub fn replay(case: &Value) -> Vec<Disagreement> {
    let seed = case["seed"].as_str().unwrap_or("blank");
    let ops: Vec<Op> = match serde_json::from_value(case["ops"].clone()) {
        Ok(o) => o,
        Err(_) => return vec![],
    };
    judge(base_static(seed), &ops).map(|w| w.ds).unwrap_or_default()
}

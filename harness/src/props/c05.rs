//! C05 Every formula value is consistent with its inputs; #CIRC! exactly on cycles.
//!
//! Space: every workbook over {Sheet1!A1, A2, B1, B2, Sheet2!A1} with each cell drawn from GAMMA (constants of every
//! kind and formulas: references, a range aggregate, concatenation, arithmetic, a conditional, cross-sheet references
//! both ways, a defined name), plus dependency chains of length 50 / 500 in both directions and a two-sheet ping-pong.
//! Oracle 1 (local consistency): every formula cell is re-evaluated alone, in a fresh model in which every other stored
//! cell holds the full workbook's current value as a constant; the value must be identical.
//! Oracle 2 (cycles): the static reference graph is built from the public AST; a cell on a cycle of unconditional edges
//! must show #CIRC! (when no other error is reachable that could legitimately pre-empt it), and a cell showing #CIRC! must
//! be on a static cycle or directly read a cell showing #CIRC!.

use crate::cellval::{a1, all_cells, cell_val, Val};
use crate::env::guarded;
use crate::report::{Disagreement, Run};
use ironcalc_base::expressions::parser::Node;
use ironcalc_base::expressions::token::Error;
use ironcalc_base::types::Cell;
use ironcalc_base::{Function, Model};
use serde_json::{json, Value};
use std::collections::{BTreeMap, BTreeSet};

type Pos = (u32, i32, i32);

pub const CELLS: [Pos; 5] = [(0, 1, 1), (0, 2, 1), (0, 1, 2), (0, 2, 2), (1, 1, 1)];

pub const GAMMA: [&str; 14] = [
    "",
    "1",
    "a",
    "TRUE",
    "#DIV/0!",
    "=A1",
    "=B1+1",
    "=A2&B2",
    "=SUM(A1:B2)",
    "=Sheet2!A1",
    "=Sheet1!A1",
    "=IF(A2>0,B1,B2)",
    "=nm",
    "=1E308*10",
];
/// quick tier: the sub-alphabet (indices into GAMMA) used for the fifth cell (Sheet2!A1); all 13 in thorough
const QUICK_S2: [usize; 5] = [0, 1, 5, 6, 10];

const NAME: &str = "nm";
const NAME_TARGET: &str = "Sheet1!$B$2";
const NAME_POS: Pos = (0, 2, 2);

fn pos_name(p: Pos) -> String {
    format!("Sheet{}!{}", p.0 + 1, a1(p.1, p.2))
}

fn new_model(sheets: usize, with_name: bool) -> Result<Model<'static>, String> {
    let mut m = Model::new_empty("m", "en", "UTC", "en")?;
    for i in 1..sheets {
        m.add_sheet(&format!("Sheet{}", i + 1))?;
    }
    if with_name {
        m.new_defined_name(NAME, None, NAME_TARGET)?;
    }
    Ok(m)
}

fn build(sheets: usize, with_name: bool, inputs: &[(Pos, String)]) -> Result<Model<'static>, String> {
    let mut m = new_model(sheets, with_name)?;
    for (p, t) in inputs {
        if !t.is_empty() {
            m.set_user_input(p.0, p.1, p.2, t.clone())?;
        }
    }
    m.evaluate();
    Ok(m)
}

fn set_const(m: &mut Model, p: Pos, v: &Val) -> Result<(), String> {
    match v {
        Val::Blank => Ok(()),
        Val::Num(n) => m.update_cell_with_number(p.0, p.1, p.2, *n),
        Val::Str(s) => m.update_cell_with_text(p.0, p.1, p.2, s),
        Val::Bool(b) => m.update_cell_with_bool(p.0, p.1, p.2, *b),
        Val::Err(e) => m.set_user_input(p.0, p.1, p.2, format!("{}", e)),
        Val::Unevaluated => Err("unevaluated cell".into()),
    }?;
    let back = cell_val(m, p.0, p.1, p.2);
    if &back != v {
        return Err(format!("harness: constant {} written to {} reads back as {}", v.show(), pos_name(p), back.show()));
    }
    Ok(())
}

/// Value of the formula `text` at `c` evaluated alone over the constants `values` (all other stored cells).
fn alone(sheets: usize, with_name: bool, c: Pos, text: &str, values: &BTreeMap<Pos, Val>) -> Result<Val, String> {
    let mut m = new_model(sheets, with_name)?;
    for (p, v) in values {
        if *p != c {
            set_const(&mut m, *p, v)?;
        }
    }
    m.set_user_input(c.0, c.1, c.2, text.to_string())?;
    m.evaluate();
    Ok(cell_val(&m, c.0, c.1, c.2))
}

// ---------- static reference graph from the public AST ----------

#[derive(Default)]
struct Reads {
    /// (target, unconditional?)
    edges: Vec<(Pos, bool)>,
    /// a construct the walker does not understand: no cycle obligation is derived for this cell
    opaque: bool,
}

fn walk(n: &Node, at: Pos, strict: bool, universe: &BTreeSet<Pos>, out: &mut Reads) {
    match n {
        Node::BooleanKind(_) | Node::NumberKind(_) | Node::StringKind(_) | Node::ErrorKind(_) | Node::EmptyArgKind => {}
        Node::ReferenceKind { sheet_index, absolute_row, absolute_column, row, column, .. } => {
            let r = if *absolute_row { *row } else { *row + at.1 };
            let c = if *absolute_column { *column } else { *column + at.2 };
            out.edges.push(((*sheet_index, r, c), strict));
        }
        Node::RangeKind { sheet_index, absolute_row1, absolute_column1, row1, column1, absolute_row2, absolute_column2, row2, column2, .. } => {
            let r1 = if *absolute_row1 { *row1 } else { *row1 + at.1 };
            let c1 = if *absolute_column1 { *column1 } else { *column1 + at.2 };
            let r2 = if *absolute_row2 { *row2 } else { *row2 + at.1 };
            let c2 = if *absolute_column2 { *column2 } else { *column2 + at.2 };
            for p in universe {
                if p.0 == *sheet_index && p.1 >= r1.min(r2) && p.1 <= r1.max(r2) && p.2 >= c1.min(c2) && p.2 <= c1.max(c2) {
                    out.edges.push((*p, strict));
                }
            }
        }
        Node::OpConcatenateKind { left, right }
        | Node::OpSumKind { left, right, .. }
        | Node::OpProductKind { left, right, .. }
        | Node::OpPowerKind { left, right }
        | Node::CompareKind { left, right, .. } => {
            walk(left, at, strict, universe, out);
            walk(right, at, strict, universe, out);
        }
        Node::UnaryKind { right, .. } => walk(right, at, strict, universe, out),
        Node::ImplicitIntersection { child, .. } => walk(child, at, strict, universe, out),
        Node::FunctionKind { kind, args } => match kind {
            Function::Sum => {
                for a in args {
                    walk(a, at, strict, universe, out);
                }
            }
            Function::If => {
                for (i, a) in args.iter().enumerate() {
                    walk(a, at, strict && i == 0, universe, out);
                }
            }
            _ => {
                for a in args {
                    walk(a, at, false, universe, out);
                }
            }
        },
        Node::DefinedNameKind((name, _, _)) => {
            if name.eq_ignore_ascii_case(NAME) {
                out.edges.push((NAME_POS, strict));
            } else {
                out.opaque = true;
            }
        }
        _ => out.opaque = true,
    }
}

fn reachable(from: Pos, g: &BTreeMap<Pos, Vec<Pos>>) -> BTreeSet<Pos> {
    // cells reachable in >= 1 step
    let mut seen = BTreeSet::new();
    let mut stack: Vec<Pos> = g.get(&from).cloned().unwrap_or_default();
    while let Some(p) = stack.pop() {
        if seen.insert(p) {
            if let Some(n) = g.get(&p) {
                stack.extend(n.iter().copied());
            }
        }
    }
    seen
}

struct Judged {
    ds: Vec<(String, String)>,
    formulas: usize,
    dep_edges: usize,
    models: u64,
    digest: u128,
    circ: usize,
}

/// Both oracles on one evaluated model. `inputs` maps the formula cells to their input text (and a symbol for the sig).
fn judge(m: &Model, sheets: usize, with_name: bool, inputs: &[(Pos, String)], sym: &dyn Fn(Pos) -> String, narrow: bool) -> Judged {
    let mut out = Judged { ds: vec![], formulas: 0, dep_edges: 0, models: 0, digest: 0, circ: 0 };
    let mut values: BTreeMap<Pos, Val> = BTreeMap::new();
    let mut formula_cells: Vec<(Pos, i32)> = vec![];
    for (s, r, c, cell) in all_cells(m) {
        let v = crate::cellval::val_of_cell(m, Some(cell));
        if v != Val::Blank {
            values.insert((s, r, c), v);
        }
        match cell {
            Cell::CellFormula { f, .. } | Cell::ArrayFormula { f, .. } => formula_cells.push(((s, r, c), *f)),
            _ => {}
        }
    }
    let mut text = String::new();
    for (p, v) in &values {
        text.push_str(&format!("{}={};", pos_name(*p), v.show()));
    }
    out.digest = crate::env::digest(&text);
    out.formulas = formula_cells.len();
    let input_of: BTreeMap<Pos, &String> = inputs.iter().map(|(p, t)| (*p, t)).collect();
    let universe: BTreeSet<Pos> = values.keys().copied().chain(inputs.iter().map(|x| x.0)).collect();

    // oracle 1
    for (p, _) in &formula_cells {
        let t = match input_of.get(p) {
            Some(t) => (*t).clone(),
            None => continue,
        };
        let full = values.get(p).cloned().unwrap_or(Val::Blank);
        if full == Val::Unevaluated {
            out.ds.push((format!("formula cell left unevaluated: formula=`{}`", sym(*p)), format!("{} `{}` holds no value after evaluate()", pos_name(*p), t)));
            continue;
        }
        out.models += 1;
        // long chains: only the cells the formula statically reads are given as constants (500 x 500 constants otherwise)
        let narrowed: BTreeMap<Pos, Val>;
        let values_for_p: &BTreeMap<Pos, Val> = if narrow {
            let f = formula_cells.iter().find(|x| x.0 == *p).map(|x| x.1).unwrap_or(0);
            let mut reads = Reads::default();
            if let Some((n, _)) = m.parsed_formulas.get(p.0 as usize).and_then(|v| v.get(f as usize)) {
                walk(n, *p, true, &universe, &mut reads);
            }
            if reads.opaque {
                &values
            } else {
                let targets: BTreeSet<Pos> = reads.edges.iter().map(|e| e.0).collect();
                narrowed = values.iter().filter(|(k, _)| targets.contains(k)).map(|(k, v)| (*k, v.clone())).collect();
                &narrowed
            }
        } else {
            &values
        };
        match alone(sheets, with_name, *p, &t, values_for_p) {
            Ok(v) => {
                if v != full {
                    // one defect class, recognised by explanation: evaluate_cell hands the *raw* result of a formula to the
                    // reader that demands it first (blank for an empty reference, +-inf for an overflow) while the cell
                    // stores 0 / #NUM!. Re-evaluate with some 0-valued formula cells taken as blank and some #NUM! formula
                    // cells taken as infinite: if that reproduces the workbook's value, this is that class.
                    let zeros: Vec<Pos> = formula_cells.iter().map(|x| x.0).filter(|q| q != p && values.get(q) == Some(&Val::Num(0.0))).collect();
                    let nums: Vec<Pos> = formula_cells.iter().map(|x| x.0).filter(|q| q != p && values.get(q) == Some(&Val::Err(Error::NUM))).collect();
                    let cand: Vec<(Pos, bool)> = zeros.iter().map(|z| (*z, true)).chain(nums.iter().map(|z| (*z, false))).take(6).collect();
                    let mut explained: Option<(bool, bool)> = None;
                    'outer: for mask in 1u32..(1u32 << cand.len()) {
                        for inf in [f64::INFINITY, f64::NEG_INFINITY] {
                            let mut vs = values.clone();
                            let (mut ub, mut ui) = (false, false);
                            for (i, (z, is_zero)) in cand.iter().enumerate() {
                                if mask & (1 << i) != 0 {
                                    if *is_zero {
                                        vs.remove(z);
                                        ub = true;
                                    } else {
                                        vs.insert(*z, Val::Num(inf));
                                        ui = true;
                                    }
                                }
                            }
                            if !ui && inf < 0.0 {
                                continue;
                            }
                            out.models += 1;
                            if alone(sheets, with_name, *p, &t, &vs).ok().as_ref() == Some(&full) {
                                explained = Some((ub, ui));
                                break 'outer;
                            }
                        }
                    }
                    if let Some((ub, ui)) = explained {
                        let what = match (ub, ui) {
                            (true, false) => "blank where the read formula cell shows 0",
                            (false, true) => "the raw non-finite number where the read formula cell shows #NUM!",
                            _ => "raw results (blank and non-finite) where the read formula cells show 0 and #NUM!",
                        };
                        out.ds.push((
                            format!("reader sees {}: reader=`{}`", what, sym(*p)),
                            format!("{} `{}` shows {} in the workbook; over the current values it evaluates to {}; it shows what it would if formula cells displaying 0 (empty reference) / #NUM! (overflow) were blank / infinite\nvalues: {}", pos_name(*p), t, full.show(), v.show(), text),
                        ));
                        continue;
                    }
                    out.ds.push((
                        format!("value differs from re-evaluation over current values: formula=`{}` in-workbook={} alone={}", sym(*p), full.kind(), v.kind()),
                        format!("{} `{}` shows {} in the workbook but evaluates to {} over the current values of all other cells\nvalues: {}", pos_name(*p), t, full.show(), v.show(), text),
                    ));
                }
            }
            Err(e) => out.ds.push((format!("harness: single-formula model failed: {}", e), e.clone())),
        }
    }

    // oracle 2
    let mut g_all: BTreeMap<Pos, Vec<Pos>> = BTreeMap::new();
    let mut g_strict: BTreeMap<Pos, Vec<Pos>> = BTreeMap::new();
    let mut opaque: BTreeSet<Pos> = BTreeSet::new();
    let is_formula: BTreeSet<Pos> = formula_cells.iter().map(|x| x.0).collect();
    for (p, f) in &formula_cells {
        let node = match m.parsed_formulas.get(p.0 as usize).and_then(|v| v.get(*f as usize)) {
            Some((n, _)) => n,
            None => {
                opaque.insert(*p);
                continue;
            }
        };
        let mut reads = Reads::default();
        walk(node, *p, true, &universe, &mut reads);
        if reads.opaque {
            opaque.insert(*p);
        }
        for (t, strict) in reads.edges {
            g_all.entry(*p).or_default().push(t);
            if strict {
                g_strict.entry(*p).or_default().push(t);
            }
            if is_formula.contains(&t) && t != *p {
                out.dep_edges += 1;
            }
        }
    }
    let circ = Val::Err(Error::CIRC);
    for (p, _) in &formula_cells {
        let v = values.get(p).cloned().unwrap_or(Val::Blank);
        let reach_all = reachable(*p, &g_all);
        let on_cycle_all = reach_all.contains(p);
        let on_cycle_strict = reachable(*p, &g_strict).contains(p);
        if v == circ {
            out.circ += 1;
        }
        let any_opaque = opaque.contains(p) || reach_all.iter().any(|q| opaque.contains(q));
        if on_cycle_strict && v != circ && !any_opaque {
            // another error reachable from here may legitimately pre-empt the cycle: unspecified
            // (an error source is a cell off every unconditional cycle: the content alphabet has no formula that both
            // sits on a cycle and produces an error of its own, so an error shown by a cycle member comes from elsewhere or is wrong)
            let other_error = reach_all
                .iter()
                .filter(|q| !reachable(**q, &g_strict).contains(*q))
                .any(|q| matches!(values.get(q), Some(Val::Err(e)) if *e != Error::CIRC));
            if !other_error {
                out.ds.push((
                    format!("cell on a reference cycle does not show #CIRC!: formula=`{}` shows={}", sym(*p), v.kind()),
                    format!("{} is on a cycle of unconditional references and no other error is reachable, but shows {}\nvalues: {}", pos_name(*p), v.show(), text),
                ));
            }
        }
        if v == circ && !on_cycle_all && !any_opaque {
            let reads_circ = g_all.get(p).map(|ts| ts.iter().any(|t| values.get(t) == Some(&circ))).unwrap_or(false);
            if !reads_circ {
                out.ds.push((
                    format!("#CIRC! shown off-cycle: formula=`{}`", sym(*p)),
                    format!("{} shows #CIRC! but is on no reference cycle and reads no cell showing #CIRC!\nvalues: {}", pos_name(*p), text),
                ));
            }
        }
    }
    out
}

// ---------- cases ----------

fn inputs_of_case(case: &Value) -> Option<(usize, bool, Vec<(Pos, String)>)> {
    match case["kind"].as_str()? {
        "grid" => {
            let c = case["contents"].as_array()?;
            let v: Vec<(Pos, String)> = CELLS.iter().zip(c.iter()).map(|(p, t)| (*p, t.as_str().unwrap_or("").to_string())).collect();
            Some((2, true, v))
        }
        "chain" => {
            let n = case["n"].as_u64()? as i32;
            let fwd = case["dir"].as_str()? == "forward";
            let mut v = vec![];
            for i in 1..=n {
                let t = if fwd {
                    if i == 1 { "1".to_string() } else { format!("=A{}+1", i - 1) }
                } else if i == n {
                    "1".to_string()
                } else {
                    format!("=A{}+1", i + 1)
                };
                v.push(((0u32, i, 1), t));
            }
            Some((1, false, v))
        }
        "pingpong" => {
            let n = case["n"].as_u64()? as i32;
            let mut v = vec![];
            for i in 1..=n {
                v.push(((0u32, i, 1), format!("=Sheet2!A{}+1", i)));
                v.push(((1u32, i, 1), format!("=Sheet1!A{}+1", i + 1)));
            }
            v.push(((0u32, n + 1, 1), "1".to_string()));
            Some((2, false, v))
        }
        _ => None,
    }
}

struct CaseOut {
    ds: Vec<Disagreement>,
    j: Option<Judged>,
}

fn check_case(case: &Value) -> CaseOut {
    let (sheets, with_name, inputs) = match inputs_of_case(case) {
        Some(x) => x,
        None => return CaseOut { ds: vec![], j: None },
    };
    let grid = case["kind"] == "grid";
    let r = guarded(|| -> Result<Judged, String> {
        let m = build(sheets, with_name, &inputs)?;
        let sym = |p: Pos| -> String {
            if grid {
                inputs.iter().find(|x| x.0 == p).map(|x| x.1.clone()).unwrap_or_default()
            } else {
                format!("{} link", case["kind"].as_str().unwrap_or(""))
            }
        };
        let mut j = judge(&m, sheets, with_name, &inputs, &sym, !grid);
        // chains have a closed form as well
        if !grid {
            let n = case["n"].as_u64().unwrap_or(0) as i32;
            let expect = |p: Pos| -> f64 {
                match case["kind"].as_str().unwrap_or("") {
                    "chain" if case["dir"] == "forward" => p.1 as f64,
                    "chain" => (n - p.1 + 1) as f64,
                    _ => (2 * (n - p.1 + 1) + 1 - p.0 as i32) as f64,
                }
            };
            for (p, _) in &inputs {
                let v = cell_val(&m, p.0, p.1, p.2);
                if v != Val::Num(expect(*p)) {
                    j.ds.push((
                        format!("{} value wrong: got={}", case["kind"].as_str().unwrap_or(""), v.kind()),
                        format!("{} shows {} expected {}", pos_name(*p), v.show(), expect(*p)),
                    ));
                    break;
                }
            }
        }
        Ok(j)
    });
    match r {
        Ok(Ok(j)) => CaseOut {
            ds: j.ds.iter().map(|(sig, detail)| Disagreement { sig: sig.clone(), case: case.clone(), detail: detail.clone() }).collect(),
            j: Some(j),
        },
        Ok(Err(e)) => CaseOut {
            ds: vec![Disagreement { sig: format!("building the workbook failed: {}", e), case: case.clone(), detail: e }],
            j: None,
        },
        Err(p) => CaseOut {
            ds: vec![Disagreement { sig: format!("panic at={}", p.rsplit(" @ ").next().unwrap_or("")), case: case.clone(), detail: p }],
            j: None,
        },
    }
}

fn grid_case(idx: &[usize; 5]) -> Value {
    json!({"kind": "grid", "contents": idx.iter().map(|i| GAMMA[*i]).collect::<Vec<_>>()})
}

pub fn run(run: &mut Run) {
    let thorough = run.tier.thorough();
    let g = GAMMA.len();
    let s2: Vec<usize> = if thorough { (0..g).collect() } else { QUICK_S2.to_vec() };
    let n_grid = g * g * g * g * s2.len();
    let mut extra: Vec<Value> = vec![];
    for n in if thorough { vec![50u64, 500] } else { vec![50u64, 200] } {
        extra.push(json!({"kind": "chain", "n": n, "dir": "forward"}));
        extra.push(json!({"kind": "chain", "n": n, "dir": "backward"}));
    }
    extra.push(json!({"kind": "pingpong", "n": if thorough { 100 } else { 30 }}));
    let chunk = 256;
    let n_units = n_grid.div_ceil(chunk) + extra.len();
    let grid_units = n_grid.div_ceil(chunk);
    let res = crate::env::par_units(n_units, |u| {
        let mut ds = vec![];
        let (mut formulas, mut models, mut nontrivial, mut circ) = (0u64, 0u64, 0u64, 0u64);
        let mut digests: Vec<u128> = vec![];
        let mut one = |case: &Value| {
            let o = check_case(case);
            ds.extend(o.ds);
            if let Some(j) = o.j {
                formulas += j.formulas as u64;
                models += 1 + j.models;
                if j.dep_edges > 0 {
                    nontrivial += 1;
                }
                circ += (j.circ > 0) as u64;
                digests.push(j.digest);
            }
        };
        if u < grid_units {
            for k in u * chunk..((u + 1) * chunk).min(n_grid) {
                let mut kk = k;
                let mut idx = [0usize; 5];
                for slot in idx.iter_mut().take(4) {
                    *slot = kk % g;
                    kk /= g;
                }
                idx[4] = s2[kk];
                one(&grid_case(&idx));
            }
        } else {
            one(&extra[u - grid_units]);
        }
        (ds, formulas, models, nontrivial, circ, digests)
    });
    let mut outcomes: BTreeSet<u128> = BTreeSet::new();
    let mut circ_total = 0u64;
    for r in res {
        match r {
            Ok((ds, f, mo, nt, circ, dg)) => {
                run.add_all(ds);
                run.transitions += f;
                run.traces += mo;
                run.nontrivial += nt;
                circ_total += circ;
                outcomes.extend(dg);
            }
            Err(e) => run.machinery_errors.push(format!("unit panicked: {}", e)),
        }
    }
    run.evaluations = (n_grid + extra.len()) as u64;
    run.states = run.evaluations;
    run.distinct_outcomes = outcomes.len() as u64;
    run.extra.insert("workbooks_showing_circ".into(), json!(circ_total));
    run.extra.insert("formula_cells_checked".into(), json!(run.transitions));
    run.rule = "a workbook is non-trivial when at least one formula cell reads another formula cell (a dependency order exists)".into();
    run.bound = json!({"cells": ["Sheet1!A1","Sheet1!A2","Sheet1!B1","Sheet1!B2","Sheet2!A1"], "alphabet": GAMMA,
        "alphabet_of_Sheet2!A1": s2.iter().map(|i| GAMMA[*i]).collect::<Vec<_>>(), "defined_name": {"nm": NAME_TARGET},
        "grid_workbooks": n_grid, "extra": extra});
    run.sample(grid_case(&[6, 5, 7, 8, 10]));
    run.sample(grid_case(&[11, 1, 5, 12, 6]));
    run.sample(extra[1].clone());
    run.exhaustive = true;
    run.assume("oracle 1 uses the engine itself as a single-formula evaluator over constant cells (independent of evaluation order, marks and caches, not of operator semantics: that is C06)");
    run.assume("a cycle obligation is waived when an error other than #CIRC! is reachable from the cell (it may legitimately pre-empt the cycle) and for edges under IF branches / functions other than SUM");
    run.assume("values are compared exactly (kind and value); error origin/message texts are not compared");
    run.assume("for the chain / ping-pong workbooks the single-formula model holds only the cells the formula statically reads (grid workbooks: all other cells)");
}

pub fn replay(case: &Value) -> Vec<Disagreement> {
    check_case(case).ds
}

//! C10 Display language and locale never change what formulas compute.
//!
//! Part A (corpus x all ordered pairs): a workbook (data, defined names incl. a LAMBDA, a conditional format) is
//! built in language l1 / locale loc1 and the corpus formula is typed there as the text the display printer gives
//! for (l1, loc1). Then for EVERY target (l2, loc2): set_language(l2) -> nothing stored and no value changes;
//! the formula shown in l2 re-entered stores the same formula; set_locale(loc2) -> nothing stored changes, values
//! change only for formulas using TEXT/VALUE/NUMBERVALUE/DOLLAR/FIXED/DATEVALUE/TIMEVALUE; re-entry again; and back.
//! Part B (switches inside histories): every word of <=2 language-neutral operations from the `basic` seed, with a
//! language or locale switch inserted at every position, must leave the same stored formulas, names, conditional
//! formats and values as the same word without the switch.

use crate::fx;
use crate::ops::Op;
use crate::props::c09;
use crate::report::{Disagreement, Run};
use crate::seeds;
use ironcalc_base::cf_types::CfRuleInput;
use ironcalc_base::expressions::parser::stringify::{to_localized_string, to_rc_format};
use ironcalc_base::expressions::parser::Node;
use ironcalc_base::{Function, UserModel};
use serde_json::{json, Value};

const FROW: i32 = 3;
const FCOL: i32 = 3;

fn hand_corpus() -> Vec<&'static str> {
    vec![
        "TRUE", "FALSE", "TRUE()", "NOT(TRUE)", "IF(TRUE,1,2)", "AND(TRUE,FALSE)",
        "#REF!", "#NAME?", "#VALUE!", "#DIV/0!", "#N/A", "#NUM!", "#ERROR!", "#N/IMPL!", "#SPILL!", "#CALC!", "#CIRC!", "#NULL!",
        "IFERROR(#N/A,1.5)", "ISNA(#N/A)",
        "1.5+2.25", "1E-3*2", "0.1+0.2", "1.5", "A1*1.5", "SUM(1.5,2.5,A1)", "SUM(1,2,3)", "MAX(A1,B1,2.5)",
        "{1,2;3,4}", "{1.5,2.5}", "{TRUE,\"a\"}", "SUM({1.5,2.5;3.5,4.5})", "INDEX({1,2;3,4},2,1)",
        "IF(A1>1.5,\"a;b\",\"c,d\")", "\"1,5\"", "\"a;b\"&\"c,d\"", "LEN(\"1.5\")", "CONCAT(1.5,\"x\")", "1.5&\"\"",
        "nm", "nm*2", "SUM(rng)", "lam(2)", "A1", "$B$2", "Sheet2!A1", "SUM(A1:B2)", "SUM(Sheet2!A1,A1)", "A1:B2",
        "TEXT(1234.5,\"#,##0.00\")", "TEXT(0.5,\"0%\")", "VALUE(\"1.5\")", "VALUE(\"1,5\")", "NUMBERVALUE(\"1,5\",\",\",\".\")",
        "DOLLAR(1234.5)", "FIXED(1234.567,2)", "DATEVALUE(\"2020-01-02\")", "TIMEVALUE(\"12:00\")",
        "ROUND(2.567,1)", "LEFT(\"abc\",2)", "DATE(2020,1,2)", "YEAR(DATE(2020,1,2))", "NOW()", "TODAY()",
        "LET(x,1.5,x*2)", "LAMBDA(x,x+0.5)(1)", "SUM(,1)", "@A1", "SUMIF(A1:B2,\">2.5\")", "COUNTIF(A1:B2,\"<>2\")",
        "VLOOKUP(2,A1:B2,2,FALSE)", "MID(\"hello\",2,3)", "UPPER(\"é\")", "PI()", "SQRT(2)", "1/3", "2^0.5", "-A1%",
        "SUBSTITUTE(\"a,b\",\",\",\";\")", "TEXTJOIN(\";\",TRUE,A1,B1)", "SEARCH(\".\",\"1.5\")", "SWITCH(A1,2,\"two\",\"other\")",
        "IFS(A1>1,\"x\",TRUE,\"y\")", "XOR(TRUE,FALSE)", "CHOOSE(2,1.5,2.5)", "AVERAGE(A1:B2)", "SUMPRODUCT(A1:A2,B1:B2)",
    ]
}

const LOCALE_DEPENDENT: [&str; 7] = ["Text", "Value", "Numbervalue", "Dollar", "Fixed", "Datevalue", "Timevalue"];
const EXCLUDED_FUNCTIONS: [&str; 3] = ["Rand", "Randbetween", "Randarray"];

fn function_names(n: &Node, out: &mut Vec<String>) {
    if let Node::FunctionKind { kind, .. } = n {
        out.push(format!("{:?}", kind));
    }
    for (_, c) in fx::children(n) {
        function_names(c, out);
    }
}

pub fn corpus(thorough: bool) -> Vec<String> {
    let mut v: Vec<String> = hand_corpus().iter().map(|s| s.to_string()).collect();
    if thorough {
        // every function once: FN(1) (FN() where one argument is a parse error is filtered by the parser later)
        let en = fx::lang("en");
        for f in Function::into_iter() {
            let name = format!("{:?}", f);
            if EXCLUDED_FUNCTIONS.contains(&name.as_str()) || matches!(f, Function::Lambda | Function::Let) {
                continue;
            }
            v.push(format!("{}(1)", f.to_localized_name(en)));
        }
    } else {
        v.truncate(64);
    }
    v
}

fn cf_input(formula: &str) -> CfRuleInput {
    let mut dxf = ironcalc_base::types::Dxf::default();
    dxf.font = Some(ironcalc_base::types::DxfFont {
        b: Some(true),
        ..Default::default()
    });
    CfRuleInput::Formula {
        formula: formula.to_string(),
        format: dxf,
        stop_if_true: false,
    }
}

fn localized(env: &mut c09::Env, english: &str, lang: &str, locale: &str) -> Option<(Node, String)> {
    let t = env.parse_source(english);
    if fx::has_parse_error(&t) {
        return None;
    }
    let s = to_localized_string(&t, &fx::ctx("Sheet1", FROW, FCOL), fx::loc(locale), fx::lang(lang));
    Some((t, s))
}

/// Builds the workbook in (l1, loc1) and types the formula there. None = the typed text is not taken as the same
/// formula (C09's subject), so the case is outside this property's quantifier.
fn build(env: &mut c09::Env, english: &str, l1: &'static str, loc1: &'static str) -> Option<(UserModel<'static>, Node)> {
    let (t, typed) = localized(env, english, l1, loc1)?;
    let mut um = UserModel::new_empty("b", loc1, "UTC", l1).ok()?;
    let _ = um.rename_sheet(0, "Sheet1");
    um.new_sheet().ok()?;
    let _ = um.rename_sheet(1, "Sheet2");
    if um.get_model().workbook.get_worksheet_names() != vec!["Sheet1".to_string(), "Sheet2".to_string()] {
        return None;
    }
    for (s, r, c, v) in [(0, 1, 1, "2"), (0, 2, 1, "5"), (0, 1, 2, "7"), (0, 2, 2, "11"), (1, 1, 1, "13")] {
        um.set_user_input(s, r, c, v).ok()?;
    }
    um.new_defined_name("nm", None, "Sheet1!$A$1").ok()?;
    um.new_defined_name("rng", None, "Sheet1!$A$1:$B$2").ok()?;
    let (_, lam) = localized(env, "LAMBDA(x,x*1.5)", l1, loc1)?;
    um.new_defined_name("lam", None, &format!("={}", lam)).ok()?;
    let (_, cf) = localized(env, "A1>1.5", l1, loc1)?;
    um.add_conditional_formatting(0, "A1:B2", cf_input(&format!("={}", cf))).ok()?;
    um.set_user_input(0, FROW, FCOL, &format!("={}", typed)).ok()?;
    um.evaluate();
    let stored = fx::stored_rc(um.get_model(), 0, FROW, FCOL)?;
    // the parser the model used knows the same sheets and names as c09's environment
    if stored != to_rc_format(&t) {
        return None;
    }
    Some((um, t))
}

fn diff_text(a: &fx::Snap, b: &fx::Snap, values: bool) -> Option<(String, String)> {
    let ds = fx::map_diff(&a.stored, &b.stored, 4);
    if !ds.is_empty() {
        let cls: std::collections::BTreeSet<&str> = ds.iter().map(|d| fx::key_class(&d.0)).collect();
        return Some((
            format!("stored({})", cls.into_iter().collect::<Vec<_>>().join(",")),
            ds.iter().map(|(k, x, y)| format!("{}: `{}` -> `{}`", k, x, y)).collect::<Vec<_>>().join("\n"),
        ));
    }
    if values {
        let dv = fx::map_diff(&a.values, &b.values, 4);
        if !dv.is_empty() {
            return Some((
                "value".into(),
                dv.iter().map(|(k, x, y)| format!("{}: {} -> {}", k, x, y)).collect::<Vec<_>>().join("\n"),
            ));
        }
    }
    None
}

fn root_class(t: &Node) -> String {
    match t {
        Node::FunctionKind { kind, .. } => format!("Function({:?})", kind),
        other => fx::kind(other),
    }
}

pub struct AOut {
    pub ds: Vec<Disagreement>,
    pub targets: u64,
    pub built: bool,
    pub calls: u64,
}

/// One (formula, l1, loc1): all 30 targets in sequence on one workbook (rebuilt after a violation).
pub fn check_a(env: &mut c09::Env, english: &str, l1: &'static str, loc1: &'static str, only: Option<(&str, &str)>) -> AOut {
    let mut out = AOut { ds: vec![], targets: 0, built: false, calls: 0 };
    let (mut um, t) = match build(env, english, l1, loc1) {
        Some(x) => x,
        None => return out,
    };
    out.built = true;
    let mut fns = vec![];
    function_names(&t, &mut fns);
    let locale_dep = fns.iter().any(|f| LOCALE_DEPENDENT.contains(&f.as_str()));
    let s0 = fx::snap(um.get_model());
    for l2 in fx::LANGS {
        for loc2 in fx::LOCALES {
            if let Some((a, b)) = only {
                if a != l2 || b != loc2 {
                    continue;
                }
            }
            out.targets += 1;
            let case = json!({"part":"A","formula": english, "from":[l1, loc1], "to":[l2, loc2]});
            let mut bad: Option<(String, String)> = None;
            let r = crate::env::guarded(|| {
                // 1. language
                if let Err(e) = um.set_language(l2) {
                    return Some((format!("set_language error"), e));
                }
                let s1 = fx::snap(um.get_model());
                if let Some((cls, why)) = diff_text(&s0, &s1, true) {
                    return Some((format!("set_language changes {} lang={}", cls, l2), why));
                }
                // 2. re-enter what is shown
                let shown = um.get_model().get_cell_formula(0, FROW, FCOL).ok().flatten().unwrap_or_default();
                let reenter = |um: &mut UserModel, shown: &str, base: &fx::Snap, stage: &str, l: &'static str, c: &'static str, env: &mut c09::Env| -> Option<(String, String)> {
                    let cause = |env: &mut c09::Env| {
                        c09::classify_public(&t, l, c, env).unwrap_or_else(|| "display-roundtrip-ok".into())
                    };
                    if let Err(e) = um.set_user_input(0, FROW, FCOL, shown) {
                        return Some((format!("{} rejected cause={}", stage, cause(env)), format!("shown `{}`: {}", shown, e)));
                    }
                    um.evaluate();
                    let s = fx::snap(um.get_model());
                    if let Some((cls, why)) = diff_text(base, &s, true) {
                        return Some((format!("{} changes {} cause={}", stage, cls, cause(env)), format!("shown `{}` re-entered:\n{}", shown, why)));
                    }
                    None
                };
                if let Some(x) = reenter(&mut um, &shown, &s0, "reenter-after-language", l2, loc1, env) {
                    return Some(x);
                }
                // 3. locale
                if let Err(e) = um.set_locale(loc2) {
                    return Some(("set_locale error".into(), e));
                }
                let s2 = fx::snap(um.get_model());
                if let Some((cls, why)) = diff_text(&s0, &s2, !locale_dep) {
                    return Some((format!("set_locale changes {} root={}", cls, root_class(&t)), why));
                }
                // 4. re-enter in the new locale
                let shown = um.get_model().get_cell_formula(0, FROW, FCOL).ok().flatten().unwrap_or_default();
                if let Some(x) = reenter(&mut um, &shown, &s2, "reenter-after-locale", l2, loc2, env) {
                    return Some(x);
                }
                // 5. and back
                let _ = um.set_language(l1);
                let _ = um.set_locale(loc1);
                let s3 = fx::snap(um.get_model());
                if let Some((cls, why)) = diff_text(&s0, &s3, true) {
                    return Some((format!("switch-back changes {} root={}", cls, root_class(&t)), why));
                }
                None
            });
            out.calls += 8;
            match r {
                Ok(x) => bad = x,
                Err(p) => {
                    bad = Some((format!("panic at={}", p.rsplit(" @ ").next().unwrap_or("")), p));
                }
            }
            if let Some((sig, detail)) = bad {
                out.ds.push(Disagreement {
                    sig: format!("A {}", sig),
                    case,
                    detail: format!("formula `{}` typed in {}/{} then shown in {}/{}\n{}", english, l1, loc1, l2, loc2, detail),
                });
                // the workbook may be damaged: rebuild
                match build(env, english, l1, loc1) {
                    Some((m, _)) => um = m,
                    None => return out,
                }
            }
        }
    }
    out
}

// ------------------------------------------------------------------ part B

fn neutral_input(text: &str) -> bool {
    matches!(
        text,
        "5" | "abc" | "'34" | "" | "=A1+1" | "=Sheet2!A1" | "x" | "=Sheet1!A2*2" | "7" | "=A2#" | "=nm" | "=E6#*2" | "=1/0"
    )
}

pub fn alphabet_b() -> Vec<Op> {
    let mut v = vec![];
    for op in seeds::alphabet_full() {
        let keep = match &op {
            Op::Input(_, _, _, t) => neutral_input(t),
            Op::ArrayFormula(_, _, _, _, _, f) => f == "=A1:B1*2",
            Op::AddCf(_, _, f) | Op::UpdateCf(_, _, _, f) => !f.contains("TRUE"),
            Op::PasteCsv(..) => true,
            other => matches!(
                other.kind(),
                "InsertRows" | "InsertCols" | "DeleteRows" | "DeleteCols" | "MoveRows" | "MoveCols" | "CopyPaste"
                    | "CutPaste" | "AutoFillRows" | "AutoFillCols" | "RenameSheet" | "DuplicateSheet" | "DeleteSheet"
                    | "MoveSheet" | "NewName" | "UpdateName" | "DeleteName" | "DeleteCf" | "ClearContents" | "ClearAll"
            ),
        };
        if keep {
            v.push(op);
        }
    }
    v
}

fn switch_op(kind: &str, id: &str) -> Op {
    if kind == "lang" {
        Op::SetLanguage(id.to_string())
    } else {
        Op::SetLocale(id.to_string())
    }
}

/// Runs `ops` from the basic seed; returns the snapshot after every neutral op (None after the first Err).
fn run_word(ops: &[Op], switch: Option<(usize, &Op)>) -> Vec<Result<fx::Snap, String>> {
    let mut um = seeds::load("basic");
    let mut out = vec![];
    for (i, op) in ops.iter().enumerate() {
        if let Some((pos, sw)) = switch {
            if pos == i {
                let _ = sw.apply(&mut um);
            }
        }
        match op.apply(&mut um) {
            Ok(()) => out.push(Ok(fx::snap(um.get_model()))),
            Err(e) => {
                out.push(Err(e));
                return out;
            }
        }
    }
    if let Some((pos, sw)) = switch {
        if pos == ops.len() {
            let _ = sw.apply(&mut um);
            if let Some(last) = out.last_mut() {
                *last = Ok(fx::snap(um.get_model()));
            }
        }
    }
    out
}

/// Names the kind of damage between the run without the switch (`a`) and the run with it (`b`).
fn damage(a: &fx::Snap, b: &fx::Snap) -> String {
    let mut tags: std::collections::BTreeSet<String> = Default::default();
    let sheets: Vec<String> = b
        .stored
        .iter()
        .filter(|(k, _)| k.ends_with(".name"))
        .map(|(_, v)| v.clone())
        .collect();
    let sheet_refs: Vec<&str> = sheets.iter().map(|s| s.as_str()).collect();
    let mut rc = fx::mk_parser(&sheet_refs, vec![], fx::loc("en"), fx::lang("en"));
    fx::set_rc(&mut rc, true);
    let first = sheets.first().cloned().unwrap_or_else(|| "Sheet1".into());
    fn has_named_fn(n: &Node) -> bool {
        matches!(n, Node::NamedFunctionKind { .. }) || fx::children(n).iter().any(|(_, c)| has_named_fn(c))
    }
    for (k, x, y) in fx::map_diff(&a.stored, &b.stored, 1000) {
        match fx::key_class(&k) {
            "formula" => {
                if x == "<absent>" || y == "<absent>" {
                    tags.insert("formula-cell-set".into());
                } else if x.to_lowercase() == y.to_lowercase() {
                    tags.insert("function-name-case".into());
                } else {
                    let ny = rc.parse(&y, &fx::ctx(&first, 1, 1));
                    let nx = rc.parse(&x, &fx::ctx(&first, 1, 1));
                    if fx::has_parse_error(&ny) {
                        tags.insert("stored-text-unparseable".into());
                    } else if has_named_fn(&ny) && !has_named_fn(&nx) {
                        tags.insert("stored-unknown-function".into());
                    } else if x.contains('{') && y.contains('{') {
                        tags.insert("array-literal".into());
                    } else {
                        tags.insert("formula-other".into());
                    }
                }
            }
            other => {
                tags.insert(other.to_string());
            }
        }
    }
    if tags.is_empty() {
        for (_, x, y) in fx::map_diff(&a.values, &b.values, 1000) {
            let tx = x.split(':').next().unwrap_or("").to_string();
            let ty = y.split(':').next().unwrap_or("").to_string();
            if tx == "LogicalValue" && ty == "Text" {
                tags.insert("value:boolean-became-text".into());
            } else if tx == ty && tx == "ErrorValue" {
                tags.insert("value:error-kind".into());
            } else {
                tags.insert(format!("value:{}->{}", tx, ty));
            }
        }
    }
    tags.into_iter().collect::<Vec<_>>().join("+")
}

pub fn check_b(ops: &[Op], skind: &str, sid: &str, pos: usize, base: &[Result<fx::Snap, String>]) -> Vec<Disagreement> {
    let sw = switch_op(skind, sid);
    let case = json!({"part":"B","ops": ops, "switch":[skind, sid], "pos": pos});
    let r = crate::env::guarded(|| run_word(ops, Some((pos, &sw))));
    let got = match r {
        Ok(g) => g,
        Err(p) => {
            return vec![Disagreement {
                sig: format!("B panic switch={} at={}", skind, p.rsplit(" @ ").next().unwrap_or("")),
                case,
                detail: p,
            }]
        }
    };
    for (i, (b, g)) in base.iter().zip(got.iter()).enumerate() {
        let opk = ops[i].kind();
        match (b, g) {
            (Ok(sb), Ok(sg)) => {
                if let Some((_, why)) = diff_text(sb, sg, true) {
                    // one disagreement per kind of damage, so that co-occurring damages do not form new signatures
                    return damage(sb, sg)
                        .split('+')
                        .map(|tag| Disagreement {
                            sig: format!("B switch={} op={} damage={}", skind, opk, tag),
                            case: case.clone(),
                            detail: format!("{} {} before operation {}: after operation {} ({:?}) the workbook differs from the run without the switch\n{}", skind, sid, pos, i, ops[i], why),
                        })
                        .collect();
                }
            }
            (Err(_), Err(_)) => return vec![],
            (Ok(_), Err(e)) => {
                return vec![Disagreement {
                    sig: format!("B switch={} op={} fails-only-with-switch", skind, opk),
                    case,
                    detail: format!("{:?} succeeds without the switch and fails with {} {}: {}", ops[i], skind, sid, e),
                }]
            }
            (Err(e), Ok(_)) => {
                return vec![Disagreement {
                    sig: format!("B switch={} op={} succeeds-only-with-switch", skind, opk),
                    case,
                    detail: format!("{:?} fails without the switch ({}) and succeeds with {} {}", ops[i], e, skind, sid),
                }]
            }
        }
    }
    vec![]
}

// ------------------------------------------------------------------ driver

pub fn run(run: &mut Run) {
    let thorough = run.tier.thorough();
    let forms = corpus(thorough);
    // Part A units: (formula, l1, loc1)
    let mut units: Vec<(&String, &'static str, &'static str)> = vec![];
    for f in &forms {
        for l in fx::LANGS {
            for c in fx::LOCALES {
                units.push((f, l, c));
            }
        }
    }
    let chunk = 30;
    let res = crate::env::par_units(units.len().div_ceil(chunk), |u| {
        let mut env = c09::Env::new();
        let mut ds = vec![];
        let (mut targets, mut built, mut calls) = (0u64, 0u64, 0u64);
        for (f, l, c) in units.iter().skip(u * chunk).take(chunk) {
            let o = check_a(&mut env, f, l, c, None);
            targets += o.targets;
            calls += o.calls;
            if o.built {
                built += 1;
            }
            ds.extend(o.ds);
        }
        (ds, targets, built, calls)
    });
    let (mut targets, mut built) = (0u64, 0u64);
    for r in res {
        match r {
            Ok((ds, t, b, c)) => {
                run.add_all(ds);
                targets += t;
                built += b;
                run.transitions += c;
            }
            Err(e) => run.machinery_errors.push(format!("part A unit panicked: {}", e)),
        }
    }
    run.evaluations += targets;
    run.traces += targets;
    run.nontrivial += targets;

    // Part B
    let alpha = alphabet_b();
    let switches: Vec<(&str, &str)> = if thorough {
        vec![("lang", "es"), ("lang", "fr"), ("lang", "de"), ("lang", "it"), ("locale", "en-GB"), ("locale", "es"), ("locale", "fr"), ("locale", "de"), ("locale", "it")]
    } else {
        vec![("lang", "de"), ("lang", "es"), ("locale", "de"), ("locale", "en-GB")]
    };
    let n = alpha.len();
    let res = crate::env::par_units(n, |u| {
        let mut ds = vec![];
        let (mut words, mut runs) = (0u64, 0u64);
        let mut outcomes = std::collections::BTreeSet::new();
        // words: [a_u] and [a_u, b] for every b
        let mut ws: Vec<Vec<Op>> = vec![vec![alpha[u].clone()]];
        for b in &alpha {
            ws.push(vec![alpha[u].clone(), b.clone()]);
        }
        for w in ws {
            let base = match crate::env::guarded(|| run_word(&w, None)) {
                Ok(b) => b,
                Err(_) => continue, // a panic without any switch is not this property's subject
            };
            if base.iter().any(|r| r.is_err()) {
                continue;
            }
            words += 1;
            if let Some(Ok(s)) = base.last() {
                outcomes.insert(crate::env::digest(&format!("{:?}", s.stored)));
            }
            for (k, id) in &switches {
                for pos in 0..=w.len() {
                    runs += 1;
                    ds.extend(check_b(&w, k, id, pos, &base));
                }
            }
        }
        (ds, words, runs, outcomes)
    });
    let (mut words, mut runs) = (0u64, 0u64);
    let mut outcomes = std::collections::BTreeSet::new();
    for r in res {
        match r {
            Ok((ds, w, rr, o)) => {
                run.add_all(ds);
                words += w;
                runs += rr;
                outcomes.extend(o);
            }
            Err(e) => run.machinery_errors.push(format!("part B unit panicked: {}", e)),
        }
    }
    run.evaluations += runs;
    run.traces += runs;
    run.transitions += runs * 3;
    run.nontrivial += runs;
    run.states = built + words;
    run.distinct_outcomes = outcomes.len() as u64 + built;
    run.rule = "every (formula, typed-in pair, target pair) and every (history, switch, position) is a real switch on a workbook with formulas, names and a conditional format".into();
    run.sample(json!({"part":"A","formula": forms[0], "from":["de","de"], "to":["fr","en-GB"]}));
    run.sample(json!({"part":"A","formula": forms[forms.len() / 2], "from":["en","en"], "to":["it","es"]}));
    run.sample(json!({"part":"B","ops":[alpha[0], alpha[alpha.len() / 2]], "switch":["locale","de"], "pos":1}));
    run.bound = json!({
        "part_A": {"formulas": forms.len(), "typed_in_pairs": 30, "target_pairs": 30, "workbooks_built": built, "workbooks_where_typed_text_is_not_the_formula (C09 domain, skipped)": units.len() as u64 - built, "targets_checked": targets},
        "part_B": {"seed": "basic", "alphabet": n, "depth": 2, "effective_words": words, "switches": switches, "positions": "before each operation and after the last", "runs": runs},
    });
    run.exhaustive = true;
    run.assume("values are allowed to change with the locale only for formulas containing TEXT, VALUE, NUMBERVALUE, DOLLAR, FIXED, DATEVALUE or TIMEVALUE; RAND, RANDBETWEEN and RANDARRAY are not in the corpus");
    run.assume("part B operations take no language- or locale-dependent text (inputs are restricted to neutral literals and formulas without function names, booleans or decimals)");
    run.assume("a formula whose typed localized text is not stored as the same formula is C09's subject and is skipped here (counted)");
}

pub fn replay(case: &Value) -> Vec<Disagreement> {
    let st = |v: &Value| -> &'static str {
        let s = v.as_str().unwrap_or("en");
        fx::LANGS.iter().chain(fx::LOCALES.iter()).find(|x| **x == s).copied().unwrap_or("en")
    };
    if case["part"] == "A" {
        let mut env = c09::Env::new();
        let (l1, c1) = (st(&case["from"][0]), st(&case["from"][1]));
        let (l2, c2) = (st(&case["to"][0]), st(&case["to"][1]));
        return check_a(&mut env, case["formula"].as_str().unwrap_or(""), l1, c1, Some((l2, c2))).ds;
    }
    let ops: Vec<Op> = serde_json::from_value(case["ops"].clone()).unwrap_or_default();
    let base = run_word(&ops, None);
    check_b(
        &ops,
        case["switch"][0].as_str().unwrap_or("lang"),
        case["switch"][1].as_str().unwrap_or("de"),
        case["pos"].as_u64().unwrap_or(0) as usize,
        &base,
    )
}

//! C33 Cell-attached metadata follows its cells.
//!
//! Workbook: a 5x4 grid where cell (r,c) holds the text `T_r_c` and the link `https://u/r_c`; four conditional formats
//! with Formula rules over ranges of the grid, each with two *shadow* formula cells (one in a scratch column in the
//! anchor's row, one in a scratch row in the anchor's column) holding the same formula text.
//! Space: every word of length <= 2 (thorough: 3 over a reduced alphabet) over {insert / delete / move rows and
//! columns through the grid, cut-paste of row bands, column bands and blocks, clear contents}. The last step of every
//! word is judged (the prefix must have been judged clean in the shorter words).
//! Oracle (self-referential): tag and link carry the same index wherever they are, no link without its tag; a
//! conditional format covers exactly the cells whose tags it covered (when these still form a rectangle); its rule
//! formula denotes the cells the shadow formulas denote; clear contents removes the links of the cleared cells and
//! undo brings tags and links back.

use crate::ops::Op;
use crate::report::{Disagreement, Run};
use crate::structural::{Axis, Den, Reader, SOp};
use ironcalc_base::cf_types::{CfRule, CfRuleInput};
use ironcalc_base::expressions::types::Area;
use ironcalc_base::types::Link;
use ironcalc_base::UserModel;
use serde::{Deserialize, Serialize};
use serde_json::{json, Value};
use std::collections::{BTreeMap, BTreeSet};
use std::sync::OnceLock;

const ROWS: i32 = 5;
const COLS: i32 = 4;

const CFS: [(&str, &str, (i32, i32)); 4] = [
    ("A1:A3", "A1<>$B$2", (1, 1)),
    ("B2:C4", "$A2=B$1", (2, 2)),
    ("D5", "COUNTA(A1:B2)>0", (5, 4)),
    ("A4:D4", "$D$5<>\"\"", (4, 1)),
];

#[derive(Clone, Debug, Serialize, Deserialize, PartialEq)]
pub enum COp {
    S(Axis, SOp),
    /// cut (r1,c1,r2,c2) and paste at (row, column)
    Cut(i32, i32, i32, i32, i32, i32),
    /// clear contents (row, column, height, width)
    Clear(i32, i32, i32, i32),
}

impl COp {
    fn kind(&self) -> String {
        match self {
            COp::S(a, o) => format!("{}-{}", o.kind(), a.name()),
            COp::Cut(..) => "cut-paste".into(),
            COp::Clear(..) => "clear-contents".into(),
        }
    }
    fn apply(&self, um: &mut UserModel) -> Result<(), String> {
        match self {
            COp::S(axis, op) => match (axis, *op) {
                (Axis::Rows, SOp::Insert { p, k }) => um.insert_rows(0, p, k),
                (Axis::Cols, SOp::Insert { p, k }) => um.insert_columns(0, p, k),
                (Axis::Rows, SOp::Delete { p, k }) => um.delete_rows(0, p, k),
                (Axis::Cols, SOp::Delete { p, k }) => um.delete_columns(0, p, k),
                (Axis::Rows, SOp::Move { s, n, d }) => um.move_rows_action(0, s, n, d),
                (Axis::Cols, SOp::Move { s, n, d }) => um.move_columns_action(0, s, n, d),
            },
            COp::Cut(r1, c1, r2, c2, tr, tc) => Op::Paste(0, *r1, *c1, *r2, *c2, 0, *tr, *tc, true).apply(um),
            COp::Clear(r, c, h, w) => um.range_clear_contents(&Area {
                sheet: 0,
                row: *r,
                column: *c,
                height: *h,
                width: *w,
            }),
        }
    }
}

pub fn alphabet(full: bool) -> Vec<COp> {
    let mut v = vec![];
    let kmax = 2;
    for (axis, n) in [(Axis::Rows, ROWS), (Axis::Cols, COLS)] {
        for p in 1..=n + 1 {
            for k in 1..=kmax {
                if full || (k == 1 && p <= 3) || (k == 2 && p == 2) {
                    v.push(COp::S(axis, SOp::Insert { p, k }));
                }
            }
        }
        for p in 1..=n {
            for k in 1..=kmax {
                if full || (k == 1 && p <= 3) || (k == 2 && p == 2) {
                    v.push(COp::S(axis, SOp::Delete { p, k }));
                }
            }
        }
        for s in 1..n {
            for nn in 1..=2 {
                for d in [1i32, -1, 2, -2] {
                    if s + d < 1 {
                        continue;
                    }
                    if full || (nn == 1 && d.abs() == 1 && s <= 2) || (nn == 2 && d == 2 && s == 1) {
                        v.push(COp::S(axis, SOp::Move { s, n: nn, d }));
                    }
                }
            }
        }
    }
    // cut-paste: row bands over all used columns, column bands over all used rows, blocks
    let w = 12;
    let h = 12;
    let bands: Vec<COp> = vec![
        COp::Cut(1, 1, 1, w, 2, 1),
        COp::Cut(1, 1, 1, w, 7, 1),
        COp::Cut(2, 1, 3, w, 1, 1),
        COp::Cut(2, 1, 3, w, 3, 1),
        COp::Cut(2, 1, 3, w, 6, 1),
        COp::Cut(4, 1, 5, w, 1, 1),
        COp::Cut(4, 1, 5, w, 6, 1),
        COp::Cut(1, 1, h, 1, 1, 2),
        COp::Cut(1, 1, h, 1, 1, 5),
        COp::Cut(1, 2, h, 3, 1, 1),
        COp::Cut(1, 2, h, 3, 1, 3),
        COp::Cut(1, 2, h, 3, 1, 5),
        COp::Cut(1, 4, h, 4, 1, 1),
        COp::Cut(1, 4, h, 4, 1, 5),
    ];
    let blocks: Vec<COp> = vec![
        COp::Cut(1, 1, 1, 1, 2, 2),
        COp::Cut(1, 1, 1, 1, 7, 5),
        COp::Cut(1, 1, 2, 2, 2, 2),
        COp::Cut(1, 1, 2, 2, 4, 3),
        COp::Cut(1, 1, 2, 2, 6, 1),
        COp::Cut(2, 2, 4, 3, 1, 1),
        COp::Cut(2, 2, 4, 3, 2, 3),
        COp::Cut(1, 1, 3, 1, 3, 1),
        COp::Cut(1, 1, 3, 1, 1, 4),
        COp::Cut(5, 4, 5, 4, 6, 5),
    ];
    if full {
        v.extend(bands);
        v.extend(blocks);
    } else {
        v.extend(bands.into_iter().step_by(3));
        v.extend(blocks.into_iter().step_by(3));
    }
    v.push(COp::Clear(1, 1, 1, 1));
    v.push(COp::Clear(2, 2, 1, 1));
    if full {
        v.push(COp::Clear(1, 1, 2, 2));
        v.push(COp::Clear(4, 1, 1, 4));
    }
    v
}

fn tag(r: i32, c: i32) -> String {
    format!("T_{}_{}", r, c)
}
fn url_of_tag(t: &str) -> String {
    format!("https://u/{}", &t[2..])
}

fn base_bytes() -> &'static [u8] {
    static B: OnceLock<Vec<u8>> = OnceLock::new();
    B.get_or_init(|| {
        let mut um = UserModel::new_empty("c33", "en", "UTC", "en").expect("new_empty");
        um.pause_evaluation();
        for r in 1..=ROWS {
            for c in 1..=COLS {
                um.set_user_input(0, r, c, &tag(r, c)).expect("input");
                um.set_cell_link(
                    0,
                    r,
                    c,
                    Link::External {
                        target: url_of_tag(&tag(r, c)),
                        tooltip: None,
                    },
                    None,
                )
                .expect("link");
            }
        }
        for (k, (range, formula, (ar, ac))) in CFS.iter().enumerate() {
            um.set_user_input(0, *ar, 6 + k as i32, &format!("=IF(FALSE,\"cf{}c\",{})", k, formula))
                .expect("shadow");
            um.set_user_input(0, 8 + k as i32, *ac, &format!("=IF(FALSE,\"cf{}r\",{})", k, formula))
                .expect("shadow");
            let mut dxf = ironcalc_base::types::Dxf::default();
            dxf.font = Some(ironcalc_base::types::DxfFont {
                b: Some(true),
                ..Default::default()
            });
            um.add_conditional_formatting(
                0,
                range,
                CfRuleInput::Formula {
                    formula: formula.to_string(),
                    format: dxf,
                    stop_if_true: false,
                },
            )
            .expect("cf");
        }
        um.resume_evaluation();
        um.evaluate();
        um.to_bytes()
    })
}

#[derive(Clone, PartialEq, Debug, Default)]
pub struct Scan {
    /// position -> tag text
    pub tags: BTreeMap<(i32, i32), String>,
    /// position -> link target
    pub links: BTreeMap<(i32, i32), String>,
    /// storage order: (range, formula)
    pub cfs: Vec<(String, String)>,
    /// marker -> (row, column, formula text)
    pub shadows: BTreeMap<String, (i32, i32, String)>,
}

pub fn scan(um: &UserModel) -> Scan {
    let mut s = Scan::default();
    let m = um.get_model();
    let ws = &m.workbook.worksheets[0];
    let mut rows: Vec<i32> = ws.sheet_data.keys().copied().collect();
    rows.sort_unstable();
    for r in rows {
        let mut cols: Vec<i32> = ws.sheet_data[&r].keys().copied().collect();
        cols.sort_unstable();
        for c in cols {
            let t = um.get_cell_content(0, r, c).unwrap_or_default();
            if t.starts_with("T_") {
                s.tags.insert((r, c), t);
            } else if t.starts_with("=IF(FALSE,\"cf") {
                let marker = t[11..].split('"').next().unwrap_or("").to_string();
                s.shadows.insert(marker, (r, c, t));
            }
        }
    }
    for l in um.get_links_list(0).unwrap_or_default() {
        let target = match &l.link {
            Link::External { target, .. } => target.clone(),
            Link::Internal { location, .. } => format!("internal:{}", location),
        };
        s.links.insert((l.row, l.column), target);
    }
    let mut list = um.get_conditional_formatting_list(0).unwrap_or_default();
    list.sort_by_key(|v| v.index);
    for v in list {
        let f = match &v.cf_rule {
            CfRule::Formula { formula, .. } => formula.clone(),
            other => format!("{:?}", other),
        };
        s.cfs.push((v.range.clone(), f));
    }
    s
}

/// cells of a space-separated sqref
fn sqref_cells(range: &str) -> Option<Vec<(i32, i32, i32, i32)>> {
    let mut out = vec![];
    for part in range.split_whitespace() {
        let mut it = part.split(':');
        let a = parse_a1(it.next()?)?;
        let b = match it.next() {
            Some(x) => parse_a1(x)?,
            None => a,
        };
        out.push((a.0.min(b.0), a.1.min(b.1), a.0.max(b.0), a.1.max(b.1)));
    }
    Some(out)
}

fn parse_a1(s: &str) -> Option<(i32, i32)> {
    let s = s.replace('$', "");
    let letters: String = s.chars().take_while(|c| c.is_ascii_alphabetic()).collect();
    let digits: String = s.chars().skip(letters.len()).collect();
    if letters.is_empty() || digits.is_empty() {
        return None;
    }
    let mut c = 0i32;
    for ch in letters.to_uppercase().chars() {
        c = c * 26 + (ch as i32 - 'A' as i32 + 1);
    }
    Some((digits.parse().ok()?, c))
}

fn tags_in(scan: &Scan, rects: &[(i32, i32, i32, i32)]) -> BTreeSet<String> {
    scan.tags
        .iter()
        .filter(|((r, c), _)| rects.iter().any(|(r1, c1, r2, c2)| r >= r1 && r <= r2 && c >= c1 && c <= c2))
        .map(|(_, t)| t.clone())
        .collect()
}

/// tag/link consistency of one state
fn consistency(s: &Scan) -> Vec<(String, String)> {
    let mut out = vec![];
    for (pos, t) in &s.tags {
        match s.links.get(pos) {
            None => out.push(("tag-lost-its-link".to_string(), format!("{} at R{}C{} has no link", t, pos.0, pos.1))),
            Some(l) if *l != url_of_tag(t) => out.push((
                "tag-carries-the-link-of-another-cell".to_string(),
                format!("{} at R{}C{} has link {}", t, pos.0, pos.1, l),
            )),
            _ => {}
        }
    }
    for (pos, l) in &s.links {
        if !s.tags.contains_key(pos) {
            out.push(("link-without-its-tag".to_string(), format!("link {} at R{}C{} where no tag is", l, pos.0, pos.1)));
        }
    }
    out
}

/// how the range lies relative to the operation
fn relation(op: &COp, rects: &[(i32, i32, i32, i32)]) -> &'static str {
    if rects.len() != 1 {
        return "multi-part";
    }
    let (r1, c1, r2, c2) = rects[0];
    match op {
        COp::S(axis, sop) => {
            let (i, j) = match axis {
                Axis::Rows => (r1, r2),
                Axis::Cols => (c1, c2),
            };
            match crate::structural::map_range(sop, i, j, axis.last()) {
                crate::structural::RangeFate::Exact(..) => "whole",
                crate::structural::RangeFate::Partial(..) => "loses-an-end",
                crate::structural::RangeFate::AllGone => "all-deleted",
                crate::structural::RangeFate::Unjudged => "straddles-block-or-band",
            }
        }
        COp::Cut(a1, b1, a2, b2, tr, tc) => {
            let inside = r1 >= *a1 && r2 <= *a2 && c1 >= *b1 && c2 <= *b2;
            let disjoint = r2 < *a1 || r1 > *a2 || c2 < *b1 || c1 > *b2;
            let (t2r, t2c) = (tr + (a2 - a1), tc + (b2 - b1));
            let hit = !(r2 < *tr || r1 > t2r || c2 < *tc || c1 > t2c);
            match (inside, disjoint, hit) {
                (true, _, false) => "inside-cut-area",
                (true, _, true) => "inside-cut-area-and-under-target",
                (_, true, false) => "outside",
                (_, true, true) => "under-paste-target",
                (false, false, false) => "partly-in-cut-area",
                (false, false, true) => "partly-in-cut-area-and-under-target",
            }
        }
        COp::Clear(..) => "clear",
    }
}

pub struct Stats {
    pub judged_ranges: u64,
    pub judged_formulas: u64,
    pub unspecified: u64,
}

/// Judges the step `pre --op--> post` (um is in the post state; for Clear also undo is exercised).
fn judge_step(um: &mut UserModel, pre: &Scan, op: &COp, case: &Value, stats: &mut Stats) -> Vec<Disagreement> {
    let mut ds = vec![];
    let post = scan(um);
    let kind = op.kind();
    let mut push = |sig: String, detail: String| {
        ds.push(Disagreement {
            sig,
            case: case.clone(),
            detail,
        })
    };
    // 1. tags and links
    for (cls, detail) in consistency(&post) {
        push(format!("{} {}", kind, cls), detail);
    }
    // 2. conditional formats
    if post.cfs.len() != pre.cfs.len() {
        push(
            format!("{} cf-count", kind),
            format!("{} conditional formats before, {} after", pre.cfs.len(), post.cfs.len()),
        );
    } else {
        let alive_all: BTreeSet<&String> = post.tags.values().collect();
        let mut reader = Reader::new(um.get_model());
        for k in 0..pre.cfs.len() {
            let (pre_range, _) = &pre.cfs[k];
            let (post_range, post_formula) = &post.cfs[k];
            let (Some(pre_rects), Some(post_rects)) = (sqref_cells(pre_range), sqref_cells(post_range)) else {
                push(format!("{} cf-range-unreadable", kind), format!("{} -> {}", pre_range, post_range));
                continue;
            };
            let s_pre = tags_in(pre, &pre_rects);
            if s_pre.is_empty() {
                // the format already covers no tagged cell (left over by an earlier step): nothing to follow
                stats.unspecified += 1;
                continue;
            }
            let alive: BTreeSet<String> = s_pre.iter().filter(|t| alive_all.contains(t)).cloned().collect();
            let t_post = tags_in(&post, &post_rects);
            // do the surviving cells still form a rectangle?
            let pos: Vec<(i32, i32)> = post.tags.iter().filter(|(_, t)| alive.contains(*t)).map(|(p, _)| *p).collect();
            // the surviving cells form a full rectangle; an insertion may stretch it by the blank rows/columns it adds
            let full_rect = |pos: &[(i32, i32)], gaps: bool| -> bool {
                if pos.is_empty() {
                    return true;
                }
                let rs: BTreeSet<i32> = pos.iter().map(|p| p.0).collect();
                let cs: BTreeSet<i32> = pos.iter().map(|p| p.1).collect();
                let (r1, r2) = (*rs.iter().next().unwrap(), *rs.iter().last().unwrap());
                let (c1, c2) = (*cs.iter().next().unwrap(), *cs.iter().last().unwrap());
                pos.len() == rs.len() * cs.len()
                    && (gaps || (rs.len() as i32 == r2 - r1 + 1 && cs.len() as i32 == c2 - c1 + 1))
            };
            let pre_pos: Vec<(i32, i32)> = pre.tags.iter().filter(|(_, t)| s_pre.contains(*t)).map(|(p, _)| *p).collect();
            let is_insert = matches!(op, COp::S(_, SOp::Insert { .. }));
            // cells destroyed by pasting over them: what becomes of their format is not stated
            // (likewise for cells pasted onto blank cells of the range)
            let overwritten = matches!(op, COp::Cut(..)) && (alive.len() < s_pre.len() || relation(op, &pre_rects).contains("target"));
            let rectangular = !overwritten
                && full_rect(&pos, is_insert && full_rect(&pre_pos, false))
                && (pos.is_empty() || {
                    let r1 = pos.iter().map(|p| p.0).min().unwrap();
                    let r2 = pos.iter().map(|p| p.0).max().unwrap();
                    let c1 = pos.iter().map(|p| p.1).min().unwrap();
                    let c2 = pos.iter().map(|p| p.1).max().unwrap();
                    tags_in(&post, &[(r1, c1, r2, c2)]) == alive
                });
            if !rectangular {
                stats.unspecified += 1;
            } else {
                stats.judged_ranges += 1;
                if t_post != alive {
                    let lost = alive.difference(&t_post).count();
                    let extra = t_post.difference(&alive).count();
                    let shape = match (lost > 0, extra > 0) {
                        (true, true) => "covers-other-cells-instead",
                        (true, false) => "lost-cells",
                        (false, true) => "covers-extra-cells",
                        _ => "",
                    };
                    let fate = if alive.is_empty() {
                        "all-cells-gone"
                    } else if alive.len() < s_pre.len() {
                        "some-cells-gone"
                    } else {
                        "all-cells-alive"
                    };
                    push(
                        format!(
                            "{} cf-range rel={} range-text-{}",
                            kind,
                            relation(op, &pre_rects),
                            if pre_range == post_range { "unchanged" } else { "changed" }
                        ),
                        format!(
                            "conditional format {} covered {:?} in `{}`; after {:?} the surviving cells are {:?} but `{}` covers {:?} ({}, {})",
                            k, s_pre, pre_range, op, alive, post_range, t_post, fate, shape
                        ),
                    );
                    continue;
                }
            }
            // formula: only when the anchor cell is still the anchor
            let pre_anchor = (pre_rects[0].0, pre_rects[0].1);
            let post_anchor = (post_rects[0].0, post_rects[0].1);
            let same_anchor = match (pre.tags.get(&pre_anchor), post.tags.get(&post_anchor)) {
                (Some(a), Some(b)) => a == b,
                _ => false,
            };
            if !same_anchor {
                stats.unspecified += 1;
                continue;
            }
            let in_area = |p: (i32, i32)| match op {
                COp::Cut(r1, c1, r2, c2, ..) => p.0 >= *r1 && p.0 <= *r2 && p.1 >= *c1 && p.1 <= *c2,
                _ => false,
            };
            // every surviving shadow must agree (if the cell formulas disagree among themselves that is the business of
            // C12-C16), and at least one must have played the same role as the anchor (cut together with it or left
            // behind like it)
            let mut shadow_dens: Vec<(String, Vec<Den>)> = vec![];
            let mut same_role = false;
            for suffix in ["c", "r"] {
                let marker = format!("cf{}{}", k, suffix);
                if let (Some(before), Some((r, c, text))) = (pre.shadows.get(&marker), post.shadows.get(&marker)) {
                    same_role |= in_area((before.0, before.1)) == in_area(pre_anchor);
                    let mut d = reader.dens(text, 0, *r, *c);
                    d.retain(|x| !matches!(x, Den::NoRef));
                    shadow_dens.push((text.clone(), d));
                }
            }
            // for cut-paste both shadows must have survived: a moved cell formula alone is not a trusted reference
            // (overlapping cuts displace it twice, see C16)
            let enough = if matches!(op, COp::Cut(..)) { shadow_dens.len() == 2 } else { !shadow_dens.is_empty() };
            if !same_role || !enough || shadow_dens.iter().any(|d| d.1 != shadow_dens[0].1) {
                stats.unspecified += 1;
                continue;
            }
            stats.judged_formulas += 1;
            let got = reader.dens(post_formula, 0, post_anchor.0, post_anchor.1);
            if got != shadow_dens[0].1 {
                let idx = got
                    .iter()
                    .zip(shadow_dens[0].1.iter())
                    .position(|(a, b)| a != b)
                    .unwrap_or(got.len().min(shadow_dens[0].1.len()));
                let (g, e) = (got.get(idx), shadow_dens[0].1.get(idx));
                push(
                    format!(
                        "{} cf-formula differs-from-cell-formula expected={} got={}",
                        kind,
                        e.map(|d| d.class()).unwrap_or("nothing"),
                        g.map(|d| d.class()).unwrap_or("nothing")
                    ),
                    format!(
                        "conditional format {} (`{}`, anchor R{}C{}) has rule formula `{}` after {:?}; the cell holding the same formula is now `{}`",
                        k, post_range, post_anchor.0, post_anchor.1, post_formula, op, shadow_dens[0].0
                    ),
                );
            }
        }
    }
    // 3. clear contents: links of the cleared cells gone (covered by consistency), every other pair intact, undo restores
    if let COp::Clear(r, c, h, w) = op {
        for (pos, t) in &pre.tags {
            let inside = pos.0 >= *r && pos.0 < r + h && pos.1 >= *c && pos.1 < c + w;
            if inside {
                if post.links.contains_key(pos) {
                    push(
                        format!("{} link-survives-clear", kind),
                        format!("{} at R{}C{} was cleared, its link is still there", t, pos.0, pos.1),
                    );
                }
            } else if post.tags.get(pos) != Some(t) || post.links.get(pos) != pre.links.get(pos) {
                push(
                    format!("{} touches-cells-outside", kind),
                    format!("{} at R{}C{} outside the cleared area changed", t, pos.0, pos.1),
                );
            }
        }
        match um.undo() {
            Err(e) => push(format!("{} undo-error", kind), e),
            Ok(()) => {
                let back = scan(um);
                if back.tags != pre.tags || back.links != pre.links {
                    let lost: Vec<_> = pre.links.keys().filter(|p| !back.links.contains_key(p)).collect();
                    push(
                        format!(
                            "{} undo-does-not-restore {}",
                            kind,
                            if back.tags != pre.tags { "contents" } else { "links" }
                        ),
                        format!("after undo of {:?}: links missing at {:?}", op, lost),
                    );
                }
                let _ = um.redo();
            }
        }
    }
    ds
}

pub struct WordOut {
    pub ds: Vec<Disagreement>,
    pub changed: bool,
    pub digest: u128,
}

/// Runs a word; judges its last step. None = an operation of the word was refused or the prefix is not clean.
pub fn run_word(word: &[COp], stats: &mut Stats) -> Option<WordOut> {
    let case = json!({ "word": word });
    let mut um = UserModel::from_bytes(base_bytes(), "en").expect("from_bytes");
    let n = word.len();
    for (i, op) in word.iter().enumerate() {
        let pre = if i + 1 == n { Some(scan(&um)) } else { None };
        let r = crate::env::guarded(|| op.apply(&mut um));
        match r {
            Err(p) => {
                if i + 1 < n {
                    return None;
                }
                return Some(WordOut {
                    ds: vec![Disagreement {
                        sig: format!("panic {} at={}", op.kind(), p.split(" @ ").last().unwrap_or("")),
                        case,
                        detail: p,
                    }],
                    changed: false,
                    digest: 0,
                });
            }
            Ok(Err(_)) => return None,
            Ok(Ok(())) => {}
        }
        if let Some(pre) = pre {
            let ds = judge_step(&mut um, &pre, op, &case, stats);
            let post = scan(&um);
            let digest = crate::env::digest(&format!("{:?}", post));
            return Some(WordOut {
                ds,
                changed: post != pre,
                digest,
            });
        } else if !consistency(&scan(&um)).is_empty() {
            // the prefix already broke tag/link consistency: reported by the shorter word
            return None;
        }
    }
    None
}

fn explore(run: &mut Run, alpha: &[COp], len: usize, outcomes: &mut BTreeSet<u128>) -> Value {
    let a = alpha.len();
    let prefixes = a.pow((len - 1) as u32);
    let res = crate::env::par_units(prefixes, |u| {
        let mut k = u;
        let mut idx = vec![0usize; len - 1];
        for i in (0..len - 1).rev() {
            idx[i] = k % a;
            k /= a;
        }
        let mut word: Vec<COp> = idx.iter().map(|i| alpha[*i].clone()).collect();
        word.push(alpha[0].clone());
        let mut outs = vec![];
        let mut stats = Stats {
            judged_ranges: 0,
            judged_formulas: 0,
            unspecified: 0,
        };
        let mut cut = 0u64;
        for op in alpha {
            *word.last_mut().unwrap() = op.clone();
            match run_word(&word, &mut stats) {
                Some(w) => outs.push(w),
                None => cut += 1,
            }
        }
        (outs, stats, cut)
    });
    let (mut words, mut cut, mut jr, mut jf, mut un) = (0u64, 0u64, 0u64, 0u64, 0u64);
    for r in res {
        match r {
            Ok((outs, stats, c)) => {
                cut += c;
                jr += stats.judged_ranges;
                jf += stats.judged_formulas;
                un += stats.unspecified;
                for w in outs {
                    words += 1;
                    if w.changed {
                        run.nontrivial += 1;
                    }
                    outcomes.insert(w.digest);
                    run.add_all(w.ds);
                }
            }
            Err(e) => run.machinery_errors.push(e),
        }
    }
    run.evaluations += words + cut;
    run.traces += words;
    run.transitions += words * len as u64;
    run.states += words;
    json!({"length": len, "alphabet_size": a, "words_judged": words, "words_cut_refused_or_dirty_prefix": cut,
        "cf_ranges_judged": jr, "cf_formulas_judged": jf, "unspecified_non_rectangular_or_anchor_gone": un})
}

pub fn run(run: &mut Run) {
    let thorough = run.tier.thorough();
    let full = alphabet(true);
    let small = alphabet(false);
    let mut outcomes = BTreeSet::new();
    let mut plans = vec![];
    plans.push(explore(run, &full, 1, &mut outcomes));
    plans.push(explore(run, &full, 2, &mut outcomes));
    if thorough {
        plans.push(explore(run, &small, 3, &mut outcomes));
    }
    run.distinct_outcomes = outcomes.len() as u64;
    run.bound = json!({"plans": plans, "grid": "5x4 tagged linked cells", "conditional_formats": CFS.iter().map(|c| format!("{} {}", c.0, c.1)).collect::<Vec<_>>(),
        "api": "UserModel", "hash_seed": crate::env::hash_seed()});
    run.rule = "every word of the stated length over the alphabet (insert/delete/move rows and columns, cut-paste bands and blocks, clear contents), all operations accepted; the last step is judged; non-trivial = the last step changed tags, links, conditional formats or shadow cells".into();
    run.sample(json!({"word": [full[0]]}));
    run.sample(json!({"word": [full[30], full[full.len() - 8]]}));
    run.sample(json!({"word": [full[full.len() - 1], full[3]]}));
    run.assume("copy-paste is not judged (the statement speaks of cut and paste)");
    run.assume("a conditional format whose surviving cells no longer form a rectangle is compared only when they do (counted as unspecified otherwise); its rule formula is compared with the shadow cell formulas only while the anchor cell is still the anchor, and for cut-paste only with shadows that were cut together with (or left behind like) the anchor");
    run.assume("formulas are compared on the cells denoted (public parser), not on text");
    run.assume("hash-map iteration order fixed by VERIF_HASH_SEED for this run (listed seed only)");
}

pub fn replay(case: &Value) -> Vec<Disagreement> {
    let word: Vec<COp> = match serde_json::from_value(case["word"].clone()) {
        Ok(w) => w,
        Err(_) => return vec![],
    };
    let mut stats = Stats {
        judged_ranges: 0,
        judged_formulas: 0,
        unspecified: 0,
    };
    run_word(&word, &mut stats).map(|w| w.ds).unwrap_or_default()
}

/// prints the state after every step (debugging aid for triage)
pub fn dbg_word(word: &[COp]) {
    let mut um = UserModel::from_bytes(base_bytes(), "en").expect("from_bytes");
    println!("start {:#?}", scan(&um));
    for op in word {
        println!("{:?} -> {:?}", op, op.apply(&mut um));
        let s = scan(&um);
        println!("cfs {:?}\nshadows {:#?}\ntags {:?}", s.cfs, s.shadows, s.tags);
    }
}

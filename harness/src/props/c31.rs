//! C31 Dynamic-array spills are exact and never stale.
//!
//! Scenarios: an anchor B5 holding one of `=SEQUENCE(A1,B1)`, `=D1:E2`, `={1,2;3,4}`, `=TRANSPOSE(D1:E2)`, `=F1#*2`
//! (F1 = `=SEQUENCE(A1,B1)`), size cells A1,B1 in {0,1,2,3,"x"}, a blocker in {none, value, formula, another spill,
//! CSE array} at cells of the potential block B5:D7; the same SEQUENCE anchor against the last rows / columns.
//! (1) every scenario of the product sizes x blocker x anchor is built and judged; (2) from the base scenarios every
//! word of length <= 2 (thorough 3) over {change a size cell, put / remove a blocker, clear, insert / delete / move a
//! row or column through the block, cut / copy-paste over it, undo, redo} is run on the real UserModel and its final
//! state judged.
//! Oracle = the spill model, as a state invariant over the whole sheet: for every dynamic-array anchor the m x n
//! result is computed by a 60-line reference evaluator of these five formula shapes from the current cell values; then
//! either the block holds exactly the corresponding elements as spill cells of this anchor, or (a foreign non-empty
//! cell in the block, or the block leaves the grid) the anchor shows #SPILL! and no cell is a spill of it; every spill
//! cell is covered by its anchor's current block; changing a size cell / placing a blocker changes no other
//! user-entered content.

use crate::ops::Op;
use crate::report::{Disagreement, Run};
use crate::structural::{LAST_COL, LAST_ROW};
use ironcalc_base::cell::CellValue;
use ironcalc_base::expressions::parser::{ArrayNode, Node, Parser};
use ironcalc_base::expressions::token::OpProduct;
use ironcalc_base::expressions::types::{Area, CellReferenceRC};
use ironcalc_base::language::get_language;
use ironcalc_base::locale::get_locale;
use ironcalc_base::types::{ArrayKind, Cell};
use ironcalc_base::{Function, Model, UserModel};
use serde::{Deserialize, Serialize};
use serde_json::{json, Value};
use std::collections::{BTreeMap, BTreeSet, HashMap};

pub const ANCHORS: [&str; 6] = [
    "=SEQUENCE(A1,B1)",
    "=D1:E2",
    "={1,2;3,4}",
    "=TRANSPOSE(D1:E2)",
    "=F1#*2",
    // the same with the source spill placed after the reader (F9 = SEQUENCE(A1,B1))
    "=F9#*2",
];
pub const SIZES: [&str; 5] = ["0", "1", "2", "3", "x"];
const AR: i32 = 5;
const AC: i32 = 2;

#[derive(Clone, Debug, Serialize, Deserialize, PartialEq)]
pub struct Base {
    /// index into ANCHORS
    pub anchor: usize,
    pub a: String,
    pub b: String,
    /// anchor position
    pub row: i32,
    pub col: i32,
}

#[derive(Clone, Debug, Serialize, Deserialize, PartialEq)]
pub enum SOp {
    /// size cell (1 = A1, 2 = B1), text
    Size(i32, String),
    /// blocker kind ("value","formula","spill","cse","spill-from-above"), offset (dr, dc) from the anchor
    Block(String, i32, i32),
    /// clear contents at offset (dr,dc), height, width
    Clear(i32, i32, i32, i32),
    /// clear all (contents, style, links) at offset (dr,dc), height, width
    ClearAll(i32, i32, i32, i32),
    InsRow(i32),
    DelRow(i32),
    InsCol(i32),
    DelCol(i32),
    /// row offset, delta
    MoveRow(i32, i32),
    MoveCol(i32, i32),
    /// (source r1,c1,r2,c2 absolute) -> target offset from the anchor, cut?
    Paste(i32, i32, i32, i32, i32, i32, bool),
    Undo,
    Redo,
}

impl SOp {
    pub fn kind(&self) -> String {
        match self {
            SOp::Size(..) => "size".into(),
            SOp::Block(k, ..) => format!("block-{}", k),
            SOp::Clear(..) => "clear".into(),
            SOp::ClearAll(..) => "clear-all".into(),
            SOp::InsRow(_) => "insert-row".into(),
            SOp::DelRow(_) => "delete-row".into(),
            SOp::InsCol(_) => "insert-col".into(),
            SOp::DelCol(_) => "delete-col".into(),
            SOp::MoveRow(..) => "move-row".into(),
            SOp::MoveCol(..) => "move-col".into(),
            SOp::Paste(.., false) => "copy-paste".into(),
            SOp::Paste(.., true) => "cut-paste".into(),
            SOp::Undo => "undo".into(),
            SOp::Redo => "redo".into(),
        }
    }
    pub fn apply(&self, um: &mut UserModel, base: &Base) -> Result<(), String> {
        let (r0, c0) = (base.row, base.col);
        match self {
            SOp::Size(i, t) => um.set_user_input(0, 1, *i, t),
            SOp::Block(kind, dr, dc) => {
                let (r, c) = (r0 + dr, c0 + dc);
                match kind.as_str() {
                    "value" => um.set_user_input(0, r, c, "blk"),
                    "formula" => um.set_user_input(0, r, c, "=1+1"),
                    "spill" => um.set_user_input(0, r, c, "=SEQUENCE(2,2)"),
                    "spill-from-above" => um.set_user_input(0, r, c, "=SEQUENCE(3)"),
                    "cse" => um.set_user_array_formula(0, r, c, 2, 1, "={7,8}"),
                    _ => Err("harness: unknown blocker".into()),
                }
            }
            SOp::Clear(dr, dc, h, w) => um.range_clear_contents(&Area {
                sheet: 0,
                row: r0 + dr,
                column: c0 + dc,
                height: *h,
                width: *w,
            }),
            SOp::ClearAll(dr, dc, h, w) => um.range_clear_all(&Area {
                sheet: 0,
                row: r0 + dr,
                column: c0 + dc,
                height: *h,
                width: *w,
            }),
            SOp::InsRow(dr) => um.insert_rows(0, r0 + dr, 1),
            SOp::DelRow(dr) => um.delete_rows(0, r0 + dr, 1),
            SOp::InsCol(dc) => um.insert_columns(0, c0 + dc, 1),
            SOp::DelCol(dc) => um.delete_columns(0, c0 + dc, 1),
            SOp::MoveRow(dr, d) => um.move_rows_action(0, r0 + dr, 1, *d),
            SOp::MoveCol(dc, d) => um.move_columns_action(0, c0 + dc, 1, *d),
            SOp::Paste(r1, c1, r2, c2, dr, dc, cut) => {
                // sources given as offsets from the anchor when negative numbers are not needed: absolute if r1 < 100
                Op::Paste(0, *r1, *c1, *r2, *c2, 0, r0 + dr, c0 + dc, *cut).apply(um)
            }
            SOp::Undo => um.undo(),
            SOp::Redo => um.redo(),
        }
    }
}

pub fn alphabet(base: &Base, full: bool) -> Vec<SOp> {
    let mut v = vec![];
    for i in 1..=2 {
        for s in SIZES {
            if full || s != "0" {
                v.push(SOp::Size(i, s.to_string()));
            }
        }
    }
    for kind in ["value", "formula", "spill", "cse"] {
        for (dr, dc) in [(0, 1), (1, 0), (1, 1)] {
            if full || (dr, dc) != (1, 0) {
                v.push(SOp::Block(kind.to_string(), dr, dc));
            }
        }
    }
    v.push(SOp::Block("spill-from-above".into(), -1, 1));
    v.push(SOp::Block("value".into(), 2, 2));
    // remove blockers / clear
    v.push(SOp::Clear(0, 1, 1, 1));
    v.push(SOp::Clear(1, 0, 1, 1));
    v.push(SOp::Clear(1, 1, 1, 1));
    v.push(SOp::Clear(-1, 1, 1, 1));
    v.push(SOp::Clear(0, 0, 1, 1));
    v.push(SOp::Clear(0, 0, 3, 3));
    // clear-all of the anchor alone, of a row of cells whose last one is the anchor (the spill reaches outside the
    // area), and of the anchor with a neighbour to its right
    v.push(SOp::ClearAll(0, 0, 1, 1));
    v.push(SOp::ClearAll(0, -1, 1, 2));
    if full {
        v.push(SOp::ClearAll(0, 0, 1, 2));
        v.push(SOp::Clear(0, -1, 1, 2));
    }
    // structure through the block
    v.push(SOp::InsRow(1));
    v.push(SOp::DelRow(1));
    v.push(SOp::InsCol(1));
    v.push(SOp::DelCol(1));
    v.push(SOp::MoveRow(1, 1));
    v.push(SOp::MoveRow(0, -1));
    v.push(SOp::MoveCol(1, 1));
    v.push(SOp::MoveCol(0, -1));
    if full {
        v.push(SOp::InsRow(0));
        v.push(SOp::DelRow(0));
        v.push(SOp::InsCol(0));
        v.push(SOp::DelCol(0));
        v.push(SOp::DelRow(-4)); // the row of the size cells (and of D1:E2, F1)
    }
    // paste over the block / move the anchor (sources: D1 value, D1:D2 values, the anchor itself)
    let (r0, c0) = (base.row, base.col);
    v.push(SOp::Paste(1, 4, 1, 4, 1, 1, false));
    v.push(SOp::Paste(1, 4, 2, 4, 0, 1, false));
    v.push(SOp::Paste(r0, c0, r0, c0, 0, 4, true));
    v.push(SOp::Paste(r0, c0, r0, c0, 1, 1, false));
    if full {
        v.push(SOp::Paste(1, 4, 1, 4, 0, 1, true));
        v.push(SOp::Paste(r0, c0, r0 + 1, c0 + 1, 0, 4, false));
    }
    v.push(SOp::Undo);
    v.push(SOp::Redo);
    v
}

pub fn build(base: &Base) -> UserModel<'static> {
    let mut um = UserModel::new_empty("c31", "en", "UTC", "en").expect("new_empty");
    um.pause_evaluation();
    um.set_user_input(0, 1, 1, &base.a).expect("input");
    um.set_user_input(0, 1, 2, &base.b).expect("input");
    for (r, c, v) in [(1, 4, "1"), (1, 5, "2"), (2, 4, "3"), (2, 5, "4")] {
        um.set_user_input(0, r, c, v).expect("input");
    }
    if ANCHORS[base.anchor].contains("F1#") {
        um.set_user_input(0, 1, 6, "=SEQUENCE(A1,B1)").expect("input");
    }
    if ANCHORS[base.anchor].contains("F9#") {
        um.set_user_input(0, 9, 6, "=SEQUENCE(A1,B1)").expect("input");
    }
    um.set_user_input(0, base.row, base.col, ANCHORS[base.anchor]).expect("anchor");
    um.resume_evaluation();
    um.evaluate();
    um
}

// ---------------------------------------------------------------------------------------------------------------
// reference evaluator of the five shapes
// ---------------------------------------------------------------------------------------------------------------

#[derive(Clone, PartialEq, Debug)]
pub enum Elem {
    Num(f64),
    Text(String),
    Bool(bool),
    /// a blank source cell: shown as 0 or empty (not compared)
    Any,
}

#[derive(Clone, PartialEq, Debug)]
pub enum Expected {
    /// rows of elements
    Array(Vec<Vec<Elem>>),
    /// the formula yields a single error (which one is not stated)
    SomeError,
    /// shape not known to the reference: only structural rules are applied
    Unknown,
}

fn value_elem(v: &CellValue) -> Elem {
    match v {
        CellValue::None => Elem::Any,
        CellValue::Number(n) => Elem::Num(*n),
        CellValue::String(s) => Elem::Text(s.clone()),
        CellValue::Boolean(b) => Elem::Bool(*b),
    }
}

fn is_error_text(s: &str) -> bool {
    s.starts_with('#')
}

fn abs_ref(node: &Node, ctx: (i32, i32)) -> Option<(i32, i32)> {
    if let Node::ReferenceKind {
        sheet_index: 0,
        absolute_row,
        absolute_column,
        row,
        column,
        ..
    } = node
    {
        let r = if *absolute_row { *row } else { *row + ctx.0 };
        let c = if *absolute_column { *column } else { *column + ctx.1 };
        if (1..=LAST_ROW).contains(&r) && (1..=LAST_COL).contains(&c) {
            return Some((r, c));
        }
    }
    None
}

fn abs_range(node: &Node, ctx: (i32, i32)) -> Option<(i32, i32, i32, i32)> {
    if let Node::RangeKind {
        sheet_index: 0,
        absolute_row1,
        absolute_column1,
        row1,
        column1,
        absolute_row2,
        absolute_column2,
        row2,
        column2,
        ..
    } = node
    {
        let r1 = if *absolute_row1 { *row1 } else { *row1 + ctx.0 };
        let c1 = if *absolute_column1 { *column1 } else { *column1 + ctx.1 };
        let r2 = if *absolute_row2 { *row2 } else { *row2 + ctx.0 };
        let c2 = if *absolute_column2 { *column2 } else { *column2 + ctx.1 };
        if r1 >= 1 && c1 >= 1 && r2 <= LAST_ROW && c2 <= LAST_COL && r1 <= r2 && c1 <= c2 && (r2 - r1) < 50 && (c2 - c1) < 50 {
            return Some((r1, c1, r2, c2));
        }
    }
    None
}

fn read_block(model: &Model, r1: i32, c1: i32, r2: i32, c2: i32) -> Expected {
    let mut rows = vec![];
    for r in r1..=r2 {
        let mut row = vec![];
        for c in c1..=c2 {
            match model.get_cell_value_by_index(0, r, c) {
                Ok(CellValue::String(s)) if is_error_text(&s) => return Expected::Unknown, // element errors: not modelled
                Ok(v) => row.push(value_elem(&v)),
                Err(_) => return Expected::Unknown,
            }
        }
        rows.push(row);
    }
    Expected::Array(rows)
}

/// size argument of SEQUENCE read from a cell: Ok(n >= 1), Err(true) = certainly an error, Err(false) = unknown
fn size_of(model: &Model, pos: (i32, i32)) -> Result<i32, bool> {
    match model.get_cell_value_by_index(0, pos.0, pos.1) {
        Ok(CellValue::Number(n)) if n.fract() == 0.0 && (1.0..=1000.0).contains(&n) => Ok(n as i32),
        Ok(CellValue::Number(n)) if n == 0.0 => Err(true),
        Ok(CellValue::None) => Err(true),
        Ok(CellValue::String(s)) if !s.is_empty() && s.parse::<f64>().is_err() => Err(true),
        _ => Err(false),
    }
}

pub fn reference(model: &Model, node: &Node, ctx: (i32, i32)) -> Expected {
    match node {
        Node::FunctionKind { kind, args } if *kind == Function::Sequence && args.len() == 2 => {
            let (Some(pa), Some(pb)) = (abs_ref(&args[0], ctx), abs_ref(&args[1], ctx)) else {
                return Expected::Unknown;
            };
            match (size_of(model, pa), size_of(model, pb)) {
                (Ok(a), Ok(b)) => Expected::Array(
                    (0..a)
                        .map(|i| (0..b).map(|j| Elem::Num((i * b + j + 1) as f64)).collect())
                        .collect(),
                ),
                (Err(true), Ok(_)) | (Ok(_), Err(true)) | (Err(true), Err(true)) => Expected::SomeError,
                _ => Expected::Unknown,
            }
        }
        Node::RangeKind { .. } => match abs_range(node, ctx) {
            Some((r1, c1, r2, c2)) => read_block(model, r1, c1, r2, c2),
            None => Expected::Unknown,
        },
        Node::FunctionKind { kind, args } if *kind == Function::Transpose && args.len() == 1 => {
            match abs_range(&args[0], ctx).map(|(r1, c1, r2, c2)| read_block(model, r1, c1, r2, c2)) {
                Some(Expected::Array(rows)) => {
                    let (m, n) = (rows.len(), rows[0].len());
                    Expected::Array((0..n).map(|j| (0..m).map(|i| rows[i][j].clone()).collect()).collect())
                }
                _ => Expected::Unknown,
            }
        }
        Node::ArrayKind(rows) => {
            let mut out = vec![];
            for r in rows {
                let mut row = vec![];
                for e in r {
                    row.push(match e {
                        ArrayNode::Number(n) => Elem::Num(*n),
                        ArrayNode::String(s) => Elem::Text(s.clone()),
                        ArrayNode::Boolean(b) => Elem::Bool(*b),
                        _ => return Expected::Unknown,
                    });
                }
                out.push(row);
            }
            Expected::Array(out)
        }
        Node::OpProductKind {
            kind: OpProduct::Times,
            left,
            right,
        } => {
            let (Node::SpillRangeOperator { child }, Node::NumberKind(k)) = (&**left, &**right) else {
                return Expected::Unknown;
            };
            let Some((r, c)) = abs_ref(child, ctx) else {
                return Expected::Unknown;
            };
            match model.workbook.worksheets[0].cell(r, c) {
                Some(Cell::ArrayFormula {
                    kind: ArrayKind::Dynamic,
                    r: (w, h),
                    ..
                }) => {
                    // the source anchor's own value decides: an error there is an error here
                    match model.get_cell_value_by_index(0, r, c) {
                        Ok(CellValue::String(s)) if is_error_text(&s) => Expected::SomeError,
                        _ => match read_block(model, r, c, r + h - 1, c + w - 1) {
                            Expected::Array(rows) => {
                                let mut out = vec![];
                                for row in rows {
                                    let mut o = vec![];
                                    for e in row {
                                        match e {
                                            Elem::Num(n) => o.push(Elem::Num(n * k)),
                                            _ => return Expected::Unknown,
                                        }
                                    }
                                    out.push(o);
                                }
                                Expected::Array(out)
                            }
                            _ => Expected::Unknown,
                        },
                    }
                }
                // not a dynamic array there: `#` of it is an error
                Some(Cell::CellFormula { .. }) | Some(Cell::ArrayFormula { .. }) | Some(Cell::SpillCell { .. }) => Expected::Unknown,
                _ => Expected::SomeError,
            }
        }
        _ => Expected::Unknown,
    }
}

// ---------------------------------------------------------------------------------------------------------------
// the invariant
// ---------------------------------------------------------------------------------------------------------------

fn shape_name(node: &Node) -> &'static str {
    match node {
        Node::FunctionKind { kind, .. } if *kind == Function::Sequence => "SEQUENCE",
        Node::FunctionKind { kind, .. } if *kind == Function::Transpose => "TRANSPOSE",
        Node::RangeKind { .. } => "range",
        Node::ArrayKind(_) => "array-literal",
        Node::OpProductKind { .. } => "spill-ref*2",
        _ => "other",
    }
}

fn elem_matches(e: &Elem, v: &CellValue) -> bool {
    match (e, v) {
        (Elem::Any, _) => true,
        (Elem::Num(a), CellValue::Number(b)) => a == b,
        (Elem::Text(a), CellValue::String(b)) => a == b,
        (Elem::Bool(a), CellValue::Boolean(b)) => a == b,
        _ => false,
    }
}

pub struct Check {
    /// (violation class with the formula shape, detail)
    pub bad: Vec<(String, String)>,
    pub anchors: u64,
    pub spilled: u64,
    pub blocked: u64,
    pub scalar: u64,
    pub unknown: u64,
}

pub fn check_state(model: &Model) -> Check {
    let mut ck = Check {
        bad: vec![],
        anchors: 0,
        spilled: 0,
        blocked: 0,
        scalar: 0,
        unknown: 0,
    };
    let ws = &model.workbook.worksheets[0];
    let mut cells: BTreeMap<(i32, i32), &Cell> = BTreeMap::new();
    for (r, rd) in &ws.sheet_data {
        for (c, cell) in rd {
            cells.insert((*r, *c), cell);
        }
    }
    let non_empty = |cell: &Cell| !matches!(cell, Cell::EmptyCell { .. });
    let names = model.workbook.get_worksheet_names();
    let locale = get_locale("en").expect("locale");
    let language = get_language("en").expect("language");
    let mut parser = Parser::new(names.clone(), model.workbook.get_defined_names_with_scope(), HashMap::new(), locale, language);
    // blocks claimed by array anchors: anchor -> (height, width)
    let mut claims: BTreeMap<(i32, i32), (i32, i32)> = BTreeMap::new();
    for (&(r, c), cell) in &cells {
        match cell {
            Cell::ArrayFormula {
                kind: ArrayKind::Cse,
                r: (w, h),
                ..
            } => {
                claims.insert((r, c), (*h, *w));
            }
            Cell::ArrayFormula {
                kind: ArrayKind::Dynamic,
                r: (w, h),
                ..
            } => {
                claims.insert((r, c), (*h, *w));
                ck.anchors += 1;
                let text = model.get_cell_formula(0, r, c).ok().flatten().unwrap_or_default();
                let node = parser.parse(
                    text.strip_prefix('=').unwrap_or(&text),
                    &CellReferenceRC {
                        sheet: names[0].clone(),
                        row: r,
                        column: c,
                    },
                );
                let shape = shape_name(&node);
                let val = model.get_cell_value_by_index(0, r, c).unwrap_or(CellValue::None);
                let shows_spill = matches!(&val, CellValue::String(s) if s == "#SPILL!");
                let own: Vec<(i32, i32)> = cells
                    .iter()
                    .filter(|(_, x)| matches!(x, Cell::SpillCell { a, .. } if *a == (r, c)))
                    .map(|(p, _)| *p)
                    .collect();
                match reference(model, &node, (r, c)) {
                    Expected::Unknown => {
                        ck.unknown += 1;
                    }
                    Expected::SomeError => {
                        ck.scalar += 1;
                        let is_err = matches!(&val, CellValue::String(s) if is_error_text(s));
                        if !is_err {
                            ck.bad.push((
                                format!("{} degenerate-size-not-an-error", shape),
                                format!("`{}` at R{}C{} shows {:?}, expected an error", text, r, c, val),
                            ));
                        }
                        if !own.is_empty() || (*w, *h) != (1, 1) {
                            ck.bad.push((
                                format!("{} error-result-keeps-spill-cells", shape),
                                format!("`{}` at R{}C{} is an error but has size {:?} and spill cells {:?}", text, r, c, (w, h), own),
                            ));
                        }
                    }
                    Expected::Array(rows) => {
                        let (m, n) = (rows.len() as i32, rows[0].len() as i32);
                        let off_grid = r + m - 1 > LAST_ROW || c + n - 1 > LAST_COL;
                        let mut foreign: Vec<(i32, i32)> = vec![];
                        if !off_grid {
                            for i in 0..m {
                                for j in 0..n {
                                    if (i, j) == (0, 0) {
                                        continue;
                                    }
                                    if let Some(x) = cells.get(&(r + i, c + j)) {
                                        let mine = matches!(x, Cell::SpillCell { a, .. } if *a == (r, c));
                                        if !mine && non_empty(x) {
                                            foreign.push((r + i, c + j));
                                        }
                                    }
                                }
                            }
                        }
                        if m == 1 && n == 1 {
                            ck.scalar += 1;
                            if !elem_matches(&rows[0][0], &val) || !own.is_empty() {
                                ck.bad.push((
                                    format!("{} one-cell-result-wrong", shape),
                                    format!("`{}` at R{}C{} shows {:?} with spill cells {:?}, expected {:?}", text, r, c, val, own, rows[0][0]),
                                ));
                            }
                        } else if shows_spill {
                            ck.blocked += 1;
                            if !off_grid && foreign.is_empty() {
                                ck.bad.push((
                                    format!("{} #SPILL!-although-block-is-free", shape),
                                    format!("`{}` at R{}C{} shows #SPILL! but its {}x{} block holds no foreign content and lies on the grid", text, r, c, m, n),
                                ));
                            }
                            if !own.is_empty() || (*w, *h) != (1, 1) {
                                ck.bad.push((
                                    format!("{} #SPILL!-but-spill-cells-remain", shape),
                                    format!("`{}` at R{}C{} shows #SPILL! and still owns {:?} (size {:?})", text, r, c, own, (w, h)),
                                ));
                            }
                        } else {
                            ck.spilled += 1;
                            if off_grid || !foreign.is_empty() {
                                ck.bad.push((
                                    format!("{} blocked-but-no-#SPILL!", shape),
                                    format!(
                                        "`{}` at R{}C{} shows {:?}; its {}x{} block {} (foreign cells {:?})",
                                        text,
                                        r,
                                        c,
                                        val,
                                        m,
                                        n,
                                        if off_grid { "leaves the grid" } else { "is blocked" },
                                        foreign
                                    ),
                                ));
                                continue;
                            }
                            if (*w, *h) != (n, m) {
                                ck.bad.push((
                                    format!("{} wrong-block-size", shape),
                                    format!("`{}` at R{}C{} has spill size {:?}, the result is {} rows x {} columns", text, r, c, (w, h), m, n),
                                ));
                            }
                            let mut wrong = vec![];
                            for i in 0..m {
                                for j in 0..n {
                                    let p = (r + i, c + j);
                                    let v = model.get_cell_value_by_index(0, p.0, p.1).unwrap_or(CellValue::None);
                                    let is_mine = (i, j) == (0, 0) || own.contains(&p);
                                    if !is_mine || !elem_matches(&rows[i as usize][j as usize], &v) {
                                        wrong.push((p, format!("{:?}", v), format!("{:?}", rows[i as usize][j as usize])));
                                    }
                                }
                            }
                            if !wrong.is_empty() {
                                ck.bad.push((
                                    format!("{} wrong-or-missing-elements", shape),
                                    format!("`{}` at R{}C{}: (cell, shown, expected) {:?}", text, r, c, wrong),
                                ));
                            }
                            let stale: Vec<_> = own.iter().filter(|p| p.0 < r || p.0 >= r + m || p.1 < c || p.1 >= c + n).collect();
                            if !stale.is_empty() {
                                ck.bad.push((
                                    format!("{} stale-spill-cells-outside-block", shape),
                                    format!("`{}` at R{}C{} ({}x{}) still owns {:?}", text, r, c, m, n, stale),
                                ));
                            }
                        }
                    }
                }
            }
            _ => {}
        }
    }
    // every spill cell is covered by the current block of its anchor
    for (&(r, c), cell) in &cells {
        if let Cell::SpillCell { a, .. } = cell {
            let covered = match claims.get(a) {
                Some((h, w)) => r >= a.0 && r < a.0 + h && c >= a.1 && c < a.1 + w && (r, c) != *a,
                None => false,
            };
            if !covered {
                ck.bad.push((
                    "orphan-spill-cell".to_string(),
                    format!(
                        "R{}C{} is a spill cell of R{}C{}, which {}",
                        r,
                        c,
                        a.0,
                        a.1,
                        if claims.contains_key(a) { "does not cover it" } else { "is not an array formula" }
                    ),
                ));
            }
        }
    }
    ck
}

/// user-entered contents: position -> content text, of every cell that is not a spill cell
fn user_contents(um: &UserModel) -> BTreeMap<(i32, i32), String> {
    let mut out = BTreeMap::new();
    let ws = &um.get_model().workbook.worksheets[0];
    for (r, rd) in &ws.sheet_data {
        for (c, cell) in rd {
            if matches!(cell, Cell::SpillCell { .. } | Cell::EmptyCell { .. }) {
                continue;
            }
            out.insert((*r, *c), um.get_cell_content(0, *r, *c).unwrap_or_default());
        }
    }
    out
}

pub struct WordOut {
    pub ds: Vec<Disagreement>,
    pub digest: u128,
    pub counts: [u64; 5],
}

fn state_digest(um: &UserModel) -> u128 {
    let m = um.get_model();
    let ws = &m.workbook.worksheets[0];
    let mut cells: Vec<(i32, i32)> = vec![];
    for (r, rd) in &ws.sheet_data {
        for c in rd.keys() {
            cells.push((*r, *c));
        }
    }
    cells.sort_unstable();
    let mut s = String::new();
    for (r, c) in cells {
        s.push_str(&format!("{},{}={:?}|", r, c, m.get_cell_value_by_index(0, r, c)));
    }
    crate::env::digest(&s)
}

/// Runs the word from the base scenario; judges the final state (the prefix states must be clean).
pub fn run_word(base: &Base, word: &[SOp]) -> Option<WordOut> {
    let case = json!({"base": base, "word": word});
    let mut um = build(base);
    let n = word.len();
    let mut last_kind = "initial".to_string();
    let mut before: Option<BTreeMap<(i32, i32), String>> = None;
    for (i, op) in word.iter().enumerate() {
        if i + 1 == n {
            before = Some(user_contents(&um));
        }
        let r = crate::env::guarded(|| op.apply(&mut um, base));
        match r {
            Err(p) => {
                if i + 1 < n {
                    return None;
                }
                return Some(WordOut {
                    ds: vec![Disagreement {
                        sig: format!("panic {} at={}", op.kind(), p.split(" @ ").last().unwrap_or("")),
                        case,
                        detail: p,
                    }],
                    digest: 0,
                    counts: [0; 5],
                });
            }
            Ok(Err(_)) => return None,
            Ok(Ok(())) => {}
        }
        if i + 1 < n && !check_state(um.get_model()).bad.is_empty() {
            return None; // reported by the shorter word
        }
        last_kind = op.kind();
    }
    let ck = check_state(um.get_model());
    let digest = state_digest(&um);
    let before_eval = user_contents(&um);
    let mut ds: Vec<Disagreement> = vec![];
    if !ck.bad.is_empty() {
        // one defect class of its own: the evaluation pass did not reach a fixpoint, evaluating again repairs the spill
        um.evaluate();
        let again: BTreeSet<String> = check_state(um.get_model()).bad.into_iter().map(|b| b.0).collect();
        for (cls, detail) in &ck.bad {
            let sig = if again.contains(cls) {
                format!("after={} {}", last_kind, cls)
            } else {
                format!("{} not-a-fixpoint(a second evaluate repairs it)", cls.split(' ').next().unwrap_or(""))
            };
            ds.push(Disagreement {
                sig,
                case: case.clone(),
                detail: detail.clone(),
            });
        }
    }
    // spills never overwrite user content: an input into one cell changes no other user-entered content
    if let (Some(before), Some(op)) = (before, word.last()) {
        let target: Option<Vec<(i32, i32)>> = match op {
            SOp::Size(i, _) => Some(vec![(1, *i)]),
            SOp::Block(k, dr, dc) if k == "cse" => Some(vec![(base.row + dr, base.col + dc), (base.row + dr, base.col + dc + 1)]),
            SOp::Block(_, dr, dc) => Some(vec![(base.row + dr, base.col + dc)]),
            _ => None,
        };
        if let Some(t) = target {
            let after = before_eval;
            for (p, text) in &before {
                if t.contains(p) {
                    continue;
                }
                if after.get(p) != Some(text) {
                    ds.push(Disagreement {
                        sig: format!("after={} user-content-changed", last_kind),
                        case: case.clone(),
                        detail: format!("R{}C{} held `{}` and now holds {:?} after {:?}", p.0, p.1, text, after.get(p), op),
                    });
                }
            }
        }
    }
    Some(WordOut {
        ds,
        digest,
        counts: [ck.anchors, ck.spilled, ck.blocked, ck.scalar, ck.unknown],
    })
}

pub fn bases() -> Vec<Base> {
    let mut v = vec![];
    for anchor in 0..ANCHORS.len() {
        for (a, b) in [("2", "2"), ("3", "1")] {
            if anchor != 0 && anchor < 4 && a == "3" {
                continue;
            }
            v.push(Base {
                anchor,
                a: a.into(),
                b: b.into(),
                row: AR,
                col: AC,
            });
        }
    }
    // against the last rows / columns
    v.push(Base {
        anchor: 0,
        a: "2".into(),
        b: "2".into(),
        row: LAST_ROW - 1,
        col: 2,
    });
    v.push(Base {
        anchor: 0,
        a: "2".into(),
        b: "2".into(),
        row: 5,
        col: LAST_COL - 1,
    });
    v
}

/// the product sizes x blocker x anchor (and the edge anchors), as words from a neutral base
pub fn product() -> Vec<(Base, Vec<SOp>)> {
    let mut v = vec![];
    let mut blockers: Vec<Option<SOp>> = vec![None];
    for kind in ["value", "formula", "spill", "cse"] {
        for (dr, dc) in [(0, 1), (0, 2), (1, 0), (1, 1), (2, 0), (2, 2)] {
            blockers.push(Some(SOp::Block(kind.to_string(), dr, dc)));
        }
    }
    blockers.push(Some(SOp::Block("spill-from-above".into(), -1, 1)));
    for anchor in 0..ANCHORS.len() {
        let sized = anchor == 0 || anchor >= 4;
        for a in SIZES {
            for b in SIZES {
                if !sized && (a, b) != ("2", "2") {
                    continue;
                }
                for (row, col) in [(AR, AC), (LAST_ROW - 1, 2), (5, LAST_COL - 1), (LAST_ROW, LAST_COL)] {
                    if (row, col) != (AR, AC) && anchor != 0 {
                        continue;
                    }
                    for bl in &blockers {
                        if bl.is_some() && (row, col) != (AR, AC) {
                            continue;
                        }
                        v.push((
                            Base {
                                anchor,
                                a: a.into(),
                                b: b.into(),
                                row,
                                col,
                            },
                            bl.iter().cloned().collect(),
                        ));
                    }
                }
            }
        }
    }
    v
}

pub fn run(run: &mut Run) {
    let thorough = run.tier.thorough();
    let mut outcomes = BTreeSet::new();
    let mut counts = [0u64; 5];
    // (1) the product
    let prod = product();
    let res = crate::env::par_units(prod.len().div_ceil(16), |u| {
        let mut outs = vec![];
        for (base, word) in prod.iter().skip(u * 16).take(16) {
            outs.push(run_word(base, word));
        }
        outs
    });
    let mut absorb = |run: &mut Run, outs: Vec<Option<WordOut>>, len: u64| {
        for o in outs {
            run.evaluations += 1;
            if let Some(w) = o {
                run.traces += 1;
                run.states += 1;
                run.transitions += len;
                for i in 0..5 {
                    counts[i] += w.counts[i];
                }
                if w.counts[0] > 0 {
                    run.nontrivial += 1;
                }
                outcomes.insert(w.digest);
                run.add_all(w.ds);
            }
        }
    };
    for r in res {
        match r {
            Ok(outs) => absorb(run, outs, 1),
            Err(e) => run.machinery_errors.push(e),
        }
    }
    // (2) words from the base scenarios
    let bs = bases();
    let mut plans = vec![];
    let max_len = if thorough { 3 } else { 2 };
    for len in 1..=max_len {
        let full = true;
        let mut words = 0u64;
        let mut alpha_size = 0;
        for base in &bs {
            let alpha = alphabet(base, full);
            alpha_size = alpha.len();
            let a = alpha.len();
            let prefixes = a.pow((len - 1) as u32);
            let res = crate::env::par_units(prefixes, |u| {
                let mut k = u;
                let mut idx = vec![0usize; len - 1];
                for i in (0..len - 1).rev() {
                    idx[i] = k % a;
                    k /= a;
                }
                let mut word: Vec<SOp> = idx.iter().map(|i| alpha[*i].clone()).collect();
                word.push(alpha[0].clone());
                let mut outs = vec![];
                for op in &alpha {
                    *word.last_mut().unwrap() = op.clone();
                    outs.push(run_word(base, &word));
                }
                outs
            });
            for r in res {
                match r {
                    Ok(outs) => {
                        words += outs.len() as u64;
                        absorb(run, outs, len as u64)
                    }
                    Err(e) => run.machinery_errors.push(e),
                }
            }
        }
        plans.push(json!({"length": len, "alphabet_size": alpha_size, "bases": bs.len(), "words": words}));
    }
    run.distinct_outcomes = outcomes.len() as u64;
    run.bound = json!({
        "product": {"scenarios": prod.len(), "anchors": ANCHORS, "sizes": SIZES, "blockers": "none | value, formula, spill, CSE at 6 cells of the block | a spill entering from above", "edge_anchors": "rows 1048575/1048576, columns 16383/16384"},
        "words": plans,
        "api": "UserModel",
        "hash_seed": crate::env::hash_seed(),
    });
    run.extra.insert(
        "final_states_anchors_spilled_blocked_scalar_unknownshape".into(),
        json!(counts),
    );
    run.rule = "every scenario of the product and every word of the stated length whose operations are all accepted; the final state is judged by the spill invariant over every dynamic-array anchor of the sheet; non-trivial = the final state holds at least one dynamic-array anchor".into();
    run.sample(json!({"base": prod[0].0, "word": prod[0].1}));
    run.sample(json!({"base": bs[0], "word": [alphabet(&bs[0], true)[3], alphabet(&bs[0], true)[12]]}));
    run.sample(json!({"base": bs[bs.len() - 1], "word": [alphabet(&bs[bs.len() - 1], true)[2]]}));
    run.assume("which error a degenerate size (0, text, blank) gives is not stated: any error value is accepted, but it must not spill");
    run.assume("anchors whose formula (after displacement by structural edits) is none of the five shapes, or reads error elements, are only checked structurally (spill cells covered by their anchor)");
    run.assume("when two spills compete for a cell either may win; both showing #SPILL! without a foreign cell in the block is a violation");
    run.assume("blank source cells may show as 0 or empty in a spilled range (not compared)");
    run.assume("hash-map iteration order fixed by VERIF_HASH_SEED for this run (listed seed only)");
}

pub fn replay(case: &Value) -> Vec<Disagreement> {
    let base: Base = match serde_json::from_value(case["base"].clone()) {
        Ok(b) => b,
        Err(_) => return vec![],
    };
    let word: Vec<SOp> = serde_json::from_value(case["word"].clone()).unwrap_or_default();
    run_word(&base, &word).map(|w| w.ds).unwrap_or_default()
}

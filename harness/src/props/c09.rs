//! C09 Printing a formula and parsing it back preserves its meaning.
//!
//! `term` engine: formula texts are enumerated fully parenthesised (so the text fixes the tree), parsed ONCE by the
//! real parser (English, A1) to obtain a tree the parser produces, and then for every printer p
//!     parse_p(print_p(t)) == t          (Node equality)
//! with p in { display form in each of 5 languages x 6 locales (re-read by a parser of that language/locale),
//! stored R1C1 form (re-read in R1C1 mode, English), xlsx export form (re-read in A1 mode, English, compared modulo
//! implicit-intersection operators, which export drops and import re-inserts by design) }.
//! A failing tree is minimised (descend into failing sub-trees) and the culprit child is identified by substitution;
//! the signature is (printer, parent kind, child kind, side).
//! Second oracle at model level: type the formula, read it back (`get_cell_formula`), re-enter that text, and
//! to_bytes/from_bytes: stored R1C1 text, shown text and value stay the same.

use crate::fx;
use crate::report::{Disagreement, Run};
use ironcalc_base::expressions::parser::stringify::{to_excel_string, to_localized_string, to_rc_format};
use ironcalc_base::expressions::parser::{DefinedNameS, Node, Parser};
use ironcalc_base::expressions::types::CellReferenceRC;
use ironcalc_base::Model;
use serde_json::{json, Value};
use std::collections::BTreeMap;

pub const SHEETS: [&str; 4] = ["Sheet1", "Sheet2", "My Sheet", "It's"];
const CROW: i32 = 3;
const CCOL: i32 = 3;

pub fn names() -> Vec<DefinedNameS> {
    vec![
        ("nm".to_string(), None, "Sheet1!$A$1".to_string()),
        ("rng".to_string(), None, "Sheet1!$A$1:$B$2".to_string()),
        ("loc".to_string(), Some(0), "Sheet2!$A$1".to_string()),
    ]
}

fn cx() -> CellReferenceRC {
    fx::ctx("Sheet1", CROW, CCOL)
}

#[derive(Clone, Debug, PartialEq, Eq, PartialOrd, Ord)]
pub enum Printer {
    Display(&'static str, &'static str), // language, locale
    Rc,
    Excel,
}

impl Printer {
    fn id(&self) -> String {
        match self {
            Printer::Display(l, c) => format!("display:{}:{}", l, c),
            Printer::Rc => "rc".into(),
            Printer::Excel => "excel".into(),
        }
    }
    fn from_id(s: &str) -> Option<Printer> {
        if s == "rc" {
            return Some(Printer::Rc);
        }
        if s == "excel" {
            return Some(Printer::Excel);
        }
        let p: Vec<&str> = s.split(':').collect();
        if p.len() == 3 && p[0] == "display" {
            let l = fx::LANGS.iter().find(|x| **x == p[1])?;
            let c = fx::LOCALES.iter().find(|x| **x == p[2])?;
            return Some(Printer::Display(l, c));
        }
        None
    }
}

pub fn all_display() -> Vec<Printer> {
    let mut v = vec![];
    for l in fx::LANGS {
        for c in fx::LOCALES {
            v.push(Printer::Display(l, c));
        }
    }
    v
}

pub struct Env {
    src: Parser<'static>,
    rc: Parser<'static>,
    disp: BTreeMap<(&'static str, &'static str), Parser<'static>>,
}

impl Env {
    pub fn new() -> Env {
        let src = fx::mk_parser(&SHEETS, names(), fx::loc("en"), fx::lang("en"));
        let mut rc = fx::mk_parser(&SHEETS, names(), fx::loc("en"), fx::lang("en"));
        fx::set_rc(&mut rc, true);
        let mut disp = BTreeMap::new();
        for l in fx::LANGS {
            for c in fx::LOCALES {
                disp.insert((l, c), fx::mk_parser(&SHEETS, names(), fx::loc(c), fx::lang(l)));
            }
        }
        Env { src, rc, disp }
    }
    pub fn parse_source(&mut self, text: &str) -> Node {
        self.src.parse(text, &cx())
    }
}

impl Default for Env {
    fn default() -> Self {
        Env::new()
    }
}

/// None = round trip holds. Some((printed, reparsed)) otherwise.
fn roundtrip(t: &Node, p: &Printer, env: &mut Env) -> Option<(String, String)> {
    let r = crate::env::guarded(|| match p {
        Printer::Display(l, c) => {
            let s = to_localized_string(t, &cx(), fx::loc(c), fx::lang(l));
            let got = env.disp.get_mut(&(*l, *c)).expect("parser").parse(&s, &cx());
            if &got != t {
                Some((s, fx::short(&got)))
            } else {
                None
            }
        }
        Printer::Rc => {
            let s = to_rc_format(t);
            let got = env.rc.parse(&s, &cx());
            if &got != t {
                Some((s, fx::short(&got)))
            } else {
                None
            }
        }
        Printer::Excel => {
            let s = to_excel_string(t, &cx());
            let mut got = env.src.parse(&s, &cx());
            let mut want = t.clone();
            fx::strip_ii(&mut got);
            fx::strip_ii(&mut want);
            if got != want {
                Some((s, fx::short(&got)))
            } else {
                None
            }
        }
    });
    match r {
        Ok(x) => x,
        Err(p) => Some((format!("<panic {}>", p), "<panic>".into())),
    }
}

fn minimal<'n>(t: &'n Node, p: &Printer, env: &mut Env) -> &'n Node {
    for (_, c) in fx::children(t) {
        if matches!(c, Node::EmptyArgKind) {
            continue;
        }
        if roundtrip(c, p, env).is_some() {
            return minimal(c, p, env);
        }
    }
    t
}

fn kc(n: &Node) -> String {
    match n {
        Node::CompareKind { .. } => "Compare".into(),
        Node::FunctionKind { kind, args } if args.is_empty() => format!("Function({:?})", kind),
        // `*` is the wildcard of the known-findings matcher: spell the product sign differently in signatures
        other => fx::kind(other).replace('*', "×"),
    }
}

/// The defect class of a failing tree under one printer: "parent=.. child=.. side=..".
fn classify(t: &Node, p: &Printer, env: &mut Env) -> Option<(String, String)> {
    let (printed, got) = roundtrip(t, p, env)?;
    let m = minimal(t, p, env);
    let kids = fx::children(m);
    if kids.is_empty() {
        return Some((format!("leaf={}", kc(m)), format!("`{}` -> {}", printed, got)));
    }
    let (mp, mg) = roundtrip(m, p, env).unwrap_or((printed.clone(), got.clone()));
    let detail = format!(
        "smallest failing sub-tree prints as `{}` and is read back as {}\nsub-tree: {}",
        mp,
        mg,
        fx::short(m)
    );
    // which part is misprinted? substitute the neutral leaf `1` for children and see what still fails
    let replaceable = |side: &str, c: &Node| !matches!(c, Node::EmptyArgKind) && side != "callee";
    if !matches!(m, Node::OpRangeKind { .. }) {
        let mut bare = m.clone();
        for (i, (side, c)) in kids.iter().enumerate() {
            if replaceable(side, c) {
                bare = fx::with_child(&bare, i, Node::NumberKind(1.0));
            }
        }
        if roundtrip(&bare, p, env).is_some() {
            // fails whatever its operands are: the node itself
            return Some((format!("node={}", kc(m)), detail));
        }
        for (i, (side, c)) in kids.iter().enumerate() {
            if !replaceable(side, c) {
                continue;
            }
            // keep only child i, neutralise the others
            let mut only = m.clone();
            for (j, (sj, cj)) in kids.iter().enumerate() {
                if j != i && replaceable(sj, cj) {
                    only = fx::with_child(&only, j, Node::NumberKind(1.0));
                }
            }
            if roundtrip(&only, p, env).is_some() {
                return Some((format!("parent={} child={} side={}", kc(m), kc(c), side), detail));
            }
        }
    }
    let all: Vec<String> = kids.iter().map(|(s, c)| format!("{}:{}", s, kc(c))).collect();
    Some((format!("parent={} children=[{}]", kc(m), all.join(",")), detail))
}

/// Defect class of `t` under the display printer of (language, locale), if its round trip fails (used by C10).
pub fn classify_public(t: &Node, l: &'static str, c: &'static str, env: &mut Env) -> Option<String> {
    classify(t, &Printer::Display(l, c), env).map(|x| x.0)
}

/// Label of a display printer that fails where (en,en) does not: which of language / locale matters.
fn display_label(t: &Node, l: &'static str, c: &'static str, env: &mut Env) -> String {
    if l != "en" && c != "en" {
        if roundtrip(t, &Printer::Display("en", c), env).is_some() {
            return format!("display[locale={}]", c);
        }
        if roundtrip(t, &Printer::Display(l, "en"), env).is_some() {
            return format!("display[lang={}]", l);
        }
        return format!("display[lang={},locale={}]", l, c);
    }
    if l != "en" {
        format!("display[lang={}]", l)
    } else {
        format!("display[locale={}]", c)
    }
}

pub struct TreeOut {
    pub ds: Vec<Disagreement>,
    pub roundtrips: u64,
    pub parse_error: bool,
    pub nontrivial: bool,
    pub digest: u128,
}

/// `printers`: "all" = 30 display + rc + excel, "core" = display en/en + de/de, rc, excel.
pub fn check_text(text: &str, printers: &str, env: &mut Env) -> TreeOut {
    let t = env.parse_source(text);
    let mut out = TreeOut { ds: vec![], roundtrips: 0, parse_error: false, nontrivial: false, digest: 0 };
    if fx::has_parse_error(&t) {
        out.parse_error = true;
        return out;
    }
    out.nontrivial = fx::children(&t).iter().any(|(_, c)| !fx::children(c).is_empty());
    out.digest = crate::env::digest(&to_rc_format(&t));
    let mk = |label: &str, pid: &str, core: &(String, String)| Disagreement {
        sig: format!("roundtrip printer={} {}", label, core.0),
        case: json!({"text": text, "printer": pid}),
        detail: format!("formula `{}` printer {}\n{}", text, pid, core.1),
    };
    let en = Printer::Display("en", "en");
    let r_en = classify(&t, &en, env);
    let r_rc = classify(&t, &Printer::Rc, env);
    let r_ex = classify(&t, &Printer::Excel, env);
    out.roundtrips += 3;
    let same = |a: &Option<(String, String)>, b: &Option<(String, String)>| match (a, b) {
        (Some(x), Some(y)) => x.0 == y.0,
        _ => false,
    };
    if same(&r_en, &r_rc) && same(&r_rc, &r_ex) {
        out.ds.push(mk("all", "display:en:en", r_en.as_ref().unwrap()));
    } else {
        if let Some(c) = &r_en {
            out.ds.push(mk("display", "display:en:en", c));
        }
        if let Some(c) = &r_rc {
            out.ds.push(mk("rc", "rc", c));
        }
        if let Some(c) = &r_ex {
            out.ds.push(mk("excel", "excel", c));
        }
    }
    let others: Vec<Printer> = if printers == "all" {
        all_display().into_iter().filter(|p| *p != en).collect()
    } else {
        vec![Printer::Display("de", "de")]
    };
    for p in others {
        out.roundtrips += 1;
        if roundtrip(&t, &p, env).is_none() {
            continue;
        }
        let r = classify(&t, &p, env);
        if let (Some(c), Printer::Display(l, lc)) = (&r, &p) {
            if r_en.as_ref().map(|x| &x.0) != Some(&c.0) {
                let label = display_label(&t, l, lc, env);
                out.ds.push(mk(&label, &p.id(), c));
            }
        }
    }
    out
}

// ------------------------------------------------------------------ corpus

pub const LEAVES: [&str; 6] = ["1", "A1", "\"a\"", "TRUE", "SUM(1)", "{1,2}"];
const OPS8: [&str; 8] = ["=", "<", "&", "+", "-", "*", "/", "^"];
const OPS5: [&str; 5] = ["=", "&", "+", "*", "^"];

pub fn constructs() -> Vec<&'static str> {
    vec![
        // references
        "A1", "$A$1", "A$1", "$A1", "D5", "C3", "XFD1048576", "$XFD$1048576",
        "A1:B2", "$A$1:$B$2", "A$1:$B2", "D4:E5", "A:A", "$A:$B", "A:$B", "C:E", "1:1", "$1:$2", "1:$2", "3:5",
        "$1:$1048576", "$A:$XFD", "1:1048576", "A:XFD",
        // ranges that reach the last row / column with mixed absolute flags (they must not collapse into A:A / 1:1 forms)
        "C4:C$1048576", "D4:E$1048576", "C$1:C1048576", "C1:C$1048576", "$C4:$C$1048576", "D3:$XFD3", "D4:$XFD5", "$A3:XFD3",
        "A3:$XFD3", "C2:C$1048576", "B3:$XFD3",
        "Sheet2!A1", "Sheet2!$A$1:B2", "'My Sheet'!A1", "'It''s'!$A$1:B2", "Sheet2!A:A", "'My Sheet'!1:2",
        "Sheet1!A1", "NoSheet!A1", "NoSheet!A1:B2", "'No Sheet'!$A1", "'No''Sheet'!A:B",
        // arrays
        "{1}", "{1,2}", "{1;2}", "{1,2;3,4}", "{1,2,3;4,5,6}", "{-1,2}", "{\"a\",TRUE;FALSE,#N/A}", "{1.5,-2.5E-3}",
        "{\"a\"\"b\"}", "{#DIV/0!,#REF!}", "{\"\"}", "{1E+20}",
        // functions
        "PI()", "SUM(1)", "SUM(1,2)", "SUM(1,2,3)", "SUM(,1)", "SUM(1,)", "SUM(1,,2)", "IF(TRUE,,2)", "IF(A1,B1,)",
        "TRUE()", "FALSE()", "NOW()", "foo(1)", "foo()", "Foo.Bar(1,2)", "SUM(A1:B2,C5)", "INDEX(A1:B2,1,1)",
        "ROUND(1.5,0)", "CONCAT(\"a\",\"b\")", "SUM({1,2},{3;4})", "SEQUENCE(2)", "XLOOKUP(1,A1:A3,B1:B3)",
        // lambda / let
        "LAMBDA(x,x+1)", "LAMBDA(x,y,x*y)(1,2)", "LAMBDA(x,[y],x)(1)", "LAMBDA(1)", "LAMBDA(x,x)(LAMBDA(y,y)(2))",
        "LET(x,1,x+1)", "LET(x,1,y,x+1,x*y)", "LET(f,LAMBDA(a,a*a),f(2))", "LET(F,LAMBDA(a,a*a),F(2))", "BYROW(A1:B2,LAMBDA(r,SUM(r)))",
        "MAP(A1:A2,LAMBDA(c,c*2))", "LET(R,1,R+1)",
        // implicit intersection, spill
        "@A1", "@A1:A3", "@SUM(A1:A3)", "@nm", "@rng", "SUM(@A:A)", "A1#", "Sheet2!A1#", "SUM(A1#)", "$A$1#",
        "nm#", "@A1#", "@(A1:A2+1)", "(A1:A2)#", "@(A1:B2)", "-(A1:A2)", "(A1:A2)%",
        // errors
        "#REF!", "#NAME?", "#VALUE!", "#DIV/0!", "#N/A", "#NUM!", "#ERROR!", "#N/IMPL!", "#SPILL!", "#CALC!", "#CIRC!",
        "#NULL!",
        // strings
        "\"\"", "\"a\"", "\"a\"\"b\"", "\"a b\"", "\"=1+1\"", "\"'\"", "\"é😀\"", "\"1,5\"", "\"a;b\"", "\"{1}\"",
        "\"TRUE\"", "\" \"",
        // numbers
        "0", "1", "1.5", "0.1", "1E+20", "1E-7", "123456789012345", "1.0000000000000002", "12345678901234567",
        "1E+300", ".5", "5.", "1E5", "1e5", "0.000001", "1E-300",
        // percent and sign chains
        "1%%", "A1%%%", "--1", "-+-1", "+1", "-(-1)", "-1%", "-(1%)", "(-1)%", "--A1", "-A1%", "(1)", "((A1))",
        // names
        "nm", "rng", "loc", "unknownname", "x.y", "_a", "Nm", "NM+1",
        // range operator
        "A1:OFFSET(A1,1,1)", "OFFSET(A1,1,1):A2", "INDEX(A1:B2,1,1):B2", "A1:B2:C3", "A1:nm",
        // booleans
        "TRUE", "FALSE", "true",
    ]
}

fn operand_forms(c: &str) -> Vec<String> {
    let mut v = vec![c.to_string(), format!("-({})", c), format!("({})%", c), format!("SUM(({}))", c), format!("SUM({},{})", c, c)];
    for op in fx::BINOPS {
        v.push(format!("({}){}1", c, op));
        v.push(format!("1{}({})", op, c));
    }
    // bare (unparenthesised) operand positions as well: the parser decides the tree
    v.push(format!("{}+1", c));
    v.push(format!("1+{}", c));
    v.push(format!("-{}", c));
    v.push(format!("{}%", c));
    v
}

pub struct Corpus {
    pub all_printers: Vec<String>,
    pub core_printers: Vec<String>,
    pub desc: Value,
}

pub fn corpus(thorough: bool) -> Corpus {
    let mut all_printers = fx::terms(&LEAVES, &fx::BINOPS, 1, true);
    let s1 = all_printers.len();
    let mut s4 = 0;
    for c in constructs() {
        let f = operand_forms(c);
        s4 += f.len();
        all_printers.extend(f);
    }
    let mut core_printers;
    let s2desc;
    if thorough {
        core_printers = fx::terms(&["1"], &OPS8, 2, true);
        s2desc = "depth<=2, operators {= < & + - * / ^}, leaf 1, unary - and % over leaves and over every binary node";
    } else {
        core_printers = fx::terms(&["1"], &OPS8, 2, false);
        s2desc = "depth<=2, operators {= < & + - * / ^}, leaf 1, unary - and % over every binary node";
    }
    let s2 = core_printers.len();
    let mut s3 = 0;
    if thorough {
        // depth 3 without unary operators: build by hand from the depth-2 set without unary
        let d3 = terms_no_unary(&["1"], &OPS5, 3);
        s3 = d3.len();
        core_printers.extend(d3);
    }
    all_printers.sort();
    all_printers.dedup();
    core_printers.sort();
    core_printers.dedup();
    Corpus {
        desc: json!({
            "S1 (all 32 printers)": {"terms": s1, "what": "depth<=1, 12 binary operators, leaves {1,A1,\"a\",TRUE,SUM(1),{1,2}}, unary - and % over leaves and binary nodes"},
            "S4 (all 32 printers)": {"texts": s4, "constructs": constructs().len(), "what": "each construct alone, under unary - and %, as left and right operand of each of the 12 operators (parenthesised and bare), as function argument"},
            "S2 (en/en, de/de, rc, excel)": {"terms": s2, "what": s2desc},
            "S3 (en/en, de/de, rc, excel)": {"terms": s3, "what": "thorough only: depth<=3, operators {= & + * ^}, leaf 1, no unary"},
        }),
        all_printers,
        core_printers,
    }
}

fn terms_no_unary(leaves: &[&str], ops: &[&str], depth: usize) -> Vec<String> {
    let mut levels: Vec<Vec<(String, bool)>> = vec![leaves.iter().map(|l| (l.to_string(), true)).collect()];
    for k in 1..=depth {
        let mut cur = vec![];
        let lower: Vec<(usize, (String, bool))> =
            levels.iter().enumerate().flat_map(|(d, v)| v.iter().map(move |t| (d, t.clone()))).collect();
        for (da, a) in &lower {
            for (db, b) in &lower {
                if *da != k - 1 && *db != k - 1 {
                    continue;
                }
                for op in ops {
                    let w = |t: &(String, bool)| if t.1 { t.0.clone() } else { format!("({})", t.0) };
                    cur.push((format!("{}{}{}", w(a), op, w(b)), false));
                }
            }
        }
        levels.push(cur);
    }
    levels.into_iter().flatten().map(|(t, _)| t).collect()
}

// ------------------------------------------------------------------ model level

fn model_texts(thorough: bool) -> Vec<String> {
    let mut v = if thorough {
        fx::terms(&["2", "3"], &OPS8, 2, false)
    } else {
        fx::terms(&["2", "3"], &OPS5, 2, false)
    };
    for c in constructs() {
        if heavy(c) {
            continue;
        }
        v.push(c.to_string());
        v.push(format!("1+({})", c));
        v.push(format!("({})&\"x\"", c));
    }
    v.sort();
    v.dedup();
    v
}

/// Constructs whose evaluation materialises a whole row / column / sheet (up to 17e9 cells): printed and parsed at
/// AST level only, never evaluated.
pub fn heavy(c: &str) -> bool {
    if c == "SUM(@A:A)" {
        return false;
    }
    [
        "A:A", "$A:$B", "A:$B", "C:E", "1:1", "$1:$2", "1:$2", "3:5", "$1:$1048576", "$A:$XFD", "1:1048576", "A:XFD",
        "'My Sheet'!1:2", "'No''Sheet'!A:B",
    ]
    .iter()
    .any(|h| c.contains(h))
}

fn new_model(lang: &'static str) -> Model<'static> {
    let mut m = Model::new_empty("m", lang, "UTC", lang).expect("model");
    let _ = m.rename_sheet_by_index(0, "Sheet1");
    for s in &SHEETS[1..] {
        let _ = m.add_sheet(s);
    }
    let _ = m.set_user_input(0, 1, 1, "2".to_string());
    let _ = m.set_user_input(0, 2, 1, "5".to_string());
    let _ = m.set_user_input(0, 1, 2, "7".to_string());
    let _ = m.set_user_input(0, 2, 2, "11".to_string());
    let _ = m.set_user_input(1, 1, 1, "13".to_string());
    let _ = m.new_defined_name("nm", None, "Sheet1!$A$1");
    let _ = m.new_defined_name("rng", None, "Sheet1!$A$1:$B$2");
    let _ = m.new_defined_name("loc", Some(0), "Sheet2!$A$1");
    m
}

pub struct ModelOut {
    pub ds: Vec<Disagreement>,
    pub accepted: bool,
    pub explained: u64,
    pub calls: u64,
}

/// Row 8, column 3 of Sheet1 is the formula cell (nothing of the seed data spills into it).
pub fn check_model(text: &str, lang: &'static str, env: &mut Env) -> ModelOut {
    let mut out = ModelOut { ds: vec![], accepted: false, explained: 0, calls: 0 };
    let t = env.parse_source(text);
    if fx::has_parse_error(&t) {
        return out;
    }
    let body = to_localized_string(&t, &cx(), fx::loc(lang), fx::lang(lang));
    let typed = format!("={}", body);
    // the subject is the typed text: its own tree (as the parser of that language reads it) is what must survive
    let t = env.disp.get_mut(&(lang, lang)).expect("parser").parse(&body, &cx());
    if fx::has_parse_error(&t) {
        return out;
    }
    let disp = Printer::Display(lang, lang);
    let ast_display = classify(&t, &disp, env);
    let ast_rc = classify(&t, &Printer::Rc, env);
    let mut m = new_model(lang);
    let (r, c) = (CROW, CCOL);
    let val = |m: &Model| format!("{:?}", m.get_cell_value_by_index(0, r, c));
    if m.set_user_input(0, r, c, typed.clone()).is_err() {
        return out;
    }
    m.evaluate();
    out.calls += 2;
    let rc0 = match fx::stored_rc(&m, 0, r, c) {
        Some(s) => s,
        None => return out, // not taken as a formula
    };
    out.accepted = true;
    let v0 = val(&m);
    let shown = m.get_cell_formula(0, r, c).ok().flatten().unwrap_or_default();
    let mk = |stage: &str, detail: String| Disagreement {
        sig: format!("model {} lang={}", stage, lang),
        case: json!({"model": true, "text": text, "lang": lang}),
        detail: format!("typed `{}` (stored `{}`, value {})\n{}", typed, rc0, v0, detail),
    };
    // re-enter the shown text
    let mut reenter_bad = None;
    match m.set_user_input(0, r, c, shown.clone()) {
        Err(e) => reenter_bad = Some(format!("re-entering the shown text `{}` failed: {}", shown, e)),
        Ok(()) => {
            m.evaluate();
            let rc1 = fx::stored_rc(&m, 0, r, c).unwrap_or_default();
            let v1 = val(&m);
            if rc1 != rc0 || v1 != v0 {
                reenter_bad = Some(format!("shown `{}`, re-entered: stored `{}`, value {}", shown, rc1, v1));
            }
        }
    }
    out.calls += 2;
    if let Some(why) = reenter_bad {
        if ast_display.is_some() {
            out.explained += 1;
        } else {
            out.ds.push(mk("reenter", why));
        }
        // restore the original for the reload stage
        let _ = m.set_user_input(0, r, c, typed.clone());
        m.evaluate();
    }
    // save / load
    let rc_before = fx::stored_rc(&m, 0, r, c).unwrap_or_default();
    let v_before = val(&m);
    let shown_before = m.get_cell_formula(0, r, c).ok().flatten().unwrap_or_default();
    let bytes = m.to_bytes();
    out.calls += 2;
    match crate::env::guarded(|| Model::from_bytes(&bytes, lang)) {
        Ok(Ok(mut m2)) => {
            m2.evaluate();
            let rc2 = fx::stored_rc(&m2, 0, r, c).unwrap_or_default();
            let v2 = format!("{:?}", m2.get_cell_value_by_index(0, r, c));
            let shown2 = m2.get_cell_formula(0, r, c).ok().flatten().unwrap_or_default();
            if rc2 != rc_before || v2 != v_before || shown2 != shown_before {
                if ast_rc.is_some() {
                    out.explained += 1;
                } else {
                    out.ds.push(mk(
                        "reload",
                        format!(
                            "after to_bytes/from_bytes: stored `{}` (was `{}`), shown `{}` (was `{}`), value {} (was {})",
                            rc2, rc_before, shown2, shown_before, v2, v_before
                        ),
                    ));
                }
            }
        }
        Ok(Err(e)) => out.ds.push(mk("reload-error", e)),
        Err(p) => out.ds.push(mk("reload-panic", p)),
    }
    out
}

// ------------------------------------------------------------------ driver

pub fn run(run: &mut Run) {
    let thorough = run.tier.thorough();
    let corp = corpus(thorough);
    let mut work: Vec<(&str, &String)> = vec![];
    for t in &corp.all_printers {
        work.push(("all", t));
    }
    for t in &corp.core_printers {
        work.push(("core", t));
    }
    let chunk = if thorough { 2048 } else { 256 };
    let n_units = work.len().div_ceil(chunk);
    let res = crate::env::par_units(n_units, |u| {
        let mut env = Env::new();
        let mut ds = vec![];
        let (mut rt, mut pe, mut nt, mut n) = (0u64, 0u64, 0u64, 0u64);
        let mut dig = std::collections::BTreeSet::new();
        for (mode, text) in work.iter().skip(u * chunk).take(chunk) {
            let o = check_text(text, mode, &mut env);
            n += 1;
            rt += o.roundtrips;
            if o.parse_error {
                pe += 1;
            } else {
                dig.insert(o.digest);
                if o.nontrivial {
                    nt += 1;
                }
            }
            ds.extend(o.ds);
        }
        (ds, rt, pe, nt, n, dig)
    });
    let mut trees = std::collections::BTreeSet::new();
    let mut parse_errors = 0u64;
    for r in res {
        match r {
            Ok((ds, rt, pe, nt, n, dig)) => {
                run.add_all(ds);
                run.transitions += 2 * rt;
                run.traces += rt;
                parse_errors += pe;
                run.nontrivial += nt;
                run.evaluations += n;
                trees.extend(dig);
            }
            Err(e) => run.machinery_errors.push(format!("unit panicked: {}", e)),
        }
    }
    // model level
    let mtexts = model_texts(thorough);
    let mut mwork: Vec<(&'static str, &String)> = vec![];
    for l in ["en", "de"] {
        for t in &mtexts {
            mwork.push((l, t));
        }
    }
    let mchunk = 128;
    let res = crate::env::par_units(mwork.len().div_ceil(mchunk), |u| {
        let mut env = Env::new();
        let mut ds = vec![];
        let (mut acc, mut expl, mut calls) = (0u64, 0u64, 0u64);
        for (l, t) in mwork.iter().skip(u * mchunk).take(mchunk) {
            let o = check_model(t, l, &mut env);
            if o.accepted {
                acc += 1;
            }
            expl += o.explained;
            calls += o.calls;
            ds.extend(o.ds);
        }
        (ds, acc, expl, calls)
    });
    let (mut macc, mut mexpl) = (0u64, 0u64);
    for r in res {
        match r {
            Ok((ds, acc, expl, calls)) => {
                run.add_all(ds);
                macc += acc;
                mexpl += expl;
                run.transitions += calls;
            }
            Err(e) => run.machinery_errors.push(format!("model unit panicked: {}", e)),
        }
    }
    run.evaluations += mwork.len() as u64;
    run.traces += macc;
    run.states = trees.len() as u64;
    run.distinct_outcomes = trees.len() as u64;
    run.rule = "texts whose parsed tree has an operator/function node below the root (a nesting the printer must decide parentheses for); distinct trees counted by stored form".into();
    run.sample(json!({"text": work[0].1, "printers": work[0].0}));
    run.sample(json!({"text": work[work.len() / 2].1, "printers": work[work.len() / 2].0}));
    run.sample(json!({"text": work[work.len() - 1].1, "printers": work[work.len() - 1].0}));
    run.sample(json!({"model": true, "text": mtexts[mtexts.len() / 2], "lang": "de"}));
    run.bound = json!({
        "ast_level": corp.desc,
        "texts": work.len(),
        "texts_not_accepted_by_parser": parse_errors,
        "printers": {"display": "5 languages x 6 locales", "rc": "to_rc_format re-read in R1C1 mode", "excel": "to_excel_string re-read in English A1 (modulo implicit intersection)"},
        "context_cell": "Sheet1!C3; sheets Sheet1, Sheet2, 'My Sheet', 'It''s'; defined names nm, rng, loc(Sheet1)",
        "model_level": {"texts": mtexts.len(), "languages": ["en/en", "de/de"], "accepted_as_formula": macc, "failures_already_explained_by_ast_level": mexpl},
    });
    run.extra.insert("model_level_explained_by_ast".into(), json!(mexpl));
    run.exhaustive = true;
    run.assume("trees are exactly those the English A1 parser produces from the enumerated texts; texts it rejects are counted, not judged");
    run.assume("xlsx form: export drops redundant implicit-intersection operators and import re-inserts them, so that printer is compared modulo `@` nodes");
    run.assume("a display printer other than en/en is reported only where it behaves differently from en/en on the same tree");
    run.assume("model-level failures on a tree whose AST-level round trip already fails for the same printer are counted as explained, not reported twice");
}

pub fn replay(case: &Value) -> Vec<Disagreement> {
    let mut env = Env::new();
    let text = case["text"].as_str().unwrap_or("");
    if case["model"].as_bool() == Some(true) {
        let lang: &'static str = if case["lang"].as_str() == Some("de") { "de" } else { "en" };
        return check_model(text, lang, &mut env).ds;
    }
    let pid = case["printer"].as_str().unwrap_or("display:en:en");
    let _ = Printer::from_id(pid);
    let o = check_text(text, "all", &mut env);
    // keep the disagreements of the recorded printer (or all of them if it was the merged `all` label)
    let v: Vec<Disagreement> = o.ds.iter().filter(|d| d.case["printer"] == case["printer"]).cloned().collect();
    if v.is_empty() {
        o.ds
    } else {
        v
    }
}

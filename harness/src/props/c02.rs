//! C02 Redo re-applies exactly what undo removed; undo/redo move a cursor; a new operation discards the tail.

use crate::hist::{self, HistCfg};
use crate::obs::{self, Obs, ObsOpts};
use crate::ops::Op;
use crate::props::c01::{classes, shape_tokens};
use crate::report::{Disagreement, Run};
use crate::seeds;
use serde_json::{json, Value};

pub struct Out {
    pub ds: Vec<Disagreement>,
    pub runs: u64,
    pub steps: u64,
    pub nontrivial: u64,
    pub digests: Vec<u128>,
    pub tainted: u64,
}

/// all words over {U,R} of length 1..=max
fn ur_words(max: usize) -> Vec<Vec<bool>> {
    let mut out = vec![];
    for len in 1..=max {
        for bits in 0..(1u32 << len) {
            out.push((0..len).map(|i| bits >> i & 1 == 1).collect()); // true = redo
        }
    }
    out
}

/// Replays the forward word, recording observations after each recorded entry. None if an op fails.
fn forward(
    seed: &'static str,
    word: &[Op],
    o: &ObsOpts,
) -> Option<(ironcalc_base::UserModel<'static>, Vec<Obs>, Vec<usize>)> {
    let mut um = seeds::load(seed);
    let mut rec = vec![obs::observe(&um, o)];
    let mut owner = vec![]; // index into word of the op that pushed entry k
    for (i, op) in word.iter().enumerate() {
        let d0 = um.verif_history_depths().0;
        match crate::env::guarded(|| op.apply(&mut um)) {
            Ok(Ok(())) => {}
            _ => return None,
        }
        let d1 = um.verif_history_depths().0;
        if d1 == d0 + 1 {
            rec.push(obs::observe(&um, o));
            owner.push(i);
        } else if d1 != d0 {
            return None; // judged by C01 (several entries)
        } else {
            // no entry recorded: the recorded observation of the current cursor position is the new state
            *rec.last_mut().unwrap() = obs::observe(&um, o);
        }
    }
    Some((um, rec, owner))
}

fn judge_ur(seed: &'static str, word: &[Op], ur: &[bool]) -> (Vec<Disagreement>, u64, bool, u128) {
    let o = ObsOpts::default();
    let mut ds = vec![];
    let case = json!({"seed": seed, "ops": word, "ur": ur.iter().map(|b| if *b {"redo"} else {"undo"}).collect::<Vec<_>>()});
    let (mut um, rec, owner) = match forward(seed, word, &o) {
        Some(x) => x,
        None => return (ds, 0, false, 0),
    };
    let n = rec.len() - 1;
    let mut k = n; // cursor: entries applied
    let mut steps = 0;
    let mut did_redo = false;
    for (si, is_redo) in ur.iter().enumerate() {
        let expect_move = if *is_redo { k < n } else { k > 0 };
        let r = crate::env::guarded(|| if *is_redo { um.redo() } else { um.undo() });
        steps += 1;
        match r {
            Err(p) => {
                ds.push(Disagreement {
                    sig: format!("panic {} at={}", if *is_redo { "redo" } else { "undo" }, p.split(" @ ").last().unwrap_or("")),
                    case: case.clone(),
                    detail: format!("step {} panicked: {}", si, p),
                });
                return (ds, steps, did_redo, 0);
            }
            Ok(Err(e)) => {
                let opk = if *is_redo && k < n { word[owner[k]].kind() } else if !*is_redo && k > 0 { word[owner[k - 1]].kind() } else { "none" };
                ds.push(Disagreement {
                    sig: format!("{}-error op={}", if *is_redo { "redo" } else { "undo" }, opk),
                    case: case.clone(),
                    detail: format!("step {} returned Err({})", si, e),
                });
                return (ds, steps, did_redo, 0);
            }
            Ok(Ok(())) => {}
        }
        if expect_move {
            if *is_redo {
                k += 1;
            } else {
                k -= 1;
            }
        }
        let (u, rdepth) = um.verif_history_depths();
        if u != k || rdepth != n - k || um.can_undo() != (k > 0) || um.can_redo() != (k < n) {
            ds.push(Disagreement {
                sig: format!("cursor-mismatch after={}", if *is_redo { "redo" } else { "undo" }),
                case: case.clone(),
                detail: format!(
                    "after step {}: undo depth {} redo depth {} can_undo {} can_redo {}; cursor model says {} / {}",
                    si, u, rdepth, um.can_undo(), um.can_redo(), k, n - k
                ),
            });
            return (ds, steps, did_redo, 0);
        }
        if *is_redo && expect_move {
            did_redo = true;
            let s = obs::observe(&um, &o);
            if s != rec[k] {
                let df = obs::diff(&rec[k], &s);
                let undone_before = ur[..si].iter().filter(|b| !**b).count();
                let _ = undone_before;
                ds.push(Disagreement {
                    sig: format!(
                        "redo op={} fields={} shape={}",
                        word[owner[k - 1]].kind(),
                        classes(&df),
                        shape_tokens(&df)
                    ),
                    case: case.clone(),
                    detail: format!(
                        "after redoing {:?} the workbook differs from the state recorded when it originally ran:\n{}",
                        word[owner[k - 1]],
                        obs::diff_text(&df, 8)
                    ),
                });
                return (ds, steps, did_redo, 0);
            }
        }
        if !*is_redo && expect_move {
            // An undo that does not restore the recorded state is C01's finding; what redo does from a
            // damaged state is not attributable to redo, so this execution stops being judged here.
            let s = obs::observe(&um, &o);
            if s != rec[k] {
                return (ds, steps, did_redo, 1);
            }
        }
        if !expect_move {
            // a no-op undo/redo must not change the observation either
            let s = obs::observe(&um, &o);
            // compare against what we last knew at this cursor only when nothing was damaged before
            if k == n && s != rec[n] && ur[..si].iter().all(|b| *b) {
                let df = obs::diff(&rec[n], &s);
                ds.push(Disagreement {
                    sig: format!("noop-redo-changed fields={}", classes(&df)),
                    case: case.clone(),
                    detail: format!("redo with an empty redo list changed the workbook:\n{}", obs::diff_text(&df, 6)),
                });
                return (ds, steps, did_redo, 0);
            }
        }
    }
    let fin = obs::digest(&obs::observe(&um, &o));
    (ds, steps, did_redo, fin)
}

/// ops^a · undo^k · op: the redo list must be discarded and redo be a no-op
fn judge_new_op(seed: &'static str, word: &[Op], k: usize, op: &Op) -> (Vec<Disagreement>, u64, bool) {
    let o = ObsOpts::default();
    let mut ds = vec![];
    let case = json!({"seed": seed, "ops": word, "undos": k, "then": op});
    let (mut um, rec, _) = match forward(seed, word, &o) {
        Some(x) => x,
        None => return (ds, 0, false),
    };
    let n = rec.len() - 1;
    if k > n {
        return (ds, 0, false);
    }
    for _ in 0..k {
        if !matches!(crate::env::guarded(|| um.undo()), Ok(Ok(()))) {
            return (ds, 0, false);
        }
    }
    let d0 = um.verif_history_depths();
    match crate::env::guarded(|| op.apply(&mut um)) {
        Ok(Ok(())) => {}
        _ => return (ds, 0, false),
    }
    let d1 = um.verif_history_depths();
    if d1.0 == d0.0 {
        // recorded nothing: the redo list legitimately stays
        return (ds, (k + 1) as u64, false);
    }
    if d1.1 != 0 || um.can_redo() {
        ds.push(Disagreement {
            sig: format!("redo-list-kept-after-new-op op={}", op.kind()),
            case: case.clone(),
            detail: format!("after {} undo(s) and the new operation {:?} the redo depth is {} (can_redo {})", k, op, d1.1, um.can_redo()),
        });
        return (ds, (k + 1) as u64, true);
    }
    let before = obs::observe(&um, &o);
    let r = crate::env::guarded(|| um.redo());
    let after = obs::observe(&um, &o);
    if !matches!(r, Ok(Ok(()))) || before != after || um.verif_history_depths() != d1 {
        let df = obs::diff(&before, &after);
        ds.push(Disagreement {
            sig: format!("redo-after-new-op-not-noop op={}", op.kind()),
            case,
            detail: format!("redo after a new operation returned {:?} and changed:\n{}", r, obs::diff_text(&df, 6)),
        });
    }
    (ds, (k + 2) as u64, true)
}


// ---------- redo while the display language differs from the one the operation was entered in ----------
// The history entry must carry what was done, not the localized text that was typed: op entered in language L, undone,
// language switched to English, redone, language switched back to L -> the observation recorded after the op.

fn lang_ops(lang: &str) -> Vec<Op> {
    let (sum, iff, sep) = match lang {
        "es" => ("SUMA", "SI", ","),
        "de" => ("SUMME", "WENN", ","),
        "fr" => ("SOMME", "SI", ","),
        "it" => ("SOMMA", "SE", ","),
        _ => ("SUM", "IF", ","),
    };
    let s = |x: String| x;
    vec![
        Op::Input(0, 5, 2, s(format!("={}(A1{}A2)", sum, sep))),
        Op::Input(0, 5, 3, s(format!("={}(A1>1{}{}(A1:A2){}0)", iff, sep, sum, sep))),
        Op::ArrayFormula(0, 8, 1, 2, 1, s(format!("={}(A1:A2)*A1:B1", sum))),
        Op::NewName("lname".into(), None, s(format!("={}(Sheet1!$A$1:$A$2)", sum))),
        Op::UpdateName("nm".into(), None, "nm".into(), None, s(format!("={}(Sheet1!$A$1:$A$2)", sum))),
        Op::NewName("lfun".into(), None, s(format!("=LAMBDA(x{}{}(x>0{}10{}20))", sep, iff, sep, sep))),
        Op::AddCf(0, "B1:B3".into(), s(format!("{}(A1:A2)>1", sum))),
        Op::PasteCsv(0, 5, 4, s(format!("={}(A1{}A2)", sum, sep))),
    ]
}

fn judge_lang_redo(lang: &'static str, op: &Op) -> Vec<Disagreement> {
    let o = ObsOpts::default();
    let case = json!({"family": "redo-under-other-language", "lang": lang, "op": op});
    let mut ds = vec![];
    let mut um = seeds::load("basic");
    if um.set_language(lang).is_err() {
        return ds;
    }
    let d0 = um.verif_history_depths().0;
    match crate::env::guarded(|| op.apply(&mut um)) {
        Ok(Ok(())) => {}
        _ => return ds,
    }
    if um.verif_history_depths().0 != d0 + 1 {
        return ds;
    }
    let recorded = obs::observe(&um, &o);
    let step = |um: &mut ironcalc_base::UserModel<'static>, what: &str| -> Result<(), String> {
        let r = match what {
            "undo" => um.undo(),
            "redo" => um.redo(),
            l => um.set_language(l),
        };
        r.map_err(|e| format!("{} failed: {}", what, e))
    };
    for what in ["undo", "en", "redo", lang] {
        match crate::env::guarded(|| step(&mut um, what)) {
            Ok(Ok(())) => {}
            Ok(Err(e)) => {
                ds.push(Disagreement { sig: format!("redo-under-other-language op={} step-error", op.kind()), case, detail: e });
                return ds;
            }
            Err(p) => {
                ds.push(Disagreement { sig: format!("panic redo-under-other-language at={}", p.split(" @ ").last().unwrap_or("")), case, detail: p });
                return ds;
            }
        }
    }
    let now = obs::observe(&um, &o);
    if now != recorded {
        let df = obs::diff(&recorded, &now);
        ds.push(Disagreement {
            sig: format!("redo-under-other-language op={} fields={}", op.kind(), classes(&df)),
            case,
            detail: format!(
                "{:?} entered in {}, undone, redone while the language was en, shown again in {}: differs from the state recorded when it ran:\n{}",
                op, lang, lang, obs::diff_text(&df, 6)
            ),
        });
    }
    ds
}

fn judge_word(seed: &'static str, word: &[Op], ur_max: usize, new_ops: &[Op]) -> Option<Out> {
    // cut early if the forward word fails
    let o = ObsOpts::default();
    let (_, rec, _) = forward(seed, word, &o)?;
    let n = rec.len() - 1;
    let mut out = Out {
        ds: vec![],
        runs: 0,
        steps: 0,
        nontrivial: 0,
        digests: vec![],
        tainted: 0,
    };
    if n > 0 {
        for ur in ur_words(ur_max.min(2 * n + 1)) {
            let (ds, steps, did_redo, fin) = judge_ur(seed, word, &ur);
            out.runs += 1;
            out.steps += steps + word.len() as u64;
            if did_redo {
                out.nontrivial += 1;
            }
            if fin == 1 {
                out.tainted += 1;
            } else if fin != 0 {
                out.digests.push(fin);
            }
            out.ds.extend(ds);
        }
        for k in 1..=n {
            for op in new_ops {
                let (ds, steps, nt) = judge_new_op(seed, word, k, op);
                out.runs += 1;
                out.steps += steps + word.len() as u64;
                if nt {
                    out.nontrivial += 1;
                }
                out.ds.extend(ds);
            }
        }
    }
    Some(out)
}

pub fn run(run: &mut Run) {
    let thorough = run.tier.thorough();
    let full = seeds::alphabet_full();
    let core = seeds::alphabet_core();
    let all_seeds: Vec<&'static str> = seeds::SEEDS.to_vec();
    // (cfg, len, ur_max, new-op alphabet)
    let small_new: Vec<Op> = vec![core[0].clone(), core[18].clone(), core[22].clone(), core[26].clone()];
    let mut plans: Vec<(HistCfg, usize, usize, Vec<Op>, &str)> = vec![
        (HistCfg { seeds: all_seeds.clone(), alphabet: full.clone(), depth: 1 }, 1, 3, core.clone(), "full"),
        (HistCfg { seeds: vec!["basic"], alphabet: core.clone(), depth: 2 }, 2, if thorough { 4 } else { 3 }, small_new.clone(), "core"),
    ];
    if thorough {
        plans.push((HistCfg { seeds: vec!["basic"], alphabet: full.clone(), depth: 2 }, 2, 3, vec![core[0].clone(), core[22].clone()], "full"));
        plans.push((HistCfg { seeds: vec!["basic"], alphabet: core.iter().step_by(2).cloned().collect(), depth: 3 }, 3, 3, vec![core[0].clone()], "core/2"));
    }
    let mut outcomes = std::collections::HashSet::new();
    let mut bounds = vec![];
    let mut tainted = 0u64;
    {
        let langs: [&'static str; 4] = ["es", "de", "fr", "it"];
        let mut n = 0u64;
        for l in langs {
            let ops = lang_ops(l);
            let res = crate::env::par_units(ops.len(), |u| judge_lang_redo(l, &ops[u]));
            for r in res {
                n += 1;
                match r {
                    Ok(ds) => run.add_all(ds),
                    Err(e) => run.machinery_errors.push(e),
                }
            }
        }
        run.evaluations += n;
        run.traces += n;
        run.transitions += n * 5;
        bounds.push(json!({"family": "redo-under-other-language", "languages": langs, "operations_per_language": 8, "executions": n}));
    }
    for (cfg, len, ur_max, new_ops, name) in &plans {
        let j = |seed: &'static str, word: &[Op]| judge_word(seed, word, *ur_max, new_ops);
        let (outs, st, errs) = hist::explore(cfg, *len, &j);
        for e in errs {
            run.machinery_errors.push(e);
        }
        let mut runs = 0;
        for w in outs {
            runs += w.runs;
            run.evaluations += w.runs;
            run.traces += w.runs;
            run.transitions += w.steps;
            run.states += w.steps;
            run.nontrivial += w.nontrivial;
            tainted += w.tainted;
            for d in w.digests {
                outcomes.insert(d);
            }
            run.add_all(w.ds);
        }
        bounds.push(json!({"alphabet": name, "alphabet_size": cfg.alphabet.len(), "forward_length": len, "undo_redo_words_up_to": ur_max,
            "new_ops_after_partial_undo": new_ops.len(), "seeds": cfg.seeds, "forward_histories_ok": st.words, "executions": runs}));
        if run.elapsed() > if thorough { 3000.0 } else { 600.0 } {
            run.cap_hit = Some(format!("wall clock after plan {} len {}", name, len));
            break;
        }
    }
    run.distinct_outcomes = outcomes.len() as u64;
    run.extra.insert("executions_not_judged_after_a_damaging_undo".into(), json!(tainted));
    run.bound = json!({"plans": bounds, "hash_seed": crate::env::hash_seed()});
    run.rule = "every forward history of the stated length (all operations Ok) followed by EVERY word over {undo, redo} up to the stated length, and every history ops·undo^k·op; each executed on the real UserModel against a cursor model (list of recorded observations + index). non-trivial = executions in which at least one redo actually re-applied an entry (or a new operation discarded a non-empty redo list)".into();
    run.sample(json!({"seed":"basic","ops":[core[0]],"ur":["undo","redo"]}));
    run.sample(json!({"seed":"basic","ops":[core[22], core[7]],"ur":["undo","undo","redo","undo"]}));
    run.sample(json!({"seed":"empty","ops":[full[60]],"undos":1,"then":core[0]}));
    run.assume("redo observations are compared with the observation recorded when the operation originally ran, so defects of undo (C01) are not re-reported unless they make redo diverge");
    run.assume("hash-map iteration order fixed by VERIF_HASH_SEED for this run");
}

pub fn replay(case: &Value) -> Vec<Disagreement> {
    let seed = hist::seed_name(case["seed"].as_str().unwrap_or("empty"));
    let ops: Vec<Op> = serde_json::from_value(case["ops"].clone()).unwrap_or_default();
    if case["family"] == "redo-under-other-language" {
        let lang: &'static str = crate::props::c23::LANGS.iter().find(|l| Some(**l) == case["lang"].as_str()).copied().unwrap_or("es");
        return match serde_json::from_value::<Op>(case["op"].clone()) {
            Ok(op) => judge_lang_redo(lang, &op),
            Err(_) => vec![],
        };
    }
    if case.get("ur").is_some() {
        let ur: Vec<bool> = case["ur"]
            .as_array()
            .map(|a| a.iter().map(|x| x == "redo").collect())
            .unwrap_or_default();
        judge_ur(seed, &ops, &ur).0
    } else {
        let k = case["undos"].as_u64().unwrap_or(0) as usize;
        match serde_json::from_value::<Op>(case["then"].clone()) {
            Ok(op) => judge_new_op(seed, &ops, k, &op).0,
            Err(_) => vec![],
        }
    }
}

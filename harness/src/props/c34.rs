//! C34 F4 reference cycling has period four and touches only `$` markers.
//!
//! Space: every formula of a reference-bearing corpus (construct list + `term` enumeration, upper and lower case)
//! x every cursor pair 0 <= start, end <= len, in an (en,en) and a (de,de) model, through `Model::cycle_reference`.
//! For each triple (formula, start, end), with g = one F4 press (cursor = the one returned by the previous press):
//!  (a) g succeeds and the returned cursor lies inside the new text;
//!  (b) g(x) and x are equal after deleting `$` and upper-casing;
//!  (c) everything outside the reference tokens the selection can touch is byte-identical;
//!  (d) parsed in a fixed context, g(x) and x denote the same cells (same tree after making references absolute);
//!  (e) g^4(x) = x up to letter case;
//!  (f) if the selection certainly touches a reference with a full cell endpoint the four texts x, g(x), g^2(x),
//!      g^3(x) are pairwise different (period exactly four); for a row-only / column-only range g(x) != x.

use crate::fx;
use crate::report::{Disagreement, Run};
use ironcalc_base::expressions::lexer::util::get_tokens_with_locale;
use ironcalc_base::expressions::token::TokenType;
use ironcalc_base::Model;
use serde_json::{json, Value};

const SHEETS: [&str; 6] = ["Sheet1", "Sheet2", "My Sheet", "It's", "a!b", "a'!b"];

fn constructs(lang: &str) -> Vec<String> {
    let sep = if lang == "en" { "," } else { ";" };
    let dec = if lang == "en" { "." } else { "," };
    let f = |en: &str, de: &str| if lang == "en" { en.to_string() } else { de.to_string() };
    let mut v: Vec<String> = [
        "=A1", "=$A$1", "=A$1", "=$A1", "=$b$2", "=A1:B2", "=$A$1:B2", "=A$1:$B2", "=$A1:B$2", "=A:A", "=$A:B",
        "=A:$B", "=$C:$D", "=1:1", "=$1:2", "=1:$2", "=$3:$4", "=Sheet2!A1", "=Sheet2!$A$1:B2", "='My Sheet'!A1",
        "='It''s'!A1:B$2", "='a!b'!A1", "='a''!b'!$A1", "=Sheet2!A:A", "='My Sheet'!1:3", "='My Sheet'!$B:C",
        "= A1 + B2 ", "=A1+ B2", "=A1 +B2", "=  $A$1", "=A1#", "=@A1", "=XFD1048576", "=AA10+A1%", "=-A1^B2",
        "=#REF!+A1", "=NoSheet!A1", "=NoSheet!A1:B2", "=nm+A1", "=A1<>B1", "=A1<=$B1", "=A1&B$1&\"$C$1\"",
        "=(A1+B2)*(C3-$D$4)", "=A1+A1+A1", "=A1:B2:C3", "=A1%%", "=--A1", "=A1^-B2",
        // runs of blanks (longer than the sheet prefix) in front of sheet-qualified and plain references
        "=1+    S!A1", "=1+      S!$A1", "=SUM(    ab!B2:C3)", "=      'My Sheet'!A1+1", "=1+     A1", "=(      Sheet2!A:B)",
        "=1+\tS!A1", "=1+  S!A1  +  S!B2",
    ]
    .iter()
    .map(|s| s.to_string())
    .collect();
    v.push(format!("=A1+1{}5", dec));
    v.push(format!("=A1*{}5+B2", dec));
    v.push(format!("={}(A1{}B2)", f("SUM", "SUMME"), sep));
    v.push(format!("={}(A1:B2{} C3)", f("SUM", "SUMME"), sep));
    v.push(format!("={}(A1>B1{}\"A1\"{}$C$1)", f("IF", "WENN"), sep, sep));
    v.push(format!("=A1:{}(B2{}1{}1)", f("OFFSET", "BEREICH.VERSCHIEBEN"), sep, sep));
    v.push(format!("={{1{}2}}+A1", if lang == "en" { "," } else { ";" }));
    v.push(format!("=LET(x{}A1{}x+B1)", sep, sep));
    v.push(format!("=LAMBDA(a{}a+A1)(B2)", sep));
    v.push(format!("={}+A1", f("TRUE", "WAHR")));
    v.push(format!("={}({}A1{}{}B$2)", f("MAX", "MAX"), "", sep, " "));
    v
}

fn term_formulas(thorough: bool) -> Vec<String> {
    let ts = if thorough {
        let mut t = fx::terms(&["A1", "$B2"], &["+", "<="], 2, false);
        t.extend(fx::terms(&["A1", "$B$2", "C$3:$D4", "Sheet2!A1", "1"], &fx::BINOPS, 1, true));
        t
    } else {
        fx::terms(&["A1", "$B$2", "C$3:$D4", "Sheet2!A1"], &fx::BINOPS, 1, false)
    };
    ts.into_iter().filter(|t| t.contains(|c: char| c.is_ascii_alphabetic())).map(|t| format!("={}", t)).collect()
}

pub fn corpus(lang: &str, thorough: bool) -> Vec<String> {
    let mut v = constructs(lang);
    v.extend(term_formulas(thorough));
    let lower: Vec<String> = v.iter().map(|s| s.to_lowercase()).filter(|s| !v.contains(s)).collect();
    // lower-casing a quoted sheet name or a string changes what it denotes only for sheet lookup, which is
    // case-insensitive for F4 purposes (the prefix is copied verbatim); keep them
    v.extend(lower);
    v.sort();
    v.dedup();
    v
}

fn strip(s: &str) -> String {
    s.chars().filter(|c| *c != '$').collect::<String>().to_uppercase()
}

#[derive(Debug)]
struct Tok {
    start: usize, // position in the full text (incl. '='), span as the lexer reports it (leading whitespace included)
    text_start: usize,
    addr_start: usize, // after the sheet prefix, if any
    end: usize,
    is_range: bool,
    full_cell: bool,
    prefix: &'static str,
}

fn ref_tokens(x: &str, lang: &str) -> Vec<Tok> {
    let chars: Vec<char> = x.chars().collect();
    if chars.first() != Some(&'=') {
        return vec![];
    }
    let body: String = chars[1..].iter().collect();
    let mut out = vec![];
    for m in get_tokens_with_locale(&body, fx::loc(lang), fx::lang(lang)) {
        let is_range = matches!(m.token, TokenType::Range { .. });
        if !is_range && !matches!(m.token, TokenType::Reference { .. }) {
            continue;
        }
        let start = m.start.max(0) as usize + 1;
        let end = m.end.max(0) as usize + 1;
        let mut text_start = start;
        while text_start < end && chars[text_start].is_whitespace() {
            text_start += 1;
        }
        let text: String = chars[text_start..end].iter().collect();
        let prefix = if text.starts_with('\'') {
            "quoted"
        } else if text.contains('!') {
            "plain"
        } else {
            "none"
        };
        let tchars: Vec<char> = text.chars().collect();
        let bang = tchars.iter().rposition(|c| *c == '!');
        let addr_start = text_start + bang.map(|i| i + 1).unwrap_or(0);
        let addr: String = chars[addr_start..end].iter().collect();
        let full_cell = addr.split(':').any(|ep| {
            let e: String = ep.chars().filter(|c| *c != '$').collect();
            e.chars().any(|c| c.is_ascii_alphabetic()) && e.chars().any(|c| c.is_ascii_digit())
        });
        out.push(Tok { start, text_start, addr_start, end, is_range, full_cell, prefix });
    }
    out
}

/// Checks that x1 equals x outside the flexible tokens and equals it up to `$`/case inside them.
fn match_outside(x: &str, x1: &str, flexible: &[(usize, usize)]) -> Result<(), String> {
    let a: Vec<char> = x.chars().collect();
    let b: Vec<char> = x1.chars().collect();
    let mut i = 0usize;
    let mut j = 0usize;
    let mut k = 0usize;
    while i < a.len() {
        if k < flexible.len() && i == flexible[k].0 {
            let (s, e) = flexible[k];
            let want: Vec<char> = a[s..e].iter().filter(|c| **c != '$').flat_map(|c| c.to_uppercase()).collect();
            let mut w = 0usize;
            while w < want.len() {
                if j >= b.len() {
                    return Err(format!("text ends inside the reference starting at {}", s));
                }
                if b[j] == '$' {
                    j += 1;
                    continue;
                }
                let up: Vec<char> = b[j].to_uppercase().collect();
                if up.len() != 1 || up[0] != want[w] {
                    return Err(format!("character {} `{}` of the new text does not belong to the reference `{}`", j, b[j], a[s..e].iter().collect::<String>()));
                }
                j += 1;
                w += 1;
            }
            i = e;
            k += 1;
        } else {
            if j >= b.len() || a[i] != b[j] {
                return Err(format!(
                    "position {} of the original (`{}`) outside any touched reference became `{}`",
                    i,
                    a[i],
                    b.get(j).map(|c| c.to_string()).unwrap_or_else(|| "<end>".into())
                ));
            }
            i += 1;
            j += 1;
        }
    }
    if j != b.len() {
        return Err(format!("new text has {} extra trailing characters", b.len() - j));
    }
    Ok(())
}

/// None = same cells (or x itself outside the quantifier); Some((clause, detail)) otherwise.
fn same_cells(x: &str, x1: &str, lang: &str) -> Option<(&'static str, String)> {
    let mut p = fx::mk_parser(&SHEETS, vec![], fx::loc(lang), fx::lang(lang));
    let cx = fx::ctx("Sheet1", 5, 5);
    let mut n0 = p.parse(x.trim_start_matches('='), &cx);
    if fx::has_parse_error(&n0) {
        return None; // outside the quantifier (counted by the caller through parseable())
    }
    let mut n1 = p.parse(x1.trim_start_matches('='), &cx);
    if fx::has_parse_error(&n1) {
        return Some(("result-does-not-parse", format!("`{}` parses, the cycled `{}` gives {}", x, x1, fx::short(&n1))));
    }
    fx::absolutize(&mut n0, 5, 5);
    fx::absolutize(&mut n1, 5, 5);
    if n0 != n1 {
        Some(("other-cells", format!("`{}` denotes {}\n`{}` denotes {}", x, fx::short(&n0), x1, fx::short(&n1))))
    } else {
        None
    }
}

pub fn parseable(x: &str, lang: &str) -> bool {
    let mut p = fx::mk_parser(&SHEETS, vec![], fx::loc(lang), fx::lang(lang));
    !fx::has_parse_error(&p.parse(x.trim_start_matches('='), &fx::ctx("Sheet1", 5, 5)))
}

fn model(lang: &'static str) -> Model<'static> {
    Model::new_empty("m", lang, "UTC", lang).expect("model")
}

struct Outcome {
    ds: Vec<Disagreement>,
    changed: bool,
    calls: u64,
}

fn check_one(m: &Model, lang: &str, x: &str, start: usize, end: usize) -> Outcome {
    let case = json!({"lang": lang, "formula": x, "start": start, "end": end});
    let mut ds = vec![];
    let mut calls = 0u64;
    let toks = ref_tokens(x, lang);
    let (s0, e0) = (start.min(end), start.max(end));
    let sel = if start == end { "collapsed" } else { "range" };
    let maybe: Vec<&Tok> = toks.iter().filter(|t| !(t.start > e0 || s0 > t.end)).collect();
    let surely: Vec<&Tok> = toks.iter().filter(|t| !(t.text_start > e0 || s0 > t.end)).collect();
    let tokdesc = |ts: &[&Tok]| -> String {
        match ts.first() {
            None => "token=none".to_string(),
            Some(t) => format!(
                "token={} prefix={}",
                if t.is_range { "Range" } else { "Reference" },
                t.prefix
            ),
        }
    };
    let mk = |clause: &str, detail: String| Disagreement {
        sig: format!("cycle {} {} sel={}", clause, tokdesc(&maybe), sel),
        case: case.clone(),
        detail,
    };
    let mut texts: Vec<String> = vec![x.to_string()];
    let (mut cs, mut ce) = (start, end);
    for step in 0..4 {
        let cur = texts[step].clone();
        let r = crate::env::guarded(|| m.cycle_reference(&cur, cs, ce));
        calls += 1;
        let (nx, ns, ne) = match r {
            Err(p) => {
                ds.push(mk(&format!("panic at={}", p.rsplit(" @ ").next().unwrap_or("")), format!("press {}: `{}` [{}..{}] panicked: {}", step + 1, cur, cs, ce, p)));
                return Outcome { ds, changed: false, calls };
            }
            Ok(Err(e)) => {
                ds.push(mk("error", format!("press {}: `{}` [{}..{}] returned Err({})", step + 1, cur, cs, ce, e)));
                return Outcome { ds, changed: false, calls };
            }
            Ok(Ok(t)) => t,
        };
        let nlen = nx.chars().count() as i32;
        if ns < 0 || ne < 0 || ns > nlen || ne > nlen {
            ds.push(mk("cursor-outside", format!("press {}: `{}` [{}..{}] -> `{}` with cursor [{}..{}] outside 0..={}", step + 1, cur, cs, ce, nx, ns, ne, nlen)));
            return Outcome { ds, changed: false, calls };
        }
        if strip(&nx) != strip(&cur) {
            ds.push(mk("not-only-dollar", format!("press {}: `{}` [{}..{}] -> `{}`", step + 1, cur, cs, ce, nx)));
            return Outcome { ds, changed: false, calls };
        }
        if step == 0 {
            let flexible: Vec<(usize, usize)> = maybe.iter().map(|t| (t.addr_start, t.end)).collect();
            if let Err(why) = match_outside(x, &nx, &flexible) {
                ds.push(mk("outside-touched", format!("`{}` [{}..{}] -> `{}`: {}", x, start, end, nx, why)));
                return Outcome { ds, changed: false, calls };
            }
            if let Some((clause, why)) = same_cells(x, &nx, lang) {
                // what follows the first touched reference (the range operator `:` after an absolute reference is
                // a lexer limitation worth telling apart)
                let xc: Vec<char> = x.chars().collect();
                let next = maybe
                    .first()
                    .and_then(|t| xc.get(t.end))
                    .map(|c| if c.is_alphanumeric() { 'a' } else { *c })
                    .map(|c| c.to_string())
                    .unwrap_or_else(|| "end".into());
                ds.push(mk(&format!("{} next={}", clause, next), format!("[{}..{}]: {}", start, end, why)));
                return Outcome { ds, changed: false, calls };
            }
        }
        texts.push(nx);
        cs = ns as usize;
        ce = ne as usize;
    }
    let up: Vec<String> = texts.iter().map(|t| t.to_uppercase()).collect();
    if up[4] != up[0] {
        ds.push(mk("period", format!("`{}` [{}..{}]: four presses give {:?}", x, start, end, &texts[1..])));
    } else if !surely.is_empty() {
        if surely.iter().any(|t| t.full_cell) {
            let mut distinct = up[..4].to_vec();
            distinct.sort();
            distinct.dedup();
            if distinct.len() != 4 {
                ds.push(mk("period-shorter", format!("`{}` [{}..{}]: the four states are not pairwise different: {:?}", x, start, end, &texts[..4])));
            }
        } else if up[1] == up[0] {
            ds.push(mk("no-change", format!("`{}` [{}..{}]: the selection touches a reference but nothing changed", x, start, end)));
        }
    } else if maybe.is_empty() && texts[1] != texts[0] {
        ds.push(mk("untouched-changed", format!("`{}` [{}..{}] touches no reference but became `{}`", x, start, end, texts[1])));
    }
    Outcome { changed: texts[1] != texts[0], ds, calls }
}

pub fn run(run: &mut Run) {
    let thorough = run.tier.thorough();
    let mut units: Vec<(&'static str, String)> = vec![];
    let mut skipped = 0u64;
    for lang in ["en", "de"] {
        for f in corpus(lang, thorough) {
            if parseable(&f, lang) {
                units.push((lang, f));
            } else {
                skipped += 1;
            }
        }
    }
    let chunk = 8;
    let n_units = units.len().div_ceil(chunk);
    let res = crate::env::par_units(n_units, |u| {
        let mut ds = vec![];
        let (mut evals, mut calls, mut changed) = (0u64, 0u64, 0u64);
        let mut outcomes: std::collections::BTreeSet<u128> = Default::default();
        let mut models: std::collections::BTreeMap<&str, Model> = Default::default();
        for (lang, f) in units.iter().skip(u * chunk).take(chunk) {
            let m = models.entry(lang).or_insert_with(|| model(lang));
            let len = f.chars().count();
            for s in 0..=len {
                for e in 0..=len {
                    let o = check_one(m, lang, f, s, e);
                    evals += 1;
                    calls += o.calls;
                    if o.changed {
                        changed += 1;
                    }
                    ds.extend(o.ds);
                }
            }
            if let Ok((t, _, _)) = m.cycle_reference(f, len, len) {
                outcomes.insert(crate::env::digest(&t));
            }
        }
        (ds, evals, calls, changed, outcomes)
    });
    let mut outcomes: std::collections::BTreeSet<u128> = Default::default();
    for r in res {
        match r {
            Ok((ds, e, c, ch, o)) => {
                run.add_all(ds);
                run.evaluations += e;
                run.transitions += c;
                run.nontrivial += ch;
                outcomes.extend(o);
            }
            Err(e) => run.machinery_errors.push(format!("unit panicked: {}", e)),
        }
    }
    run.states = units.len() as u64;
    run.traces = run.evaluations;
    run.distinct_outcomes = outcomes.len() as u64;
    run.rule = "(formula, start, end) triples whose first F4 press changed the text".into();
    for i in [0, units.len() / 2, units.len() - 1] {
        run.sample(json!({"lang": units[i].0, "formula": units[i].1, "cursors": "all 0<=start,end<=len"}));
    }
    run.bound = json!({
        "languages": ["en/en", "de/de"],
        "formulas": units.len(),
        "formulas_not_accepted_by_parser_skipped": skipped,
        "construct_list": constructs("en").len(),
        "terms": if thorough { "depth<=2 over {A1,$B2} x {+,<=}; depth<=1 over {A1,$B$2,C$3:$D4,Sheet2!A1,1} x 12 operators with unary - and %" } else { "depth<=1 over {A1,$B$2,C$3:$D4,Sheet2!A1} x 12 operators" },
        "case_variants": "each formula also lower-cased",
        "cursor_pairs": "all (start,end) in [0,len]^2, start>end included",
        "presses": 4,
    });
    run.exhaustive = true;
    run.assume("reference token spans are taken from the engine's own tokenizer (get_tokens_with_locale); a selection lying only in the white space before a reference is treated as 'may touch' (either behaviour accepted)");
    run.assume("successive presses use the cursor returned by the previous press, as a user pressing F4 repeatedly does");
    run.assume("only formulas the parser accepts are in the quantifier; `'Sheet' !A1` (space before the bang) is not in the corpus");
}

pub fn replay(case: &Value) -> Vec<Disagreement> {
    let lang: &'static str = if case["lang"].as_str() == Some("de") { "de" } else { "en" };
    let m = model(lang);
    check_one(
        &m,
        lang,
        case["formula"].as_str().unwrap_or(""),
        case["start"].as_u64().unwrap_or(0) as usize,
        case["end"].as_u64().unwrap_or(0) as usize,
    )
    .ds
}

//! C17 Sheet rename, move and duplicate preserve values.
//!
//! A three-sheet workbook (`Alpha`, `My Sheet`, `Gamma`; `Ghost` does not exist) whose sheets all hold the
//! same battery of formulas over every sheet s (bare and quoted cell references, bare and quoted ranges,
//! two-sheet arithmetic, a multi-argument call, global cell and range names, a sheet-local name, same-sheet
//! references). Every operation of the alphabet {rename each sheet to each of 8 names, move each sheet to
//! each index, duplicate each sheet} is applied after every prefix of the same alphabet (length <= 1 quick,
//! <= 2 thorough), through `Model` and through `UserModel`, under several language / locale settings.
//!
//! Oracle after the last operation: every formula value is what it was; after a rename every formula text is
//! the text before with the printed old name replaced by the printed new name at reference positions (so
//! references to other sheets, existing or not, print exactly as before); after move / duplicate every text
//! is unchanged; the cells of a duplicate have the values of its source.

use crate::report::{Disagreement, Run};
use ironcalc_base::cell::CellValue;
use ironcalc_base::{Model, UserModel};
use serde::{Deserialize, Serialize};
use serde_json::{json, Value};
use std::collections::{BTreeMap, BTreeSet, HashSet};
use std::sync::OnceLock;

pub const SHEETS: [&str; 3] = ["Alpha", "My Sheet", "Gamma"];
pub const GHOST: &str = "Ghost";
pub const NEW_NAMES: [&str; 7] = ["New", "A B", "O'Brien", "A1", "TRUE", "R1C1", "Ghost"];
pub const LANGS: [&str; 5] = ["en", "es", "fr", "de", "it"];

#[derive(Clone, PartialEq, Debug, Serialize, Deserialize)]
pub enum Op {
    /// rename the sheet at index to the name
    Rename(u32, String),
    /// rename the sheet at index to its own name in the other letter case
    RenameCase(u32),
    Move(u32, u32),
    Duplicate(u32),
}

impl Op {
    fn kind(&self) -> &'static str {
        match self {
            Op::Rename(..) => "rename",
            Op::RenameCase(..) => "rename-case",
            Op::Move(..) => "move",
            Op::Duplicate(..) => "duplicate",
        }
    }
}

pub fn alphabet() -> Vec<Op> {
    let mut v = vec![];
    for i in 0..3 {
        for n in NEW_NAMES {
            v.push(Op::Rename(i, n.to_string()));
        }
        v.push(Op::RenameCase(i));
    }
    for i in 0..3 {
        for j in 0..3 {
            v.push(Op::Move(i, j));
        }
    }
    for i in 0..3 {
        v.push(Op::Duplicate(i));
    }
    v
}

fn quoted(name: &str) -> String {
    format!("'{}'", name.replace('\'', "''"))
}

/// A formula of the battery: where it is, what kind it is, which sheets (0..=2, 3 = Ghost) it names.
#[derive(Clone, Debug)]
pub struct Formula {
    host: usize,
    row: i32,
    class: &'static str,
    slots: Vec<usize>,
    input: String,
}

const COL: i32 = 3;

fn sheet_name(t: usize) -> &'static str {
    if t < 3 {
        SHEETS[t]
    } else {
        GHOST
    }
}

fn bare(t: usize) -> String {
    // `My Sheet` cannot be typed without quotes
    if t == 1 {
        quoted(sheet_name(t))
    } else {
        sheet_name(t).to_string()
    }
}

pub fn battery() -> Vec<Formula> {
    let mut v = vec![];
    for host in 0..3 {
        let mut row = 1;
        let mut push = |class: &'static str, slots: Vec<usize>, input: String| {
            v.push(Formula { host, row, class, slots, input });
            row += 1;
        };
        for t in 0..4 {
            push("cell-ref", vec![t], format!("={}!A1", bare(t)));
            push("quoted-cell-ref", vec![t], format!("={}!A1", quoted(sheet_name(t))));
            push("range", vec![t], format!("=SUM({}!A1:A2)", bare(t)));
            push("quoted-abs-range", vec![t], format!("=SUM({}!$A$1:$A$2)*2", quoted(sheet_name(t))));
        }
        for t in 0..4 {
            for u in 0..4 {
                if t != u {
                    push("two-sheet-arithmetic", vec![t, u], format!("={}!A1+{}!A2*2", bare(t), bare(u)));
                }
            }
        }
        // a reference to each sheet in the right and in the left operand of every binary operator family and under a sign
        for t in 0..4 {
            push("operand-positions", vec![t], format!("=2^{}!A1+{}!A2^2-(3/{}!A1)&\"x\"", bare(t), bare(t), bare(t)));
            push("operand-positions", vec![t], format!("=IF(1<{}!A1,-{}!A2,{}!A1%)", bare(t), bare(t), bare(t)));
        }
        push("multi-arg-call", vec![0, 2], format!("=SUM({}!A1,{}!A2,0.5)", bare(0), bare(2)));
        push("multi-arg-call", vec![1, 3], format!("=SUM({}!A1,{}!A2,0.5)", bare(1), bare(3)));
        for t in 0..3 {
            push("global-cell-name", vec![t], format!("=gn{}+1", t));
            push("global-range-name", vec![t], format!("=SUM(gr{})", t));
        }
        push("local-name", vec![(host + 1) % 3], "=loc*3".to_string());
        push("same-sheet", vec![], "=A1+A2".to_string());
        push("same-sheet", vec![], "=SUM(A1:A2)".to_string());
    }
    v
}

fn seed_bytes() -> &'static [u8] {
    static B: OnceLock<Vec<u8>> = OnceLock::new();
    B.get_or_init(|| {
        let mut m = Model::new_empty("c17", "en", "UTC", "en").expect("new_empty");
        m.rename_sheet_by_index(0, SHEETS[0]).expect("rename");
        m.add_sheet(SHEETS[1]).expect("add");
        m.add_sheet(SHEETS[2]).expect("add");
        for s in 0..3u32 {
            m.set_user_input(s, 1, 1, format!("{}", 10 * (s + 1))).expect("input");
            m.set_user_input(s, 2, 1, format!("{}", s + 1)).expect("input");
        }
        for t in 0..3 {
            m.new_defined_name(&format!("gn{}", t), None, &format!("{}!$A$1", quoted(SHEETS[t]))).expect("name");
            m.new_defined_name(&format!("gr{}", t), None, &format!("{}!$A$1:$A$2", quoted(SHEETS[t]))).expect("name");
            m.new_defined_name("loc", Some(t as u32), &format!("{}!$A$1", quoted(SHEETS[(t + 1) % 3]))).expect("name");
        }
        for f in battery() {
            m.set_user_input(f.host as u32, f.row, COL, f.input.clone()).expect("formula input");
        }
        m.evaluate();
        m.to_bytes()
    })
}

/// How the engine prints a sheet name in front of `!` (measured on a fresh workbook that has the sheet).
pub fn printed(name: &str) -> String {
    static CACHE: OnceLock<std::sync::Mutex<BTreeMap<String, String>>> = OnceLock::new();
    let cache = CACHE.get_or_init(|| std::sync::Mutex::new(BTreeMap::new()));
    if let Some(p) = cache.lock().unwrap().get(name) {
        return p.clone();
    }
    let mut m = Model::new_empty("p", "en", "UTC", "en").expect("new_empty");
    let _ = m.rename_sheet_by_index(0, "ZzHost");
    let p = match m.add_sheet(name) {
        Ok(()) => {
            let _ = m.set_user_input(0, 1, 1, format!("={}!B7", quoted(name)));
            let t = m.get_cell_formula(0, 1, 1).ok().flatten().unwrap_or_default();
            t.trim_start_matches('=').trim_end_matches("!B7").to_string()
        }
        Err(_) => quoted(name),
    };
    cache.lock().unwrap().insert(name.to_string(), p.clone());
    p
}

/// Replaces `old!` by `new!` where `old` stands as a whole sheet qualifier.
pub fn replace_qualifier(text: &str, old: &str, new: &str) -> String {
    let pat = format!("{}!", old);
    let mut out = String::new();
    let mut rest = text;
    let mut prev: Option<char> = None;
    while let Some(k) = rest.find(&pat) {
        let before = rest[..k].chars().last().or(prev);
        let boundary = match before {
            None => true,
            Some(c) => !(c.is_alphanumeric() || c == '_' || c == '.' || c == '\''),
        };
        out.push_str(&rest[..k]);
        if boundary {
            out.push_str(new);
            out.push('!');
        } else {
            out.push_str(&pat);
        }
        prev = Some('!');
        rest = &rest[k + pat.len()..];
    }
    out.push_str(rest);
    out
}

// ---------------------------------------------------------------------------------------------------------

pub enum Subject {
    M(Model<'static>),
    U(UserModel<'static>),
}

impl Subject {
    fn model(&self) -> &Model<'_> {
        match self {
            Subject::M(m) => m,
            Subject::U(u) => u.get_model(),
        }
    }
    fn apply(&mut self, op: &Op) -> Result<(), String> {
        let name_of = |m: &Model, i: u32| -> Result<String, String> { Ok(m.workbook.worksheet(i)?.get_name()) };
        let r = match (self, op) {
            (Subject::M(m), Op::Rename(i, n)) => m.rename_sheet_by_index(*i, n),
            (Subject::M(m), Op::RenameCase(i)) => {
                let n = other_case(&name_of(m, *i)?);
                m.rename_sheet_by_index(*i, &n)
            }
            (Subject::M(m), Op::Move(i, j)) => m.move_sheet(*i, *j),
            (Subject::M(m), Op::Duplicate(i)) => m.duplicate_sheet(*i).map(|_| ()),
            (Subject::U(u), Op::Rename(i, n)) => u.rename_sheet(*i, n),
            (Subject::U(u), Op::RenameCase(i)) => {
                let n = other_case(&name_of(u.get_model(), *i)?);
                u.rename_sheet(*i, &n)
            }
            (Subject::U(u), Op::Move(i, j)) => u.move_sheet(*i, *j),
            (Subject::U(u), Op::Duplicate(i)) => u.duplicate_sheet(*i),
        };
        r
    }
    fn evaluate(&mut self) {
        match self {
            Subject::M(m) => m.evaluate(),
            Subject::U(u) => u.evaluate(),
        }
    }
}

fn other_case(n: &str) -> String {
    let up = n.to_uppercase();
    if up != n {
        up
    } else {
        n.to_lowercase()
    }
}

#[derive(Clone, Debug, PartialEq)]
pub struct CellObs {
    text: String,
    value: String,
}

pub struct Snapshot {
    /// sheet names in order, sheet ids in order
    names: Vec<String>,
    ids: Vec<u32>,
    /// (sheet id, row) -> observation of column C
    cells: BTreeMap<(u32, i32), CellObs>,
    /// (name, scope sheet id) -> formula text
    defined: BTreeMap<(String, Option<u32>), String>,
}

fn value_text(v: &Result<CellValue, String>) -> String {
    match v {
        Ok(CellValue::None) => "<empty>".into(),
        Ok(CellValue::String(s)) => format!("\"{}\"", s),
        Ok(CellValue::Number(n)) => format!("{:?}", n),
        Ok(CellValue::Boolean(b)) => format!("{}", b),
        Err(e) => format!("<error {}>", e),
    }
}

fn snapshot(m: &Model, rows: i32) -> Snapshot {
    let mut names = vec![];
    let mut ids = vec![];
    let mut cells = BTreeMap::new();
    for (i, ws) in m.workbook.worksheets.iter().enumerate() {
        names.push(ws.get_name());
        ids.push(ws.sheet_id);
        for row in 1..=rows {
            let text = m.get_cell_formula(i as u32, row, COL).ok().flatten().unwrap_or_default();
            if text.is_empty() {
                continue;
            }
            let value = value_text(&m.get_cell_value_by_index(i as u32, row, COL));
            cells.insert((ws.sheet_id, row), CellObs { text, value });
        }
    }
    let mut defined = BTreeMap::new();
    for (name, scope, formula) in m.get_defined_name_list() {
        let sid = scope.and_then(|s| m.workbook.worksheets.get(s as usize).map(|w| w.sheet_id));
        defined.insert((name, sid), formula);
    }
    Snapshot { names, ids, cells, defined }
}

#[derive(Default)]
pub struct CaseOut {
    found: Vec<(String, String)>,
    compared: u64,
    unspecified: u64,
    cut: bool,
    outcome: u128,
}

fn cfg_class(lang: &str, locale: &str) -> String {
    // the language is part of the case, not of the defect class (no disagreement met so far depends on it)
    let _ = lang;
    format!("locale={}", if locale == "en" { "en" } else { "non-en" })
}

/// Runs prefix + op on a fresh copy and judges the last operation.
pub fn judge(user: bool, lang: &str, locale: &str, word: &[Op]) -> CaseOut {
    let mut out = CaseOut::default();
    let bat = battery();
    let rows = bat.iter().map(|f| f.row).max().unwrap_or(1);
    let lang_s: &'static str = LANGS.iter().find(|l| **l == lang).copied().unwrap_or("en");
    let mut subj = if user {
        let mut u = UserModel::from_bytes(seed_bytes(), "en").expect("from_bytes");
        if locale != "en" {
            u.set_locale(locale).expect("locale");
        }
        if lang_s != "en" {
            u.set_language(lang_s).expect("language");
        }
        Subject::U(u)
    } else {
        let mut m = Model::from_bytes(seed_bytes(), "en").expect("from_bytes");
        if locale != "en" {
            m.set_locale(locale).expect("locale");
        }
        if lang_s != "en" {
            m.set_language(lang_s).expect("language");
        }
        Subject::M(m)
    };
    subj.evaluate();
    let seed_ids: Vec<u32> = subj.model().workbook.worksheets.iter().map(|w| w.sheet_id).collect();
    let (prefix, last) = word.split_at(word.len() - 1);
    let op = &last[0];
    for p in prefix {
        match crate::env::guarded(|| subj.apply(p)) {
            Ok(Ok(())) => {}
            _ => {
                out.cut = true;
                return out;
            }
        }
    }
    subj.evaluate();
    let before = snapshot(subj.model(), rows);
    let level = if user { "user" } else { "model" };
    let head = format!("{} op={} {}", level, op.kind(), cfg_class(lang, locale));
    // what the operation means in the state before
    let idx = match op {
        Op::Rename(i, _) | Op::RenameCase(i) | Op::Move(i, _) | Op::Duplicate(i) => *i as usize,
    };
    if idx >= before.names.len() {
        out.cut = true;
        return out;
    }
    let old_name = before.names[idx].clone();
    let new_name = match op {
        Op::Rename(_, n) => Some(n.clone()),
        Op::RenameCase(_) => Some(other_case(&old_name)),
        _ => None,
    };
    let clash = new_name.as_ref().map(|n| {
        before.names.iter().enumerate().any(|(k, x)| k != idx && x.to_uppercase() == n.to_uppercase())
    });
    let r = crate::env::guarded(|| subj.apply(op));
    match r {
        Err(p) => {
            out.found.push((
                format!("{} panic at={}", head, p.split(" @ ").last().unwrap_or("")),
                format!("{:?} panicked: {}", op, p),
            ));
            return out;
        }
        Ok(Err(e)) => {
            if clash == Some(false) || matches!(op, Op::Duplicate(_)) || matches!(op, Op::Move(i, j) if (*i as usize) < before.names.len() && (*j as usize) < before.names.len()) {
                out.found.push((format!("{} refused", head), format!("{:?} was refused: {}", op, e)));
            } else {
                out.cut = true;
            }
            return out;
        }
        Ok(Ok(())) => {}
    }
    if clash == Some(true) {
        // accepting a duplicate sheet name is C27's business; nothing to compare here
        out.cut = true;
        return out;
    }
    subj.evaluate();
    let after = snapshot(subj.model(), rows);
    out.outcome = crate::env::digest(&format!("{:?}{:?}", after.names, after.cells.values().map(|c| &c.value).collect::<Vec<_>>()));
    // a rename to a name that missing-sheet references already use makes them resolve: not specified
    let revives = match &new_name {
        Some(n) => {
            n.to_uppercase() == GHOST.to_uppercase() && !before.names.iter().any(|x| x.to_uppercase() == GHOST.to_uppercase())
        }
        None => false,
    };
    let (p_old, p_new) = match &new_name {
        Some(n) => (printed(&old_name), printed(n)),
        None => (String::new(), String::new()),
    };
    let ghost_q = format!("{}!", printed(GHOST));
    let renamed_id = before.ids[idx];
    // classification of a battery formula against this operation
    let describe = |sid: u32, row: i32| -> String {
        let host = seed_ids.iter().position(|x| *x == sid);
        let f = host.and_then(|h| bat.iter().find(|f| f.host == h && f.row == row));
        match f {
            None => match bat.iter().find(|f| f.host == 0 && f.row == row) {
                Some(f) => format!("formula={} refs=on-a-copied-sheet", f.class),
                None => "formula=unknown".to_string(),
            },
            Some(f) => {
                let mut rel = BTreeSet::new();
                for t in &f.slots {
                    let r = if *t < 3 {
                        if new_name.is_some() && seed_ids[*t] == renamed_id {
                            "renamed"
                        } else {
                            "other"
                        }
                    } else if before.names.iter().any(|x| x.to_uppercase() == GHOST.to_uppercase()) {
                        "formerly-missing"
                    } else {
                        "missing"
                    };
                    rel.insert(r);
                }
                format!("formula={} refs={}", f.class, rel.into_iter().collect::<Vec<_>>().join("+"))
            }
        }
    };
    for ((sid, row), b) in &before.cells {
        let a = match after.cells.get(&(*sid, *row)) {
            Some(a) => a,
            None => {
                out.found.push((
                    format!("{} cell-lost {}", head, describe(*sid, *row)),
                    format!("{:?}: formula `{}` of sheet id {} row {} is gone", op, b.text, sid, row),
                ));
                continue;
            }
        };
        // text
        let exp_text = if new_name.is_some() { replace_qualifier(&b.text, &p_old, &p_new) } else { b.text.clone() };
        out.compared += 1;
        if a.text != exp_text {
            out.found.push((
                format!("{} field=text {}", head, describe(*sid, *row)),
                format!("{:?} (sheet `{}`): formula `{}` became `{}`, expected `{}`", op, old_name, b.text, a.text, exp_text),
            ));
        }
        // value
        if revives && b.text.contains(&ghost_q) {
            out.unspecified += 1;
        } else {
            out.compared += 1;
            if a.value != b.value {
                out.found.push((
                    format!("{} field=value {}", head, describe(*sid, *row)),
                    format!(
                        "{:?} (sheet `{}`): `{}` had value {} and now `{}` has value {}",
                        op, old_name, b.text, b.value, a.text, a.value
                    ),
                ));
            }
        }
    }
    // defined names: same rule for their formula text
    for (k, bf) in &before.defined {
        match after.defined.get(k) {
            None => out.found.push((
                format!("{} defined-name-lost", head),
                format!("{:?}: defined name {:?} is gone", op, k),
            )),
            Some(af) => {
                let exp = if new_name.is_some() { replace_qualifier(bf, &p_old, &p_new) } else { bf.clone() };
                out.compared += 1;
                if *af != exp {
                    out.found.push((
                        format!("{} field=defined-name-formula", head),
                        format!("{:?}: name {:?} `{}` became `{}`, expected `{}`", op, k, bf, af, exp),
                    ));
                }
            }
        }
    }
    // a duplicate computes what its source computes
    if let Op::Duplicate(_) = op {
        let src_id = before.ids[idx];
        let new_ids: Vec<u32> = after.ids.iter().filter(|i| !before.ids.contains(i)).copied().collect();
        if new_ids.len() != 1 || after.ids.get(idx + 1) != new_ids.first() {
            out.found.push((
                format!("{} copy-not-after-source", head),
                format!("{:?}: sheets before {:?}, after {:?}", op, before.names, after.names),
            ));
        } else {
            let nid = new_ids[0];
            for ((sid, row), src) in after.cells.iter().filter(|((s, _), _)| *s == src_id) {
                let _ = sid;
                out.compared += 1;
                match after.cells.get(&(nid, *row)) {
                    None => out.found.push((
                        format!("{} copy-misses-cell {}", head, describe(src_id, *row)),
                        format!("{:?}: the copy has no formula in row {} (source `{}`)", op, row, src.text),
                    )),
                    Some(c) => {
                        if c.value != src.value {
                            out.found.push((
                                format!("{} copy-value-differs {}", head, describe(src_id, *row)),
                                format!(
                                    "{:?}: source `{}` = {}, copy `{}` = {}",
                                    op, src.text, src.value, c.text, c.value
                                ),
                            ));
                        }
                    }
                }
            }
        }
    }
    // one disagreement per signature and case
    let mut seen = HashSet::new();
    out.found.retain(|(s, _)| seen.insert(s.clone()));
    out
}

fn case_json(user: bool, lang: &str, locale: &str, word: &[Op]) -> Value {
    json!({"through": if user { "UserModel" } else { "Model" }, "language": lang, "locale": locale, "ops": word})
}

pub fn configs(thorough: bool) -> Vec<(&'static str, &'static str)> {
    if thorough {
        let mut v = vec![];
        for l in LANGS {
            for loc in ["en", "de"] {
                v.push((l, loc));
            }
        }
        v
    } else {
        vec![("en", "en"), ("de", "en"), ("en", "de"), ("de", "de")]
    }
}

pub fn run(run: &mut Run) {
    let thorough = run.tier.thorough();
    let alpha = alphabet();
    let a = alpha.len();
    let cfgs = configs(thorough);
    // units: (config, level, prefix): empty, every single operation, and (thorough, de/de) every pair
    let mut units: Vec<(usize, bool, Vec<usize>)> = vec![];
    for (ci, cfg) in cfgs.iter().enumerate() {
        for user in [false, true] {
            units.push((ci, user, vec![]));
            for p in 0..a {
                units.push((ci, user, vec![p]));
            }
            if thorough && *cfg == ("de", "de") {
                for p in 0..a {
                    for q in 0..a {
                        units.push((ci, user, vec![p, q]));
                    }
                }
            }
        }
    }
    let res = crate::env::par_units(units.len(), |u| {
        let (ci, user, prefix) = &units[u];
        let (lang, locale) = cfgs[*ci];
        let mut found: BTreeMap<String, (u64, Value, String)> = BTreeMap::new();
        let (mut cases, mut cut, mut compared, mut unspec, mut steps) = (0u64, 0u64, 0u64, 0u64, 0u64);
        let mut outcomes = HashSet::new();
        for op in &alpha {
            let mut word: Vec<Op> = prefix.iter().map(|i| alpha[*i].clone()).collect();
            word.push(op.clone());
            let o = judge(*user, lang, locale, &word);
            if o.cut {
                cut += 1;
                continue;
            }
            cases += 1;
            steps += word.len() as u64;
            compared += o.compared;
            unspec += o.unspecified;
            outcomes.insert(o.outcome);
            for (sig, detail) in o.found {
                match found.get_mut(&sig) {
                    Some(e) => e.0 += 1,
                    None => {
                        found.insert(sig, (1, case_json(*user, lang, locale, &word), detail));
                    }
                }
            }
        }
        (found, cases, cut, compared, unspec, steps, outcomes)
    });
    let mut outcomes = HashSet::new();
    let (mut cut, mut compared, mut unspec) = (0u64, 0u64, 0u64);
    for r in res {
        match r {
            Ok((found, cases, c, cmp, un, steps, oc)) => {
                run.evaluations += cases;
                run.transitions += steps;
                cut += c;
                compared += cmp;
                unspec += un;
                outcomes.extend(oc);
                for (sig, (n, case, detail)) in found {
                    run.add(Disagreement { sig: sig.clone(), case, detail });
                    if let Some(e) = run.clusters.get_mut(&sig) {
                        e.0 += n - 1;
                    }
                }
            }
            Err(e) => run.machinery_errors.push(format!("unit panicked: {}", e)),
        }
    }
    run.traces = run.evaluations;
    run.states = outcomes.len() as u64;
    run.distinct_outcomes = outcomes.len() as u64;
    run.nontrivial = run.evaluations;
    run.bound = json!({
        "sheets": SHEETS, "missing_sheet": GHOST,
        "formulas_per_sheet": battery().len() / 3,
        "operations": a,
        "rename_targets": NEW_NAMES, "plus": "own name in the other letter case",
        "prefix_length": if thorough { "<=1 for every configuration, <=2 for de/de" } else { "<=1" },
        "through": ["Model", "UserModel"],
        "language_locale": cfgs.iter().map(|c| format!("{}/{}", c.0, c.1)).collect::<Vec<_>>(),
        "histories_cut_at_refused_operation": cut,
        "comparisons": compared,
        "unspecified_not_compared": unspec,
    });
    run.rule = "every operation of the alphabet after every prefix of the stated length, on a fresh copy of the workbook; every formula's text and value and every defined name's formula is compared before/after the last operation (rename: text with the printed old name replaced by the printed new one; move/duplicate: unchanged; duplicate: copy values equal source values). Every case is non-trivial (the battery references every sheet)".into();
    run.sample(case_json(false, "en", "en", &[alpha[0].clone()]));
    run.sample(case_json(true, "de", "de", &[alpha[a / 2].clone(), alpha[6].clone()]));
    run.sample(case_json(false, "en", "en", &[alpha[a - 1].clone(), alpha[3].clone()]));
    run.exhaustive = true;
    run.assume("values of formulas that name the missing sheet `Ghost` are not compared when a sheet is renamed to `Ghost` (the statement keeps their text, and the text now resolves)");
    run.assume("how a sheet name prints in front of `!` is measured on a fresh workbook that has a sheet of that name");
    run.assume("operations the engine refuses because the new name already exists end the history (not judged here)");
}

pub fn replay(case: &Value) -> Vec<Disagreement> {
    let user = case["through"] == "UserModel";
    let lang = case["language"].as_str().unwrap_or("en").to_string();
    let locale = case["locale"].as_str().unwrap_or("en").to_string();
    let word: Vec<Op> = match serde_json::from_value(case["ops"].clone()) {
        Ok(w) => w,
        Err(_) => return vec![],
    };
    if word.is_empty() {
        return vec![];
    }
    judge(user, &lang, &locale, &word)
        .found
        .into_iter()
        .map(|(sig, detail)| Disagreement { sig, case: case.clone(), detail })
        .collect()
}

//! xlsx helpers: export a model to bytes, import bytes, unpack / repack zip members.

use ironcalc::export::save_xlsx_to_writer;
use ironcalc::import::load_from_xlsx_bytes;
use ironcalc_base::types::{Cell, Workbook};
use ironcalc_base::Model;
use std::io::{Cursor, Read, Write};

pub fn export_bytes(model: &Model) -> Result<Vec<u8>, String> {
    let c = Cursor::new(Vec::new());
    let w = save_xlsx_to_writer(model, c).map_err(|e| format!("{:?}", e))?;
    Ok(w.into_inner())
}

pub fn import_workbook(bytes: &[u8]) -> Result<Workbook, String> {
    load_from_xlsx_bytes(bytes, "imported", "en", "UTC").map_err(|e| format!("{:?}", e))
}

pub fn import_model(bytes: &[u8], language: &'static str) -> Result<Model<'static>, String> {
    let wb = import_workbook(bytes)?;
    Model::from_workbook(wb, language)
}

/// Members of a zip archive in order (name, bytes). Directories are kept with empty content and a trailing '/'.
pub fn unpack(bytes: &[u8]) -> Result<Vec<(String, Vec<u8>)>, String> {
    let mut z = zip::ZipArchive::new(Cursor::new(bytes)).map_err(|e| e.to_string())?;
    let mut out = vec![];
    for i in 0..z.len() {
        let mut f = z.by_index(i).map_err(|e| e.to_string())?;
        let mut b = vec![];
        f.read_to_end(&mut b).map_err(|e| e.to_string())?;
        out.push((f.name().to_string(), b));
    }
    Ok(out)
}

pub fn pack(members: &[(String, Vec<u8>)]) -> Vec<u8> {
    let mut z = zip::ZipWriter::new(Cursor::new(Vec::new()));
    let opt = zip::write::FileOptions::default().compression_method(zip::CompressionMethod::Stored);
    for (n, b) in members {
        if n.ends_with('/') {
            let _ = z.add_directory(n.trim_end_matches('/'), opt);
        } else {
            let _ = z.start_file(n.as_str(), opt);
            let _ = z.write_all(b);
        }
    }
    z.finish().map(|c| c.into_inner()).unwrap_or_default()
}

/// Builds a one-cell package whose A1 is `<c r="A1" t="e"><v>NAME</v></c>` and returns the Debug text of the
/// imported cell's error kind.
pub fn import_error_cell(name: &str) -> Result<String, String> {
    let mut m = Model::new_empty("m", "en", "UTC", "en")?;
    m.set_user_input(0, 1, 1, "1".to_string())?;
    m.evaluate();
    let bytes = export_bytes(&m)?;
    let mut members = unpack(&bytes)?;
    let mut done = false;
    for (n, b) in members.iter_mut() {
        if n == "xl/worksheets/sheet1.xml" {
            let s = String::from_utf8_lossy(b).to_string();
            let start = s.find("<c r=\"A1\"").ok_or("no A1 cell in exported sheet")?;
            let end = s[start..].find("</c>").ok_or("no </c>")? + start + 4;
            let esc = name.replace('&', "&amp;").replace('<', "&lt;");
            let s2 = format!(
                "{}<c r=\"A1\" t=\"e\"><v>{}</v></c>{}",
                &s[..start],
                esc,
                &s[end..]
            );
            *b = s2.into_bytes();
            done = true;
        }
    }
    if !done {
        return Err("sheet1.xml not found".into());
    }
    let wb = import_workbook(&pack(&members))?;
    match wb.worksheets[0].sheet_data.get(&1).and_then(|r| r.get(&1)) {
        Some(Cell::ErrorCell { ei, .. }) => Ok(format!("{:?}", ei)),
        other => Ok(format!("{:?}", other)),
    }
}

//! Formula helpers shared by C09 / C10 / C16 / C22 / C34: parsers, node kinds, tree walks, the `term` enumerator.

use ironcalc_base::expressions::lexer::LexerMode;
use ironcalc_base::expressions::parser::{DefinedNameS, Node, Parser};
use ironcalc_base::expressions::token::OpUnary;
use ironcalc_base::expressions::types::CellReferenceRC;
use ironcalc_base::language::{get_language, Language};
use ironcalc_base::locale::{get_locale, Locale};
use std::collections::HashMap;

pub const LANGS: [&str; 5] = ["en", "es", "fr", "de", "it"];
pub const LOCALES: [&str; 6] = ["en", "en-GB", "es", "fr", "de", "it"];

pub fn lang(id: &str) -> &'static Language {
    get_language(id).expect("language")
}
pub fn loc(id: &str) -> &'static Locale {
    get_locale(id).expect("locale")
}

pub fn ctx(sheet: &str, row: i32, column: i32) -> CellReferenceRC {
    CellReferenceRC {
        sheet: sheet.to_string(),
        row,
        column,
    }
}

pub fn mk_parser<'a>(
    sheets: &[&str],
    names: Vec<DefinedNameS>,
    locale: &'a Locale,
    language: &'a Language,
) -> Parser<'a> {
    Parser::new(
        sheets.iter().map(|s| s.to_string()).collect(),
        names,
        HashMap::new(),
        locale,
        language,
    )
}

pub fn set_rc(p: &mut Parser, rc: bool) {
    p.set_lexer_mode(if rc { LexerMode::R1C1 } else { LexerMode::A1 });
}

/// Short, stable name of a node kind (operators carry their symbol).
pub fn kind(n: &Node) -> String {
    use Node::*;
    match n {
        BooleanKind(_) => "Boolean".into(),
        NumberKind(_) => "Number".into(),
        StringKind(_) => "String".into(),
        ReferenceKind { .. } => "Reference".into(),
        RangeKind { .. } => "Range".into(),
        WrongReferenceKind { .. } => "WrongReference".into(),
        WrongRangeKind { .. } => "WrongRange".into(),
        OpRangeKind { .. } => "OpRange(:)".into(),
        OpConcatenateKind { .. } => "Concat(&)".into(),
        OpSumKind { kind, .. } => format!("Sum({})", kind),
        OpProductKind { kind, .. } => format!("Product({})", kind),
        OpPowerKind { .. } => "Power(^)".into(),
        FunctionKind { .. } => "Function".into(),
        LambdaDefKind { .. } => "LambdaDef".into(),
        LambdaCallKind { .. } => "LambdaCall".into(),
        NamedFunctionKind { .. } => "NamedFunction".into(),
        ArrayKind(_) => "Array".into(),
        DefinedNameKind(_) => "DefinedName".into(),
        TableNameKind(_) => "TableName".into(),
        NamedVariableKind { .. } => "NamedVariable".into(),
        ImplicitIntersection { .. } => "Implicit(@)".into(),
        SpillRangeOperator { .. } => "Spill(#)".into(),
        CompareKind { kind, .. } => format!("Compare({})", kind),
        UnaryKind { kind, .. } => match kind {
            OpUnary::Minus => "Unary(-)".into(),
            OpUnary::Percentage => "Unary(%)".into(),
        },
        ErrorKind(e) => format!("Error({})", e),
        ParseErrorKind { .. } => "ParseError".into(),
        EmptyArgKind => "EmptyArg".into(),
    }
}

/// Coarser class used in signatures: all comparison operators are one class, + and - one, * and / one.
pub fn kind_class(n: &Node) -> String {
    use Node::*;
    match n {
        CompareKind { .. } => "Compare".into(),
        OpSumKind { .. } => "Sum".into(),
        OpProductKind { .. } => "Product".into(),
        ErrorKind(_) => "Error".into(),
        other => kind(other),
    }
}

/// Children with the side/slot they occupy in the parent.
pub fn children(n: &Node) -> Vec<(String, &Node)> {
    use Node::*;
    match n {
        OpRangeKind { left, right }
        | OpConcatenateKind { left, right }
        | OpSumKind { left, right, .. }
        | OpProductKind { left, right, .. }
        | OpPowerKind { left, right }
        | CompareKind { left, right, .. } => {
            vec![("left".into(), left.as_ref()), ("right".into(), right.as_ref())]
        }
        UnaryKind { right, .. } => vec![("operand".into(), right.as_ref())],
        ImplicitIntersection { child, .. } | SpillRangeOperator { child } => {
            vec![("operand".into(), child.as_ref())]
        }
        FunctionKind { args, .. } | NamedFunctionKind { args, .. } => {
            args.iter().map(|a| ("arg".to_string(), a)).collect()
        }
        LambdaDefKind { body, .. } => vec![("body".into(), body.as_ref())],
        LambdaCallKind { lambda, args } => {
            let mut v = vec![("callee".to_string(), lambda.as_ref())];
            v.extend(args.iter().map(|a| ("arg".to_string(), a)));
            v
        }
        _ => vec![],
    }
}

/// Mutable children, same order as `children`.
pub fn children_mut(n: &mut Node) -> Vec<&mut Node> {
    use Node::*;
    match n {
        OpRangeKind { left, right }
        | OpConcatenateKind { left, right }
        | OpSumKind { left, right, .. }
        | OpProductKind { left, right, .. }
        | OpPowerKind { left, right }
        | CompareKind { left, right, .. } => vec![left.as_mut(), right.as_mut()],
        UnaryKind { right, .. } => vec![right.as_mut()],
        ImplicitIntersection { child, .. } | SpillRangeOperator { child } => vec![child.as_mut()],
        FunctionKind { args, .. } | NamedFunctionKind { args, .. } => args.iter_mut().collect(),
        LambdaDefKind { body, .. } => vec![body.as_mut()],
        LambdaCallKind { lambda, args } => {
            let mut v = vec![lambda.as_mut()];
            v.extend(args.iter_mut());
            v
        }
        _ => vec![],
    }
}

/// Copy of `n` with its i-th child replaced.
pub fn with_child(n: &Node, i: usize, new_child: Node) -> Node {
    let mut c = n.clone();
    if let Some(slot) = children_mut(&mut c).into_iter().nth(i) {
        *slot = new_child;
    }
    c
}

/// English A1 text of a tree with every operator operand in parentheses (independent of the engine's printer
/// for the operator structure; leaves are printed by the engine).
pub fn paren_text(n: &Node, cx: &CellReferenceRC) -> String {
    use ironcalc_base::expressions::parser::stringify::to_localized_string;
    let wrap = |c: &Node| {
        let t = paren_text(c, cx);
        match c {
            Node::OpConcatenateKind { .. }
            | Node::OpSumKind { .. }
            | Node::OpProductKind { .. }
            | Node::OpPowerKind { .. }
            | Node::CompareKind { .. }
            | Node::UnaryKind { .. } => format!("({})", t),
            _ => t,
        }
    };
    match n {
        Node::OpConcatenateKind { left, right } => format!("{}&{}", wrap(left), wrap(right)),
        Node::OpSumKind { kind, left, right } => format!("{}{}{}", wrap(left), kind, wrap(right)),
        Node::OpProductKind { kind, left, right } => format!("{}{}{}", wrap(left), kind, wrap(right)),
        Node::OpPowerKind { left, right } => format!("{}^{}", wrap(left), wrap(right)),
        Node::CompareKind { kind, left, right } => format!("{}{}{}", wrap(left), kind, wrap(right)),
        Node::UnaryKind { kind, right } => match kind {
            OpUnary::Minus => format!("-{}", wrap(right)),
            OpUnary::Percentage => format!("{}%", wrap(right)),
        },
        Node::FunctionKind { kind, args } => format!(
            "{}({})",
            kind.to_localized_name(lang("en")),
            args.iter().map(|a| paren_text(a, cx)).collect::<Vec<_>>().join(",")
        ),
        other => to_localized_string(other, cx, loc("en"), lang("en")),
    }
}

/// Applies `f` to every node of the tree, parents before children.
pub fn walk_mut(n: &mut Node, f: &mut dyn FnMut(&mut Node)) {
    f(n);
    for c in children_mut(n) {
        walk_mut(c, f);
    }
}

/// Where two trees first differ, as a short class: kinds of the two nodes with one level of children, or the
/// differing aspect of a leaf. None if equal.
pub fn divergence(want: &Node, got: &Node) -> Option<String> {
    if want == got {
        return None;
    }
    let kw = kind(want);
    let kg = kind(got);
    let cw = children(want);
    let cg = children(got);
    if kw == kg && cw.len() == cg.len() && !cw.is_empty() {
        for ((_, a), (_, b)) in cw.iter().zip(cg.iter()) {
            if a != b {
                // descend only if the children have the same kind; otherwise this node is the place
                if kind(a) == kind(b) && !children(a).is_empty() {
                    return divergence(a, b);
                }
                let d = |n: &Node, cs: &Vec<(String, &Node)>| {
                    format!("{}[{}]", kd(n), cs.iter().map(|(_, c)| kd(c)).collect::<Vec<_>>().join(","))
                };
                if kind(a) == kind(b) {
                    return divergence(a, b);
                }
                return Some(format!("want={} got={}", d(want, &cw), d(got, &cg)));
            }
        }
    }
    if kw == kg && cw.is_empty() && cg.is_empty() {
        // same leaf kind, different content
        let aspect = match (want, got) {
            (
                Node::ReferenceKind { sheet_index: s1, row: r1, column: c1, absolute_row: ar1, absolute_column: ac1, .. },
                Node::ReferenceKind { sheet_index: s2, row: r2, column: c2, absolute_row: ar2, absolute_column: ac2, .. },
            ) => {
                if s1 != s2 {
                    "sheet"
                } else if r1 != r2 || c1 != c2 {
                    "cell"
                } else if ar1 != ar2 || ac1 != ac2 {
                    "flags"
                } else {
                    "sheet-name"
                }
            }
            (Node::RangeKind { sheet_index: s1, .. }, Node::RangeKind { sheet_index: s2, .. }) => {
                if s1 != s2 {
                    "sheet"
                } else {
                    "corners"
                }
            }
            _ => "content",
        };
        return Some(format!("leaf={} differs={}", kd(want), aspect));
    }
    let d = |n: &Node, cs: &Vec<(String, &Node)>| {
        if cs.is_empty() {
            kd(n)
        } else {
            format!("{}[{}]", kd(n), cs.iter().map(|(_, c)| kd(c)).collect::<Vec<_>>().join(","))
        }
    };
    Some(format!("want={} got={}", d(want, &cw), d(got, &cg)))
}

/// Kind for signatures: comparison operators are one class; `*` (the matcher's wildcard) is spelled `×`.
pub fn kd(n: &Node) -> String {
    match n {
        Node::CompareKind { .. } => "Compare".into(),
        other => kind(other).replace('*', "×"),
    }
}

/// Removes every implicit-intersection operator (keeps its operand).
pub fn strip_ii(n: &mut Node) {
    while let Node::ImplicitIntersection { child, .. } = n {
        let c = (**child).clone();
        *n = c;
    }
    for c in children_mut(n) {
        strip_ii(c);
    }
}

pub fn has_parse_error(n: &Node) -> bool {
    if matches!(n, Node::ParseErrorKind { .. }) {
        return true;
    }
    children(n).iter().any(|(_, c)| has_parse_error(c))
}

pub fn count_nodes(n: &Node) -> usize {
    1 + children(n).iter().map(|(_, c)| count_nodes(c)).sum::<usize>()
}

pub fn short(n: &Node) -> String {
    let s = format!("{:?}", n);
    if s.chars().count() > 300 {
        let t: String = s.chars().take(300).collect();
        format!("{}…", t)
    } else {
        s
    }
}

/// Applies `f` to every reference-carrying node (Reference, Range, WrongReference, WrongRange), depth first.
pub fn map_refs(n: &mut Node, f: &mut dyn FnMut(&mut Node)) {
    use Node::*;
    match n {
        ReferenceKind { .. } | RangeKind { .. } | WrongReferenceKind { .. } | WrongRangeKind { .. } => f(n),
        OpRangeKind { left, right }
        | OpConcatenateKind { left, right }
        | OpSumKind { left, right, .. }
        | OpProductKind { left, right, .. }
        | OpPowerKind { left, right }
        | CompareKind { left, right, .. } => {
            map_refs(left, f);
            map_refs(right, f);
        }
        UnaryKind { right, .. } => map_refs(right, f),
        ImplicitIntersection { child, .. } | SpillRangeOperator { child } => map_refs(child, f),
        FunctionKind { args, .. } | NamedFunctionKind { args, .. } => {
            for a in args {
                map_refs(a, f);
            }
        }
        LambdaDefKind { body, .. } => map_refs(body, f),
        LambdaCallKind { lambda, args } => {
            map_refs(lambda, f);
            for a in args {
                map_refs(a, f);
            }
        }
        _ => {}
    }
}

/// Rewrites every reference to its absolute form (flags set, coordinates absolute) as seen from (row, column):
/// two trees are equal afterwards iff they have the same structure and denote the same cells.
pub fn absolutize(n: &mut Node, row: i32, column: i32) {
    map_refs(n, &mut |r| {
        use Node::*;
        match r {
            ReferenceKind {
                absolute_row,
                absolute_column,
                row: rr,
                column: cc,
                ..
            }
            | WrongReferenceKind {
                absolute_row,
                absolute_column,
                row: rr,
                column: cc,
                ..
            } => {
                if !*absolute_row {
                    *rr += row;
                    *absolute_row = true;
                }
                if !*absolute_column {
                    *cc += column;
                    *absolute_column = true;
                }
            }
            RangeKind {
                absolute_row1,
                absolute_column1,
                row1,
                column1,
                absolute_row2,
                absolute_column2,
                row2,
                column2,
                ..
            }
            | WrongRangeKind {
                absolute_row1,
                absolute_column1,
                row1,
                column1,
                absolute_row2,
                absolute_column2,
                row2,
                column2,
                ..
            } => {
                if !*absolute_row1 {
                    *row1 += row;
                    *absolute_row1 = true;
                }
                if !*absolute_column1 {
                    *column1 += column;
                    *absolute_column1 = true;
                }
                if !*absolute_row2 {
                    *row2 += row;
                    *absolute_row2 = true;
                }
                if !*absolute_column2 {
                    *column2 += column;
                    *absolute_column2 = true;
                }
            }
            _ => {}
        }
    });
}

pub fn has_reference(n: &Node) -> bool {
    let mut c = n.clone();
    let mut found = false;
    map_refs(&mut c, &mut |_| found = true);
    found
}

/// The stored (R1C1, English) text of the formula of a cell, as kept in `worksheet.shared_formulas`.
pub fn stored_rc(m: &ironcalc_base::Model, sheet: u32, row: i32, column: i32) -> Option<String> {
    let ws = m.workbook.worksheets.get(sheet as usize)?;
    let idx = ws.cell(row, column)?.get_formula()?;
    ws.shared_formulas.get(idx as usize).cloned()
}

/// What a workbook stores (formulas per cell in R1C1, defined names, conditional formats) and what it computes.
#[derive(Clone, Debug, PartialEq, Default)]
pub struct Snap {
    pub stored: std::collections::BTreeMap<String, String>,
    pub values: std::collections::BTreeMap<String, String>,
}

pub fn snap(m: &ironcalc_base::Model) -> Snap {
    let mut s = Snap::default();
    for (i, ws) in m.workbook.worksheets.iter().enumerate() {
        s.stored.insert(format!("sheet[{}].name", i), ws.get_name());
        let mut rows: Vec<&i32> = ws.sheet_data.keys().collect();
        rows.sort();
        for r in rows {
            let mut cols: Vec<&i32> = ws.sheet_data[r].keys().collect();
            cols.sort();
            for c in cols {
                let cell = &ws.sheet_data[r][c];
                let key = format!("sheet[{}]!R{}C{}", i, r, c);
                if let Some(fi) = cell.get_formula() {
                    let f = ws.shared_formulas.get(fi as usize).cloned().unwrap_or_else(|| "<missing>".into());
                    s.stored.insert(format!("{}.formula", key), f);
                }
                // language-independent reading of the value: errors by their English name, plus the cell type
                // (get_cell_value_by_index localizes error names, which is display, not value)
                s.values.insert(
                    key,
                    format!(
                        "{:?}:{:?}",
                        cell.get_type(),
                        cell.value(&m.workbook.shared_strings, lang("en"))
                    ),
                );
            }
        }
        for (k, cf) in ws.conditional_formatting.iter().enumerate() {
            s.stored.insert(format!("sheet[{}].cf[{}]", i, k), format!("{:?}", cf));
        }
    }
    let mut names: Vec<String> = m
        .workbook
        .defined_names
        .iter()
        .map(|d| format!("name[{}|{:?}]={}", d.name, d.sheet_id, d.formula))
        .collect();
    names.sort();
    for (k, n) in names.into_iter().enumerate() {
        s.stored.insert(format!("defined_name[{}]", k), n);
    }
    s
}

/// First differing entries of two maps as "key: a -> b" lines (at most `max`).
pub fn map_diff(
    a: &std::collections::BTreeMap<String, String>,
    b: &std::collections::BTreeMap<String, String>,
    max: usize,
) -> Vec<(String, String, String)> {
    let mut out = vec![];
    let keys: std::collections::BTreeSet<&String> = a.keys().chain(b.keys()).collect();
    for k in keys {
        let x = a.get(k).cloned().unwrap_or_else(|| "<absent>".into());
        let y = b.get(k).cloned().unwrap_or_else(|| "<absent>".into());
        if x != y {
            out.push((k.clone(), x, y));
            if out.len() >= max {
                break;
            }
        }
    }
    out
}

/// Class of a snapshot key: formula / value / cf / defined_name / sheet-name.
pub fn key_class(k: &str) -> &'static str {
    if k.ends_with(".formula") {
        "formula"
    } else if k.contains(".cf[") {
        "cf"
    } else if k.starts_with("defined_name") {
        "defined_name"
    } else if k.ends_with(".name") {
        "sheet_name"
    } else {
        "value"
    }
}

// ---------------------------------------------------------------------------------------------
// `term` engine: every fully parenthesised expression of binary depth <= d over operators and leaves
// ---------------------------------------------------------------------------------------------

pub const BINOPS: [&str; 12] = ["=", "<", ">", "<=", ">=", "<>", "&", "+", "-", "*", "/", "^"];

/// Texts of all terms of binary depth <= depth. Every operand that is not a bare leaf is parenthesised, so the
/// text determines the tree and the parser's own precedence rules play no part in building it:
///   T0 := leaf | -leaf | leaf%            (unary over leaves, if `unary_on_leaves`)
///   Tk := (a op b) | -(a op b) | (a op b)%   for a, b of depth < k with at least one of depth k-1
pub fn terms(leaves: &[&str], binops: &[&str], depth: usize, unary_on_leaves: bool) -> Vec<String> {
    // levels[k] = terms of depth exactly k as (text, atomic)
    let mut levels: Vec<Vec<(String, bool)>> = vec![];
    let mut l0 = vec![];
    for l in leaves {
        l0.push((l.to_string(), true));
        if unary_on_leaves {
            l0.push((format!("-{}", l), false));
            l0.push((format!("{}%", l), false));
        }
    }
    levels.push(l0);
    for k in 1..=depth {
        let mut cur = vec![];
        let lower: Vec<(usize, &(String, bool))> = levels
            .iter()
            .enumerate()
            .flat_map(|(d, v)| v.iter().map(move |t| (d, t)))
            .collect();
        for (da, a) in &lower {
            for (db, b) in &lower {
                if *da != k - 1 && *db != k - 1 {
                    continue;
                }
                for op in binops {
                    let core = format!("{}{}{}", wrap(a), op, wrap(b));
                    cur.push((core.clone(), false));
                    cur.push((format!("-({})", core), false));
                    cur.push((format!("({})%", core), false));
                }
            }
        }
        levels.push(cur);
    }
    levels.into_iter().flatten().map(|(t, _)| t).collect()
}

fn wrap(t: &(String, bool)) -> String {
    if t.1 {
        t.0.clone()
    } else {
        format!("({})", t.0)
    }
}

#[cfg(test)]
mod tests {
    use super::*;
    #[test]
    fn term_counts() {
        let t0 = terms(&["1", "A1"], &["+"], 0, true);
        assert_eq!(t0.len(), 6);
        let t1 = terms(&["1"], &["+", "*"], 1, false);
        // 1 ; (1+1) x3 ; (1*1) x3
        assert_eq!(t1.len(), 1 + 6);
        assert!(t1.contains(&"-(1+1)".to_string()));
        let t1u = terms(&["1"], &["+"], 1, true);
        assert!(t1u.contains(&"(-1)+(1%)".to_string()));
    }
}

//! Counters, disagreement clustering, known-findings matching, evidence and replay artefacts.

use serde_json::{json, Map, Value};
use std::collections::BTreeMap;
use std::time::Instant;

#[derive(Clone, Debug)]
pub struct Disagreement {
    /// Signature identifying the defect class narrowly (call site / shape); the unit known findings match on.
    pub sig: String,
    /// Replayable case (input, operation list, history ...).
    pub case: Value,
    /// Human-readable expected-vs-observed.
    pub detail: String,
}

#[derive(Clone, Copy, PartialEq, Eq, Debug)]
pub enum Tier {
    Quick,
    Thorough,
}
impl Tier {
    pub fn name(&self) -> &'static str {
        match self {
            Tier::Quick => "quick",
            Tier::Thorough => "thorough",
        }
    }
    pub fn thorough(&self) -> bool {
        *self == Tier::Thorough
    }
}

pub struct Run {
    pub id: String,
    pub tier: Tier,
    start: Instant,
    pub evaluations: u64,
    pub states: u64,
    pub transitions: u64,
    pub traces: u64,
    pub nontrivial: u64,
    pub rule: String,
    pub samples: Vec<Value>,
    pub exhaustive: bool,
    pub cap_hit: Option<String>,
    pub bound: Value,
    pub distinct_outcomes: u64,
    pub assumptions: Vec<String>,
    pub extra: Map<String, Value>,
    pub clusters: BTreeMap<String, (u64, Disagreement)>,
    pub machinery_errors: Vec<String>,
}

impl Run {
    pub fn new(id: &str, tier: Tier) -> Run {
        Run {
            id: id.to_string(),
            tier,
            start: Instant::now(),
            evaluations: 0,
            states: 0,
            transitions: 0,
            traces: 0,
            nontrivial: 0,
            rule: String::new(),
            samples: vec![],
            exhaustive: true,
            cap_hit: None,
            bound: Value::Null,
            distinct_outcomes: 0,
            assumptions: vec![],
            extra: Map::new(),
            clusters: BTreeMap::new(),
            machinery_errors: vec![],
        }
    }
    pub fn elapsed(&self) -> f64 {
        self.start.elapsed().as_secs_f64()
    }
    pub fn add(&mut self, d: Disagreement) {
        match self.clusters.get_mut(&d.sig) {
            Some(e) => {
                e.0 += 1;
                // keep the smallest witness (shortest serialised case)
                if d.case.to_string().len() < e.1.case.to_string().len() {
                    e.1 = d;
                }
            }
            None => {
                self.clusters.insert(d.sig.clone(), (1, d));
            }
        }
    }
    pub fn add_all(&mut self, ds: Vec<Disagreement>) {
        for d in ds {
            self.add(d);
        }
    }
    pub fn sample(&mut self, v: Value) {
        if self.samples.len() < 6 {
            self.samples.push(v);
        }
    }
    pub fn assume(&mut self, s: &str) {
        self.assumptions.push(s.to_string());
    }

    /// Matches clusters against known findings, writes replays + evidence, prints verdict lines, returns exit code.
    pub fn finish(mut self) -> i32 {
        let findings = load_findings();
        let mut known_hit: BTreeMap<String, (String, u64)> = BTreeMap::new();
        let mut violations: Vec<(u64, Disagreement)> = vec![];
        for (sig, (n, d)) in &self.clusters {
            let m = findings.iter().find(|f| {
                f.property == self.id && f.status == "open" && glob_match(&f.sig, sig)
            });
            match m {
                Some(f) => {
                    let e = known_hit
                        .entry(f.sig.clone())
                        .or_insert((f.what.clone(), 0));
                    e.1 += n;
                }
                None => violations.push((*n, d.clone())),
            }
        }
        let triage = std::env::var("VERIF_TRIAGE").is_ok();
        if triage {
            println!("--- triage: {} clusters", self.clusters.len());
            for (sig, (n, d)) in &self.clusters {
                let known = findings.iter().any(|f| {
                    f.property == self.id && f.status == "open" && glob_match(&f.sig, sig)
                });
                println!(
                    "[{}] n={} sig={}\n    case={}\n    {}",
                    if known { "known" } else { "NEW" },
                    n,
                    sig,
                    d.case,
                    d.detail.replace('\n', "\n    ")
                );
            }
        }
        for (sig, (what, n)) in &known_hit {
            println!(
                "KNOWN-FINDING: property={} {} [sig={} hits={}]",
                self.id, what, sig, n
            );
        }
        let mut exit = 0;
        let dir = format!("{}/replays/{}", crate::env::root(), self.id);
        let max_print = 12;
        for (i, (n, d)) in violations.iter().enumerate() {
            let _ = std::fs::create_dir_all(&dir);
            let path = format!("{}/{:032x}.json", dir, crate::env::digest(&d.sig));
            let body = json!({"property": self.id, "sig": d.sig, "case": d.case, "detail": d.detail, "count": n,
                "hash_seed": crate::env::hash_seed()});
            let _ = std::fs::write(&path, serde_json::to_string_pretty(&body).unwrap());
            if i < max_print {
                println!("VIOLATION property={} replay={}", self.id, path);
                println!("  sig: {}", d.sig);
                println!("  case: {}", d.case);
                for l in d.detail.lines().take(12) {
                    println!("  {}", l);
                }
            }
            exit = 1;
        }
        if violations.len() > max_print {
            println!(
                "  ... and {} more violation clusters (all written under {})",
                violations.len() - max_print,
                dir
            );
        }
        if !self.machinery_errors.is_empty() {
            for e in self.machinery_errors.iter().take(10) {
                println!("MACHINERY: {}", e);
            }
            if exit == 0 {
                exit = 3;
            }
        }
        if let Some(c) = &self.cap_hit {
            println!("MACHINERY: cap hit: {}", c);
            self.exhaustive = false;
            if exit == 0 {
                exit = 3;
            }
        }
        // evidence
        let mut cov = Map::new();
        cov.insert("states".into(), json!(self.states.max(1)));
        cov.insert("transitions".into(), json!(self.transitions.max(1)));
        cov.insert(
            "traces_validated_against_impl".into(),
            json!(self.traces),
        );
        cov.insert("evaluations".into(), json!(self.evaluations));
        cov.insert("distinct_nontrivial".into(), json!(self.nontrivial));
        cov.insert("rule".into(), json!(self.rule));
        if self.samples.is_empty() {
            self.samples.push(json!("<no sample recorded>"));
        }
        cov.insert("samples".into(), json!(self.samples));
        cov.insert("exhaustive".into(), json!(self.exhaustive));
        cov.insert("bound".into(), self.bound.clone());
        cov.insert("distinct_outcomes".into(), json!(self.distinct_outcomes));
        cov.insert(
            "known_findings_hit".into(),
            json!(known_hit
                .iter()
                .map(|(s, (w, n))| json!({"sig": s, "what": w, "hits": n}))
                .collect::<Vec<_>>()),
        );
        cov.insert(
            "disagreement_clusters".into(),
            json!(self.clusters.len()),
        );
        if let Some(c) = &self.cap_hit {
            cov.insert("cap_hit".into(), json!(c));
        }
        for (k, v) in &self.extra {
            cov.insert(k.clone(), v.clone());
        }
        let ev = json!({
            "property_id": self.id,
            "tier": self.tier.name(),
            "seed": crate::env::verif_seed(),
            "level": "model_checking",
            "coverage": Value::Object(cov),
            "assumptions": self.assumptions,
            "wall_s": self.elapsed(),
            "violations": violations.len(),
        });
        let _ = std::fs::create_dir_all(format!("{}/evidence", crate::env::root()));
        let p = format!("{}/evidence/{}.json", crate::env::root(), self.id);
        if let Err(e) = std::fs::write(&p, serde_json::to_string_pretty(&ev).unwrap()) {
            println!("MACHINERY: cannot write evidence {}: {}", p, e);
            if exit == 0 {
                exit = 3;
            }
        }
        println!(
            "{} {} tier={} evaluations={} states={} transitions={} nontrivial={} outcomes={} clusters={} known={} violations={} exhaustive={} wall={:.1}s",
            if exit == 0 { "OK" } else if exit == 1 { "FAIL" } else { "ERROR" },
            self.id,
            self.tier.name(),
            self.evaluations,
            self.states,
            self.transitions,
            self.nontrivial,
            self.distinct_outcomes,
            self.clusters.len(),
            known_hit.len(),
            violations.len(),
            self.exhaustive,
            self.elapsed()
        );
        exit
    }
}

pub struct Finding {
    pub property: String,
    pub status: String,
    pub sig: String,
    pub what: String,
}

pub fn load_findings() -> Vec<Finding> {
    let mut out = vec![];
    let mut txt = std::fs::read_to_string(format!("{}/known_findings.jsonl", crate::env::root())).unwrap_or_default();
    // per-property files known_findings.d/CXX.jsonl (same format), read in name order
    if let Ok(rd) = std::fs::read_dir(format!("{}/known_findings.d", crate::env::root())) {
        let mut files: Vec<_> = rd.filter_map(|e| e.ok()).map(|e| e.path()).collect();
        files.sort();
        for f in files {
            if f.extension().map(|x| x == "jsonl").unwrap_or(false) {
                txt.push('\n');
                txt.push_str(&std::fs::read_to_string(&f).unwrap_or_default());
            }
        }
    }
    for line in txt.lines() {
        let line = line.trim();
        if line.is_empty() || line.starts_with('#') || line.starts_with("fixed:") {
            continue;
        }
        if let Ok(v) = serde_json::from_str::<Value>(line) {
            out.push(Finding {
                property: v["property"].as_str().unwrap_or("").to_string(),
                status: v["status"].as_str().unwrap_or("").to_string(),
                sig: v["sig"].as_str().unwrap_or("\u{0}").to_string(),
                what: v["what"].as_str().unwrap_or("").to_string(),
            });
        } else {
            eprintln!("MACHINERY: bad line in known_findings.jsonl: {}", line);
            std::process::exit(3);
        }
    }
    out
}

/// '*' matches any (possibly empty) run of characters; everything else is literal.
pub fn glob_match(pat: &str, s: &str) -> bool {
    let parts: Vec<&str> = pat.split('*').collect();
    if parts.len() == 1 {
        return pat == s;
    }
    let mut pos = 0usize;
    for (i, part) in parts.iter().enumerate() {
        if i == 0 {
            if !s.starts_with(part) {
                return false;
            }
            pos = part.len();
        } else if i == parts.len() - 1 {
            return s.len() >= pos + part.len() && s[pos..].ends_with(part);
        } else {
            match s[pos..].find(part) {
                Some(k) => pos += k + part.len(),
                None => return false,
            }
        }
    }
    true
}

#[cfg(test)]
mod tests {
    use super::glob_match;
    #[test]
    fn globs() {
        assert!(glob_match("a*c", "abc"));
        assert!(glob_match("a*c", "ac"));
        assert!(!glob_match("a*c", "ab"));
        assert!(glob_match("abc", "abc"));
        assert!(!glob_match("abc", "abcd"));
        assert!(glob_match("a*b*c", "axxbyyc"));
        assert!(!glob_match("a*b*c", "axxcyyb"));
        assert!(glob_match("*x", "zzx"));
        assert!(glob_match("x*", "xzz"));
    }
}

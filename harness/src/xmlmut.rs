//! Structural mutations of an XML text located with a small hand-written tokenizer (byte offsets into
//! the original text; nothing is re-serialised, so everything the mutation does not touch stays
//! byte-identical, including element order, namespaces, entities and whitespace).

use serde_json::{json, Value};

#[derive(Clone, Debug)]
pub struct Attr {
    /// start of the whitespace preceding the attribute name .. end of the closing quote
    pub full: (usize, usize),
    pub name: (usize, usize),
    /// inside the quotes
    pub value: (usize, usize),
}

#[derive(Clone, Debug)]
pub struct Element {
    /// whole element: `<` of the start tag .. after `>` of the end tag (or of the empty-element tag)
    pub span: (usize, usize),
    /// between start tag and end tag (empty for `<a/>`)
    pub content: (usize, usize),
    pub name: (usize, usize),
    pub attrs: Vec<Attr>,
    pub has_child_elements: bool,
}

#[derive(Clone, Debug, Default)]
pub struct Layout {
    pub elements: Vec<Element>,
    /// non-empty character data between tags (including whitespace-only runs are skipped)
    pub texts: Vec<(usize, usize)>,
    /// every offset where a markup token starts or ends, except 0 and len
    pub boundaries: Vec<usize>,
    pub len: usize,
}

fn is_name_byte(b: u8) -> bool {
    b.is_ascii_alphanumeric() || matches!(b, b':' | b'_' | b'-' | b'.') || b >= 0x80
}

/// Tokenizes `s`. Never fails: malformed input yields whatever could be located.
pub fn layout(s: &[u8]) -> Layout {
    let n = s.len();
    let mut lay = Layout {
        len: n,
        ..Default::default()
    };
    // stack of (element index)
    let mut stack: Vec<usize> = vec![];
    let mut i = 0usize;
    let mut bounds: Vec<usize> = vec![];
    while i < n {
        if s[i] != b'<' {
            let j = s[i..].iter().position(|&b| b == b'<').map(|k| i + k).unwrap_or(n);
            if s[i..j].iter().any(|b| !b.is_ascii_whitespace()) {
                lay.texts.push((i, j));
            }
            i = j;
            continue;
        }
        let tok_start = i;
        let find = |from: usize, pat: &[u8]| -> Option<usize> {
            if from > n {
                return None;
            }
            s[from..].windows(pat.len()).position(|w| w == pat).map(|k| from + k)
        };
        if s[i..].starts_with(b"<?") {
            i = find(i + 2, b"?>").map(|k| k + 2).unwrap_or(n);
        } else if s[i..].starts_with(b"<!--") {
            i = find(i + 4, b"-->").map(|k| k + 3).unwrap_or(n);
        } else if s[i..].starts_with(b"<![CDATA[") {
            i = find(i + 9, b"]]>").map(|k| k + 3).unwrap_or(n);
        } else if s[i..].starts_with(b"<!") {
            i = find(i + 2, b">").map(|k| k + 1).unwrap_or(n);
        } else if s[i..].starts_with(b"</") {
            let end = find(i + 2, b">").map(|k| k + 1).unwrap_or(n);
            if let Some(e) = stack.pop() {
                lay.elements[e].content.1 = tok_start;
                lay.elements[e].span.1 = end;
            }
            i = end;
        } else {
            // start tag or empty-element tag
            let mut j = i + 1;
            let name_start = j;
            while j < n && is_name_byte(s[j]) {
                j += 1;
            }
            let name = (name_start, j);
            let mut attrs = vec![];
            let mut self_closing = false;
            loop {
                let ws_start = j;
                while j < n && s[j].is_ascii_whitespace() {
                    j += 1;
                }
                if j >= n {
                    break;
                }
                if s[j] == b'>' {
                    j += 1;
                    break;
                }
                if s[j] == b'/' && j + 1 < n && s[j + 1] == b'>' {
                    self_closing = true;
                    j += 2;
                    break;
                }
                let an = j;
                while j < n && is_name_byte(s[j]) {
                    j += 1;
                }
                let an_end = j;
                if an_end == an {
                    // not an attribute: skip one byte to make progress
                    j += 1;
                    continue;
                }
                while j < n && s[j].is_ascii_whitespace() {
                    j += 1;
                }
                if j < n && s[j] == b'=' {
                    j += 1;
                    while j < n && s[j].is_ascii_whitespace() {
                        j += 1;
                    }
                    if j < n && (s[j] == b'"' || s[j] == b'\'') {
                        let q = s[j];
                        let vs = j + 1;
                        let ve = s[vs..].iter().position(|&b| b == q).map(|k| vs + k).unwrap_or(n);
                        j = (ve + 1).min(n);
                        attrs.push(Attr {
                            full: (ws_start, j),
                            name: (an, an_end),
                            value: (vs, ve),
                        });
                    }
                }
            }
            let idx = lay.elements.len();
            if let Some(&p) = stack.last() {
                lay.elements[p].has_child_elements = true;
            }
            lay.elements.push(Element {
                span: (tok_start, if self_closing { j } else { n }),
                content: (j, if self_closing { j } else { n }),
                name,
                attrs,
                has_child_elements: false,
            });
            if !self_closing {
                stack.push(idx);
            }
            i = j;
        }
        bounds.push(tok_start);
        bounds.push(i);
    }
    bounds.retain(|&b| b != 0 && b < n);
    bounds.sort_unstable();
    bounds.dedup();
    lay.boundaries = bounds;
    lay
}

pub const ATTR_VALUES: [&str; 12] = [
    "", "0", "-1", "1", "4294967296", "1e999", "NaN", "A0", "XFE1048577", "A1:", "x", "<10k>",
];
/// the last three are look-alikes of the file format's _xHHHH_ escapes: a lone surrogate, NUL, a non-character
pub const TEXT_VALUES: [&str; 7] = ["", "abc", "-1", "99999999999", "bad_xD800_escape", "a_x0000_b_xDFFF_", "_xFFFF__x005F_"];

fn attr_value(k: usize) -> String {
    if ATTR_VALUES[k] == "<10k>" {
        "A".repeat(10_000)
    } else {
        ATTR_VALUES[k].to_string()
    }
}

/// One mutation of one XML text.
#[derive(Clone, Debug, PartialEq)]
pub enum Mutation {
    DelElem(usize),
    DelChildren(usize),
    DupElem(usize),
    DelAttr(usize, usize),
    SetAttr(usize, usize, usize),
    SetText(usize, usize),
    Truncate(usize),
}

impl Mutation {
    pub fn to_json(&self) -> Value {
        match self {
            Mutation::DelElem(e) => json!({"op":"del-elem","elem":e}),
            Mutation::DelChildren(e) => json!({"op":"del-children","elem":e}),
            Mutation::DupElem(e) => json!({"op":"dup-elem","elem":e}),
            Mutation::DelAttr(e, a) => json!({"op":"del-attr","elem":e,"attr":a}),
            Mutation::SetAttr(e, a, k) => json!({"op":"set-attr","elem":e,"attr":a,"value":ATTR_VALUES[*k]}),
            Mutation::SetText(t, k) => json!({"op":"set-text","text":t,"value":TEXT_VALUES[*k]}),
            Mutation::Truncate(b) => json!({"op":"truncate","boundary":b}),
        }
    }
    pub fn from_json(v: &Value) -> Option<Mutation> {
        let u = |k: &str| v[k].as_u64().map(|x| x as usize);
        Some(match v["op"].as_str()? {
            "del-elem" => Mutation::DelElem(u("elem")?),
            "del-children" => Mutation::DelChildren(u("elem")?),
            "dup-elem" => Mutation::DupElem(u("elem")?),
            "del-attr" => Mutation::DelAttr(u("elem")?, u("attr")?),
            "set-attr" => Mutation::SetAttr(
                u("elem")?,
                u("attr")?,
                ATTR_VALUES.iter().position(|x| Some(*x) == v["value"].as_str())?,
            ),
            "set-text" => Mutation::SetText(
                u("text")?,
                TEXT_VALUES.iter().position(|x| Some(*x) == v["value"].as_str())?,
            ),
            "truncate" => Mutation::Truncate(u("boundary")?),
            _ => return None,
        })
    }
    /// Kind name used in signatures / statistics.
    pub fn kind(&self) -> &'static str {
        match self {
            Mutation::DelElem(_) => "del-elem",
            Mutation::DelChildren(_) => "del-children",
            Mutation::DupElem(_) => "dup-elem",
            Mutation::DelAttr(..) => "del-attr",
            Mutation::SetAttr(..) => "set-attr",
            Mutation::SetText(..) => "set-text",
            Mutation::Truncate(_) => "truncate",
        }
    }
    /// The edit as (range to replace, replacement); None when the indices are out of range.
    pub fn edit(&self, s: &[u8], lay: &Layout) -> Option<((usize, usize), Vec<u8>)> {
        Some(match self {
            Mutation::DelElem(e) => (lay.elements.get(*e)?.span, vec![]),
            Mutation::DelChildren(e) => (lay.elements.get(*e)?.content, vec![]),
            Mutation::DupElem(e) => {
                let sp = lay.elements.get(*e)?.span;
                ((sp.1, sp.1), s[sp.0..sp.1].to_vec())
            }
            Mutation::DelAttr(e, a) => (lay.elements.get(*e)?.attrs.get(*a)?.full, vec![]),
            Mutation::SetAttr(e, a, k) => (
                lay.elements.get(*e)?.attrs.get(*a)?.value,
                attr_value(*k).into_bytes(),
            ),
            Mutation::SetText(t, k) => (*lay.texts.get(*t)?, TEXT_VALUES[*k].as_bytes().to_vec()),
            Mutation::Truncate(b) => ((*lay.boundaries.get(*b)?, s.len()), vec![]),
        })
    }
    pub fn apply(&self, s: &[u8], lay: &Layout) -> Option<Vec<u8>> {
        let ((a, b), rep) = self.edit(s, lay)?;
        let mut out = Vec::with_capacity(s.len() + rep.len());
        out.extend_from_slice(&s[..a]);
        out.extend_from_slice(&rep);
        out.extend_from_slice(&s[b..]);
        Some(out)
    }
    /// A short human description: element / attribute names involved.
    pub fn describe(&self, s: &[u8], lay: &Layout) -> String {
        let nm = |r: (usize, usize)| String::from_utf8_lossy(&s[r.0..r.1]).to_string();
        match self {
            Mutation::DelElem(e) | Mutation::DelChildren(e) | Mutation::DupElem(e) => lay
                .elements
                .get(*e)
                .map(|el| format!("{} <{}> (element #{} at byte {})", self.kind(), nm(el.name), e, el.span.0))
                .unwrap_or_default(),
            Mutation::DelAttr(e, a) | Mutation::SetAttr(e, a, _) => lay
                .elements
                .get(*e)
                .and_then(|el| el.attrs.get(*a).map(|at| (el, at)))
                .map(|(el, at)| {
                    let v = if let Mutation::SetAttr(_, _, k) = self {
                        format!(" := \"{}\"", ATTR_VALUES[*k])
                    } else {
                        String::new()
                    };
                    format!(
                        "{} <{} {}=\"{}\">{} (element #{} at byte {})",
                        self.kind(),
                        nm(el.name),
                        nm(at.name),
                        nm(at.value).chars().take(40).collect::<String>(),
                        v,
                        e,
                        el.span.0
                    )
                })
                .unwrap_or_default(),
            Mutation::SetText(t, k) => lay
                .texts
                .get(*t)
                .map(|r| {
                    format!(
                        "set-text `{}` := `{}` (text #{} at byte {})",
                        nm(*r).chars().take(40).collect::<String>(),
                        TEXT_VALUES[*k],
                        t,
                        r.0
                    )
                })
                .unwrap_or_default(),
            Mutation::Truncate(b) => format!(
                "truncate at byte {} of {}",
                lay.boundaries.get(*b).copied().unwrap_or(0),
                s.len()
            ),
        }
    }
}

/// Every single mutation of the text, in a fixed order (simplest kinds first).
pub fn all_mutations(lay: &Layout) -> Vec<Mutation> {
    let mut v = vec![];
    for (e, el) in lay.elements.iter().enumerate() {
        v.push(Mutation::DelElem(e));
        if el.has_child_elements {
            v.push(Mutation::DelChildren(e));
        }
        v.push(Mutation::DupElem(e));
    }
    for (e, el) in lay.elements.iter().enumerate() {
        for a in 0..el.attrs.len() {
            v.push(Mutation::DelAttr(e, a));
        }
    }
    for (e, el) in lay.elements.iter().enumerate() {
        for a in 0..el.attrs.len() {
            for k in 0..ATTR_VALUES.len() {
                v.push(Mutation::SetAttr(e, a, k));
            }
        }
    }
    for t in 0..lay.texts.len() {
        for k in 0..TEXT_VALUES.len() {
            v.push(Mutation::SetText(t, k));
        }
    }
    for b in 0..lay.boundaries.len() {
        v.push(Mutation::Truncate(b));
    }
    v
}

/// Applies two mutations located on the ORIGINAL text. None when their edited ranges overlap
/// (the pair is then not a pair of independent deviations) or an index is out of range.
pub fn apply_pair(m1: &Mutation, m2: &Mutation, s: &[u8], lay: &Layout) -> Option<Vec<u8>> {
    let (r1, rep1) = m1.edit(s, lay)?;
    let (r2, rep2) = m2.edit(s, lay)?;
    let ((a, ra), (b, rb)) = if r1.0 <= r2.0 { ((r1, rep1), (r2, rep2)) } else { ((r2, rep2), (r1, rep1)) };
    if a.1 > b.0 || (a == b) {
        return None;
    }
    let mut out = Vec::with_capacity(s.len() + ra.len() + rb.len());
    out.extend_from_slice(&s[..a.0]);
    out.extend_from_slice(&ra);
    out.extend_from_slice(&s[a.1..b.0]);
    out.extend_from_slice(&rb);
    out.extend_from_slice(&s[b.1..]);
    Some(out)
}

#[cfg(test)]
mod tests {
    use super::*;
    #[test]
    fn tokenizes() {
        let s = br#"<?xml version="1.0"?><a x="1" y='2'><b/>text<c k="v">t2</c><!-- c --></a>"#;
        let l = layout(s);
        assert_eq!(l.elements.len(), 3);
        assert_eq!(l.elements[0].attrs.len(), 2);
        assert!(l.elements[0].has_child_elements);
        assert_eq!(l.texts.len(), 2);
        let m = Mutation::DelElem(1).apply(s, &l).unwrap();
        assert_eq!(
            String::from_utf8(m).unwrap(),
            r#"<?xml version="1.0"?><a x="1" y='2'>text<c k="v">t2</c><!-- c --></a>"#
        );
        let m = Mutation::DelAttr(0, 1).apply(s, &l).unwrap();
        assert!(String::from_utf8(m).unwrap().starts_with(r#"<?xml version="1.0"?><a x="1"><b/>"#));
        let m = Mutation::DelChildren(0).apply(s, &l).unwrap();
        assert_eq!(String::from_utf8(m).unwrap(), r#"<?xml version="1.0"?><a x="1" y='2'></a>"#);
        let m = Mutation::SetAttr(2, 0, 1).apply(s, &l).unwrap();
        assert!(String::from_utf8(m).unwrap().contains(r#"<c k="0">"#));
        let m = Mutation::DupElem(2).apply(s, &l).unwrap();
        assert!(String::from_utf8(m).unwrap().contains(r#"<c k="v">t2</c><c k="v">t2</c>"#));
    }
}

//! Subprocess isolation for checks whose inputs can kill the process (stack overflow, allocation
//! failure, runaway loops): C11 and C25.
//!
//! A `Job` is a numbered, deterministic list of cases. The parent (`run_isolated`) splits
//! `0..n_cases` into batches and runs each batch in a worker process (re-exec of the current
//! executable with the private subcommand `worker <prop> <tier> <from> <to>`). A worker
//! * sets RLIMIT_AS (4 GiB) and runs the cases in fresh threads (one per group of 64 cases) with an 8 MiB
//!   stack (the platform main-thread default, so a stack overflow is one a user would also get),
//! * writes a progress line `P <idx>` BEFORE running a case and a result line `R <idx> ...` after,
//! * catches panics with `crate::env::guarded` (inside the job).
//! The parent enforces a per-case watchdog (time since the last line). When a worker dies (abort,
//! SIGSEGV/SIGABRT from a stack overflow, allocation failure) or hangs, the in-flight case is the
//! last progress line without a result line. That case is re-run alone in a *diagnose* worker that
//! additionally reports every stage (entry point) it enters, which gives the signature
//! `abort signal=<n> entry=<stage>` or `hang entry=<stage>`; the batch is then resumed after it.
//! Workers inherit the environment (LD_PRELOAD shim, VERIF_*).

use crate::report::{Disagreement, Run, Tier};
use serde_json::{json, Value};
use std::collections::HashSet;
use std::io::{BufRead, BufReader, Read, Write};
use std::process::{Command, Stdio};
use std::sync::atomic::{AtomicUsize, Ordering};
use std::sync::mpsc;
use std::sync::Mutex;
use std::time::{Duration, Instant};

/// Cases per worker thread (see `worker_main`).
pub const GROUP: usize = 64;

/// What one case produced.
#[derive(Default)]
pub struct CaseOut {
    pub ds: Vec<Disagreement>,
    /// the case is non-trivial by the job's stated rule
    pub nontrivial: bool,
    /// digest of the observable outcome (for `distinct_outcomes`)
    pub outcome: u64,
    /// real calls made into the subject
    pub calls: u64,
}

pub trait Job: Sync + Send {
    fn n_cases(&self) -> usize;
    /// Self-contained, replayable description of case `idx`.
    fn case_json(&self, idx: usize) -> Value;
    /// Runs one case. `stage(name)` is called before every entry point of the subject.
    fn run_case(&self, case: &Value, stage: &mut dyn FnMut(&str)) -> CaseOut;
}

/// Registry of isolated jobs (private to the harness; used by parent, worker and replay).
pub fn job_for(prop: &str, tier: Tier) -> Option<Box<dyn Job>> {
    match prop {
        "C11" => Some(crate::props::c11::job(tier)),
        "C25" => Some(crate::props::c25::job(tier)),
        "SELFTEST" => Some(Box::new(SelfTest)),
        _ => None,
    }
}

pub struct Opts {
    /// seconds without any line from a worker before it is declared hung
    pub watchdog_s: f64,
    /// cases per worker process
    pub batch: usize,
    /// overall wall cap (seconds); when hit the run is marked non-exhaustive
    pub wall_cap_s: f64,
}

#[derive(Default)]
pub struct Summary {
    pub cases_run: u64,
    pub calls: u64,
    pub nontrivial: u64,
    pub outcomes: HashSet<u64>,
    pub deaths: u64,
    pub hangs: u64,
    pub worker_processes: u64,
    /// workers lost on a case that then ran to the end both alone and in its thread context (overload, OOM killer)
    pub transient: u64,
}

fn tier_name(t: Tier) -> &'static str {
    t.name()
}

fn set_limits() {
    unsafe {
        let lim = libc::rlimit {
            rlim_cur: 4u64 << 30,
            rlim_max: 4u64 << 30,
        };
        libc::setrlimit(libc::RLIMIT_AS, &lim);
        // no core files
        let z = libc::rlimit {
            rlim_cur: 0,
            rlim_max: 0,
        };
        libc::setrlimit(libc::RLIMIT_CORE, &z);
    }
    tune_malloc(1);
}

/// Keeps freed memory in the process: giving pages back after every case and faulting them in again for the
/// next one costs more than the cases themselves (measured: 3x on import-heavy cases).
pub fn tune_malloc(arenas: i32) {
    unsafe {
        libc::mallopt(libc::M_ARENA_MAX, arenas);
        libc::mallopt(libc::M_TRIM_THRESHOLD, 1 << 30);
        libc::mallopt(libc::M_TOP_PAD, 64 << 20);
        libc::mallopt(libc::M_MMAP_THRESHOLD, 32 << 20);
    }
}

/// "msg @ /repo/xlsx/src/import/styles.rs:126" -> "xlsx/src/import/styles.rs:126" (independent of where the
/// subject's source tree lives, so that a scratch copy gives the same signature).
pub fn norm_loc(p: &str) -> String {
    let loc = p.rsplit(" @ ").next().unwrap_or("");
    for key in ["/xlsx/src/", "/base/src/"] {
        if let Some(i) = loc.find(key) {
            return loc[i + 1..].to_string();
        }
    }
    if let Some(i) = loc.find("/registry/src/") {
        let rest = &loc[i + 14..];
        return rest.splitn(2, '/').nth(1).unwrap_or(rest).to_string();
    }
    if let Some(i) = loc.find("/library/") {
        return loc[i + 1..].to_string();
    }
    loc.to_string()
}

/// Signature part for a caught panic "msg @ file:line": the normalised location, plus the message shape (digits
/// and quoted data removed) when the location is not in the subject's own source (a callee without
/// `#[track_caller]` reports its own line, which says nothing).
pub fn panic_sig(p: &str) -> String {
    let at = norm_loc(p);
    if at.starts_with("xlsx/src/") || at.starts_with("base/src/") {
        return format!("at={}", at);
    }
    let msg = p.rsplitn(2, " @ ").last().unwrap_or("");
    let mut shape = String::new();
    let mut in_tick = false;
    for c in msg.chars() {
        if c == '`' {
            in_tick = !in_tick;
            continue;
        }
        if in_tick || c.is_ascii_digit() {
            continue;
        }
        shape.push(c);
        if shape.len() >= 60 {
            break;
        }
    }
    format!("at={} msg={}", at, shape.split_whitespace().collect::<Vec<_>>().join(" "))
}

fn hex(s: &str) -> String {
    s.bytes().map(|b| format!("{:02x}", b)).collect()
}
fn unhex(s: &str) -> String {
    let b: Vec<u8> = (0..s.len() / 2)
        .filter_map(|i| u8::from_str_radix(&s[2 * i..2 * i + 2], 16).ok())
        .collect();
    String::from_utf8_lossy(&b).to_string()
}

/// Worker output channel: a block-buffered writer on fd 1 (std's stdout is line-buffered even on a pipe, which
/// would cost a write syscall per line). Progress lines are flushed before the case starts; result lines leave
/// the process together with the next progress line (or at the end of the group), i.e. before the next case
/// starts, so the parent never attributes a death to a finished case.
fn out_line(line: &str, flush: bool) {
    use std::os::fd::FromRawFd;
    static OUT: std::sync::OnceLock<Mutex<std::io::BufWriter<std::fs::File>>> = std::sync::OnceLock::new();
    let m = OUT.get_or_init(|| Mutex::new(std::io::BufWriter::with_capacity(1 << 16, unsafe { std::fs::File::from_raw_fd(1) })));
    let mut o = m.lock().unwrap_or_else(|e| e.into_inner());
    let _ = o.write_all(line.as_bytes());
    let _ = o.write_all(b"\n");
    if flush {
        let _ = o.flush();
    }
}

/// Entry of the private subcommand: `worker <prop> <tier> <from> <to>` or
/// `worker <prop> <tier> case <hex json>` (diagnose / replay mode: stages are reported).
pub fn worker_main(args: &[String]) -> i32 {
    if args.len() < 4 {
        eprintln!("worker: bad arguments");
        return 2;
    }
    set_limits();
    let tier = if args[1] == "thorough" {
        Tier::Thorough
    } else {
        Tier::Quick
    };
    let job = match job_for(&args[0], tier) {
        Some(j) => j,
        None => {
            eprintln!("worker: unknown job {}", args[0]);
            return 2;
        }
    };
    if args[2] == "case" {
        let case: Value = match serde_json::from_str(&unhex(&args[3])) {
            Ok(v) => v,
            Err(e) => {
                eprintln!("worker: bad case json: {}", e);
                return 2;
            }
        };
        out_line("P 0", true);
        let r = crate::env::fresh(|| {
            let mut stage = |s: &str| out_line(&format!("S {}", hex(s)), true);
            job.run_case(&case, &mut stage)
        });
        emit_result(0, r);
        out_line("DONE", true);
        return 0;
    }
    if args[2] == "ctx" {
        // `ctx <from>:<idx>`: re-run the cases from..idx silently in one thread (so that the hash-map state is the
        // one the batch worker had), then case idx reporting its stages
        let mut it = args[3].split(':');
        let from: usize = it.next().and_then(|x| x.parse().ok()).unwrap_or(0);
        let idx: usize = it.next().and_then(|x| x.parse().ok()).unwrap_or(0);
        let job_ref = &job;
        let r = crate::env::fresh(move || {
            for i in from..idx {
                let case = job_ref.case_json(i);
                let mut stage = |_: &str| {};
                let _ = crate::env::guarded(|| job_ref.run_case(&case, &mut stage));
            }
            out_line("P 0", true);
            let case = job_ref.case_json(idx);
            let mut stage = |s: &str| out_line(&format!("S {}", hex(s)), true);
            job_ref.run_case(&case, &mut stage)
        });
        emit_result(0, r);
        out_line("DONE", true);
        return 0;
    }
    let from: usize = args[2].parse().unwrap_or(0);
    let to: usize = args[3].parse().unwrap_or(0);
    out_line("READY", true);
    let to = to.min(job.n_cases());
    // Cases run in groups of GROUP per fresh 8 MiB thread: a thread per case costs milliseconds here (each new
    // stack is faulted in and given back), which would dominate sub-millisecond cases. Hash-map order inside a
    // group is therefore a function of (VERIF_HASH_SEED, group), while a single-case replay starts a fresh thread.
    let group: usize = GROUP;
    let mut g = from;
    while g < to {
        let g_end = (g + group).min(to);
        let job_ref = &job;
        let r = crate::env::fresh(move || {
            for idx in g..g_end {
                out_line(&format!("P {}", idx), true);
                let case = job_ref.case_json(idx);
                let mut stage = |_: &str| {};
                let c = crate::env::guarded(|| job_ref.run_case(&case, &mut stage));
                emit_result(idx, c);
            }
        });
        out_line("", true);
        if let Err(e) = r {
            eprintln!("worker: group thread failed: {}", e);
            return 3;
        }
        g = g_end;
    }
    out_line("DONE", true);
    0
}

fn emit_result(idx: usize, r: Result<CaseOut, String>) {
    match r {
        Ok(c) => {
            if c.ds.is_empty() {
                out_line(&format!("R {} {} {} {:x}", idx, c.calls, c.nontrivial as u8, c.outcome), false);
            } else {
                let ds: Vec<Value> = c
                    .ds
                    .iter()
                    .map(|d| json!({"sig": d.sig, "case": d.case, "detail": d.detail}))
                    .collect();
                out_line(
                    &format!(
                        "R {} {} {} {:x} {}",
                        idx,
                        c.calls,
                        c.nontrivial as u8,
                        c.outcome,
                        hex(&Value::Array(ds).to_string())
                    ),
                    false,
                );
            }
        }
        // a panic that escaped the job's own guards (harness or subject): reported by the parent
        Err(e) => out_line(&format!("E {} {}", idx, hex(&e)), false),
    }
}

enum Line {
    Text(String),
    Eof,
}

struct Child {
    child: std::process::Child,
    rx: mpsc::Receiver<Line>,
    stderr: mpsc::Receiver<String>,
}

fn spawn(prop: &str, tier: Tier, a: &str, b: &str) -> Result<Child, String> {
    let exe = std::env::current_exe().map_err(|e| e.to_string())?;
    let mut child = Command::new(exe)
        .arg("worker")
        .arg(prop)
        .arg(tier_name(tier))
        .arg(a)
        .arg(b)
        // an abort must be quick: no symbolised backtrace on allocation failure
        .env("RUST_BACKTRACE", "0")
        .stdin(Stdio::null())
        .stdout(Stdio::piped())
        .stderr(Stdio::piped())
        .spawn()
        .map_err(|e| format!("cannot spawn worker: {}", e))?;
    let stdout = child.stdout.take().ok_or("no stdout")?;
    let mut stderr = child.stderr.take().ok_or("no stderr")?;
    let (tx, rx) = mpsc::channel();
    std::thread::spawn(move || {
        let rd = BufReader::new(stdout);
        for l in rd.lines() {
            match l {
                Ok(l) => {
                    if tx.send(Line::Text(l)).is_err() {
                        return;
                    }
                }
                Err(_) => break,
            }
        }
        let _ = tx.send(Line::Eof);
    });
    let (etx, erx) = mpsc::channel();
    std::thread::spawn(move || {
        let mut buf = Vec::new();
        let mut chunk = [0u8; 4096];
        // keep only the first 8 KiB; keep draining so the child never blocks on stderr
        while let Ok(n) = stderr.read(&mut chunk) {
            if n == 0 {
                break;
            }
            if buf.len() < 8192 {
                buf.extend_from_slice(&chunk[..n]);
            }
        }
        let _ = etx.send(String::from_utf8_lossy(&buf).to_string());
    });
    Ok(Child {
        child,
        rx,
        stderr: erx,
    })
}

fn status_text(st: &std::process::ExitStatus) -> String {
    use std::os::unix::process::ExitStatusExt;
    match (st.signal(), st.code()) {
        (Some(s), _) => format!("signal={}", s),
        (None, Some(c)) => format!("exit={}", c),
        _ => "unknown".into(),
    }
}

/// How a worker ended a batch.
enum BatchEnd {
    Done,
    /// died or hung while `idx` was in flight
    Lost { idx: usize, hung: bool, status: String },
    /// died before any case started / protocol error
    Machinery(String),
}

struct Agg {
    ds: Vec<Disagreement>,
    sum: Summary,
    errs: Vec<String>,
}

fn parse_result_line(l: &str, agg: &mut Agg) -> Option<usize> {
    let mut it = l.split(' ');
    let tag = it.next()?;
    let idx: usize = it.next()?.parse().ok()?;
    match tag {
        "R" => {
            let calls: u64 = it.next()?.parse().ok()?;
            let nt: u8 = it.next()?.parse().ok()?;
            let outc = u64::from_str_radix(it.next()?, 16).ok()?;
            agg.sum.cases_run += 1;
            agg.sum.calls += calls;
            agg.sum.nontrivial += nt as u64;
            agg.sum.outcomes.insert(outc);
            if let Some(h) = it.next() {
                if let Ok(Value::Array(a)) = serde_json::from_str::<Value>(&unhex(h)) {
                    for d in a {
                        agg.ds.push(Disagreement {
                            sig: d["sig"].as_str().unwrap_or("").to_string(),
                            case: d["case"].clone(),
                            detail: d["detail"].as_str().unwrap_or("").to_string(),
                        });
                    }
                }
            }
            Some(idx)
        }
        "E" => {
            agg.sum.cases_run += 1;
            agg.errs.push(format!(
                "case {} panicked outside the job's guards: {}",
                idx,
                unhex(it.next().unwrap_or(""))
            ));
            Some(idx)
        }
        _ => None,
    }
}

fn run_batch(prop: &str, tier: Tier, from: usize, to: usize, opts: &Opts, agg: &mut Agg) -> BatchEnd {
    let mut ch = match spawn(prop, tier, &from.to_string(), &to.to_string()) {
        Ok(c) => c,
        Err(e) => return BatchEnd::Machinery(e),
    };
    agg.sum.worker_processes += 1;
    let mut in_flight: Option<usize> = None;
    let mut started = false;
    // worker start-up (building the job) gets a longer allowance than a single case
    let startup = Duration::from_secs_f64(opts.watchdog_s.max(60.0));
    let wd = Duration::from_secs_f64(opts.watchdog_s);
    loop {
        let t = if started { wd } else { startup };
        match ch.rx.recv_timeout(t) {
            Ok(Line::Text(l)) => {
                if l == "READY" {
                    started = true;
                } else if l == "DONE" {
                    let _ = ch.child.wait();
                    return BatchEnd::Done;
                } else if let Some(rest) = l.strip_prefix("P ") {
                    started = true;
                    in_flight = rest.trim().parse().ok();
                } else if l.starts_with("R ") || l.starts_with("E ") {
                    if parse_result_line(&l, agg).is_some() {
                        in_flight = None;
                    } else {
                        agg.errs.push(format!("bad worker line: {}", &l[..l.len().min(80)]));
                    }
                }
            }
            Ok(Line::Eof) => {
                let st = ch.child.wait().map(|s| status_text(&s)).unwrap_or_default();
                let err = ch.stderr.recv_timeout(Duration::from_secs(2)).unwrap_or_default();
                return match in_flight {
                    Some(idx) => BatchEnd::Lost {
                        idx,
                        hung: false,
                        status: st,
                    },
                    None => BatchEnd::Machinery(format!(
                        "worker {} {}..{} ended ({}) with no case in flight: {}",
                        prop,
                        from,
                        to,
                        st,
                        err.lines().last().unwrap_or("")
                    )),
                };
            }
            Err(_) => {
                let _ = ch.child.kill();
                let _ = ch.child.wait();
                return match in_flight {
                    Some(idx) => BatchEnd::Lost {
                        idx,
                        hung: true,
                        status: "killed by watchdog".into(),
                    },
                    None => BatchEnd::Machinery(format!(
                        "worker {} {}..{} produced nothing for {:?}",
                        prop, from, to, t
                    )),
                };
            }
        }
    }
}

/// A case may carry `"hint"`: a short class of the input (e.g. which construct a tower nests) that narrows the
/// signature of an abort or hang, which otherwise only names the entry point.
fn with_hint(sig: String, case: &Value) -> String {
    match case["hint"].as_str() {
        Some(h) if !h.is_empty() => format!("{} input={}", sig, h),
        _ => sig,
    }
}

/// Result of running one case alone in a diagnose worker.
pub struct Diagnosis {
    pub ds: Vec<Disagreement>,
    /// Some((sig-part, detail)) when the process died or hung
    pub lost: Option<(String, String)>,
    pub machinery: Option<String>,
}

/// Runs `case` alone in a subprocess reporting stages. Used for dead/hung cases and for replay.
pub fn diagnose(prop: &str, tier: Tier, case: &Value, watchdog_s: f64) -> Diagnosis {
    diagnose_with(prop, tier, "case", &hex(&case.to_string()), watchdog_s)
}

/// Runs case `idx` after the cases `from..idx` of the same worker thread (same hash-map state as in the batch).
pub fn diagnose_in_context(prop: &str, tier: Tier, from: usize, idx: usize, watchdog_s: f64) -> Diagnosis {
    diagnose_with(prop, tier, "ctx", &format!("{}:{}", from, idx), watchdog_s)
}

fn diagnose_with(prop: &str, tier: Tier, mode: &str, arg: &str, watchdog_s: f64) -> Diagnosis {
    let mut dg = Diagnosis {
        ds: vec![],
        lost: None,
        machinery: None,
    };
    let mut ch = match spawn(prop, tier, mode, arg) {
        Ok(c) => c,
        Err(e) => {
            dg.machinery = Some(e);
            return dg;
        }
    };
    let mut stage = String::from("<start>");
    let mut agg = Agg {
        ds: vec![],
        sum: Summary::default(),
        errs: vec![],
    };
    let mut begun = false;
    let mut finished = false;
    let startup = Duration::from_secs_f64(watchdog_s.max(60.0));
    let wd = Duration::from_secs_f64(watchdog_s);
    loop {
        match ch.rx.recv_timeout(if begun { wd } else { startup }) {
            Ok(Line::Text(l)) => {
                if let Some(s) = l.strip_prefix("S ") {
                    stage = unhex(s.trim());
                } else if l.starts_with("P ") {
                    begun = true;
                } else if l.starts_with("R ") || l.starts_with("E ") {
                    parse_result_line(&l, &mut agg);
                    finished = true;
                } else if l == "DONE" {
                    let _ = ch.child.wait();
                    break;
                }
            }
            Ok(Line::Eof) => {
                let st = ch.child.wait().map(|s| status_text(&s)).unwrap_or_default();
                let err = ch.stderr.recv_timeout(Duration::from_secs(2)).unwrap_or_default();
                if !finished {
                    if begun {
                        // without thread ids ("thread '<unknown>' (21554) has overflowed ..."), so that replays compare equal
                        let err: String = {
                            let mut out = String::new();
                            let mut rest = err.as_str();
                            while let Some(i) = rest.find(" (") {
                                let tail = &rest[i + 2..];
                                let n = tail.chars().take_while(|c| c.is_ascii_digit()).count();
                                if n > 0 && tail[n..].starts_with(')') {
                                    out.push_str(&rest[..i]);
                                    rest = &tail[n + 1..];
                                } else {
                                    out.push_str(&rest[..i + 2]);
                                    rest = tail;
                                }
                            }
                            out.push_str(rest);
                            out
                        };
                        let tail: Vec<&str> = err.lines().rev().take(4).collect();
                        let reason = if err.contains("overflowed its stack") {
                            " (stack overflow)"
                        } else if err.contains("memory allocation of") {
                            " (allocation failure)"
                        } else {
                            ""
                        };
                        dg.lost = Some((
                            format!("abort {}{} entry={}", st, reason, stage),
                            format!(
                                "the worker process died ({}) while running entry point `{}`; stderr: {}",
                                st,
                                stage,
                                tail.into_iter().rev().collect::<Vec<_>>().join(" | ")
                            ),
                        ));
                    } else {
                        dg.machinery = Some(format!("diagnose worker died before the case started ({}): {}", st, err));
                    }
                }
                break;
            }
            Err(_) => {
                let _ = ch.child.kill();
                let _ = ch.child.wait();
                if begun {
                    dg.lost = Some((
                        format!("hang entry={}", stage),
                        format!(
                            "no progress for {:.0} s inside entry point `{}`; worker killed by the watchdog",
                            watchdog_s, stage
                        ),
                    ));
                } else {
                    dg.machinery = Some("diagnose worker did not start".into());
                }
                break;
            }
        }
    }
    dg.ds = agg.ds;
    if let Some(e) = agg.errs.into_iter().next() {
        dg.machinery = Some(e);
    }
    dg
}

/// Runs every case of the job of `prop` in worker subprocesses and fills the counters of `run`.
pub fn run_isolated(run: &mut Run, prop: &str, n_cases: usize, case_of: &(dyn Fn(usize) -> Value + Sync), opts: &Opts) -> Summary {
    let tier = run.tier;
    let batch = opts.batch.max(1);
    let n_batches = n_cases.div_ceil(batch);
    let next = AtomicUsize::new(0);
    let lanes = crate::env::workers().min(n_batches.max(1));
    let total = Mutex::new(Agg {
        ds: vec![],
        sum: Summary::default(),
        errs: vec![],
    });
    let start = Instant::now();
    let capped = std::sync::atomic::AtomicBool::new(false);
    std::thread::scope(|s| {
        for _ in 0..lanes {
            s.spawn(|| {
                let mut agg = Agg {
                    ds: vec![],
                    sum: Summary::default(),
                    errs: vec![],
                };
                loop {
                    let b = next.fetch_add(1, Ordering::Relaxed);
                    if b >= n_batches {
                        break;
                    }
                    if start.elapsed().as_secs_f64() > opts.wall_cap_s {
                        capped.store(true, Ordering::Relaxed);
                        break;
                    }
                    let to = ((b + 1) * batch).min(n_cases);
                    let mut from = b * batch;
                    let mut machinery_retries = 0;
                    while from < to {
                        match run_batch(prop, tier, from, to, opts, &mut agg) {
                            BatchEnd::Done => break,
                            BatchEnd::Lost { idx, hung, status } => {
                                if hung {
                                    agg.sum.hangs += 1;
                                } else {
                                    agg.sum.deaths += 1;
                                }
                                agg.sum.cases_run += 1;
                                let case = case_of(idx);
                                let dg = diagnose(prop, tier, &case, opts.watchdog_s);
                                if let Some(m) = dg.machinery {
                                    agg.errs.push(m);
                                }
                                match dg.lost {
                                    Some((sig, detail)) => agg.ds.push(Disagreement {
                                        sig: with_hint(sig, &case),
                                        case: case.clone(),
                                        detail,
                                    }),
                                    None => {
                                        // ran to the end alone: what it found alone counts, and the loss is looked
                                        // for again in the context of its worker thread (hash-map order can decide
                                        // which of several defects an input meets first)
                                        agg.ds.extend(dg.ds);
                                        let gstart = from + ((idx - from) / GROUP) * GROUP;
                                        let dg2 = diagnose_in_context(prop, tier, gstart, idx, opts.watchdog_s * 2.0);
                                        match dg2.lost {
                                            Some((sig, detail)) => {
                                                let mut c = case.clone();
                                                c["context"] = json!({"tier": tier_name(tier), "from": gstart, "idx": idx});
                                                agg.ds.push(Disagreement {
                                                    sig: with_hint(sig, &case),
                                                    case: c,
                                                    detail: format!(
                                                        "{}\n(reproduced only after the {} preceding cases of its worker thread: which code the input meets first depends on hash-map order; alone the case ends normally)",
                                                        detail,
                                                        idx - gstart
                                                    ),
                                                });
                                            }
                                            None => {
                                                agg.sum.transient += 1;
                                                let _ = (hung, &status);
                                            }
                                        }
                                    }
                                }
                                from = idx + 1;
                            }
                            BatchEnd::Machinery(m) => {
                                agg.errs.push(m);
                                machinery_retries += 1;
                                if machinery_retries > 2 {
                                    break;
                                }
                            }
                        }
                    }
                }
                let mut t = total.lock().unwrap();
                t.ds.extend(agg.ds);
                t.errs.extend(agg.errs);
                t.sum.cases_run += agg.sum.cases_run;
                t.sum.calls += agg.sum.calls;
                t.sum.nontrivial += agg.sum.nontrivial;
                t.sum.deaths += agg.sum.deaths;
                t.sum.hangs += agg.sum.hangs;
                t.sum.worker_processes += agg.sum.worker_processes;
                t.sum.transient += agg.sum.transient;
                t.sum.outcomes.extend(agg.sum.outcomes);
            });
        }
    });
    let mut t = total.into_inner().unwrap();
    // deterministic order of disagreements (lanes finish in any order)
    t.ds.sort_by(|a, b| (a.sig.as_str(), a.case.to_string()).cmp(&(b.sig.as_str(), b.case.to_string())));
    for d in t.ds {
        run.add(d);
    }
    for e in t.errs {
        run.machinery_errors.push(e);
    }
    if capped.load(Ordering::Relaxed) {
        run.cap_hit = Some(format!("isolated run of {} stopped at the wall cap of {} s", prop, opts.wall_cap_s));
    }
    if t.sum.cases_run != n_cases as u64 && run.cap_hit.is_none() {
        run.machinery_errors.push(format!(
            "isolated run of {}: {} of {} cases accounted for",
            prop, t.sum.cases_run, n_cases
        ));
    }
    t.sum
}

/// Replays one case in a diagnose subprocess (so that an aborting case cannot kill the replayer).
pub fn replay_isolated(prop: &str, case: &Value, watchdog_s: f64) -> Vec<Disagreement> {
    // the tier only selects the case list; a self-contained case does not depend on it
    let dg = match (case["context"]["from"].as_u64(), case["context"]["idx"].as_u64()) {
        (Some(f), Some(i)) => {
            let tier = if case["context"]["tier"].as_str() == Some("thorough") { Tier::Thorough } else { Tier::Quick };
            diagnose_in_context(prop, tier, f as usize, i as usize, watchdog_s * 2.0)
        }
        _ => diagnose(prop, Tier::Quick, case, watchdog_s),
    };
    let mut ds = dg.ds;
    if let Some((sig, detail)) = dg.lost {
        ds.push(Disagreement {
            sig: with_hint(sig, case),
            case: case.clone(),
            detail,
        });
    }
    if let Some(m) = dg.machinery {
        ds.push(Disagreement {
            sig: "machinery".into(),
            case: case.clone(),
            detail: m,
        });
    }
    ds
}

/// A tiny job used to test the isolation machinery itself (`icverif isolate-selftest`).
struct SelfTest;
impl Job for SelfTest {
    fn n_cases(&self) -> usize {
        40
    }
    fn case_json(&self, idx: usize) -> Value {
        json!({ "i": idx })
    }
    fn run_case(&self, case: &Value, stage: &mut dyn FnMut(&str)) -> CaseOut {
        let i = case["i"].as_u64().unwrap_or(0);
        let mut out = CaseOut {
            calls: 1,
            outcome: i % 3,
            nontrivial: true,
            ..Default::default()
        };
        stage("plain");
        match i {
            7 => {
                stage("overflow");
                fn rec(n: u64) -> u64 {
                    let a = [n; 64];
                    if n == 0 {
                        0
                    } else {
                        rec(n - 1) + std::hint::black_box(a)[(n % 64) as usize]
                    }
                }
                out.calls += rec(100_000_000);
            }
            13 => {
                stage("spin");
                let mut k = 0u64;
                loop {
                    k = std::hint::black_box(k.wrapping_add(1));
                    if k == u64::MAX {
                        break;
                    }
                }
            }
            21 => {
                stage("alloc");
                let mut v: Vec<Vec<u8>> = vec![];
                for _ in 0..4 {
                    v.push(std::hint::black_box(Vec::with_capacity(3usize << 30)));
                }
                out.calls += v.len() as u64;
            }
            29 => {
                stage("panic");
                if let Err(p) = crate::env::guarded(|| {
                    let v: Vec<u8> = vec![];
                    std::hint::black_box(&v)[3]
                }) {
                    out.ds.push(Disagreement {
                        sig: "panic".into(),
                        case: case.clone(),
                        detail: p,
                    });
                }
            }
            _ => {}
        }
        out
    }
}

pub fn selftest() -> i32 {
    let mut run = Run::new("SELFTEST", Tier::Quick);
    let job = SelfTest;
    let s = run_isolated(
        &mut run,
        "SELFTEST",
        job.n_cases(),
        &|i| job.case_json(i),
        &Opts {
            watchdog_s: 3.0,
            batch: 10,
            wall_cap_s: 120.0,
        },
    );
    let mut sigs: Vec<String> = run.clusters.keys().cloned().collect();
    sigs.sort();
    println!("cases_run={} deaths={} hangs={} workers={} outcomes={}", s.cases_run, s.deaths, s.hangs, s.worker_processes, s.outcomes.len());
    for s in &sigs {
        println!("sig: {}", s);
    }
    for e in &run.machinery_errors {
        println!("machinery: {}", e);
    }
    let ok = s.cases_run == 40
        && s.deaths == 2
        && s.hangs == 1
        && sigs.len() == 4
        && sigs.iter().any(|s| s.starts_with("abort") && s.contains("(stack overflow)") && s.ends_with("entry=overflow"))
        && sigs.iter().any(|s| s.starts_with("abort") && s.contains("(allocation failure)") && s.ends_with("entry=alloc"))
        && sigs.iter().any(|s| s == "hang entry=spin")
        && run.machinery_errors.is_empty();
    println!("{}", if ok { "SELFTEST OK" } else { "SELFTEST FAILED" });
    if ok {
        0
    } else {
        1
    }
}
